/-
  Y0.Model.CtfFactor — executable model of the counterfactual-factor functions of
  `src/y0/algorithm/counterfactual_transport/api.py:576-827` (property C19):

    is_counterfactual_factor_form, get_counterfactual_factors,
    get_counterfactual_factors_retaining_variable_values,
    convert_to_counterfactual_factor_form, do_counterfactual_factor_factorization   (Eq. 11-15)

  Core Lean only.
-/
import Y0.Model.Ctf

namespace Y0.Ctf
open Y0

/-- `graph.directed.predecessors(v)` raises `NetworkXError` when `v` is not a node -/
def predecessors (g : MG Name) (v : Name) : Except Err (List Name) :=
  if v ∈ g.nodes then .ok (g.parents v) else .error (.internal "NetworkXError")

/-- the test applied to one variable by `is_counterfactual_factor_form`: a counterfactual variable must not
intervene on itself and must intervene on every parent; a plain variable must have no parent -/
def factorFormVar (pa : List Name) (v : Var) : Bool :=
  if v.isCf then
    !(v.ivs.any (fun i => i.name == v.name)) && pa.all (fun p => v.ivs.any (fun i => i.name == p))
  else pa.isEmpty

/-- `is_counterfactual_factor_form(event, graph)`: variables are visited one after the other, the first
offending one returns `False` (so a later variable that is not a node is never looked up) -/
def isCtfFactorForm (g : MG Name) : List Var → Except Err Bool
  | [] => .ok true
  | v :: rest => do
    let pa ← predecessors g v.name
    if factorFormVar pa v then isCtfFactorForm g rest else pure false

/-- `district_mappings[graph.get_district(base)].add(x)` for a `defaultdict(set)` keyed by the district -/
def addToDistrict {β : Type} [DecidableEq β] (m : List (List Name × List β)) (d : List Name) (x : β) :
    List (List Name × List β) :=
  if m.any (fun p => p.1 == d) then
    m.map (fun p => if p.1 == d then (p.1, if mem' x p.2 then p.2 else p.2 ++ [x]) else p)
  else m ++ [(d, [x])]

/-- one iteration of the grouping loop; `get_district` raises `KeyError` -/
def groupStep {β : Type} [DecidableEq β] (g : MG Name) (name : β → Name) (m : List (List Name × List β)) (x : β) :
    Except Err (List (List Name × List β)) := do
  let d ← g.getDistrict (name x)
  pure (addToDistrict m d x)

/-- the grouping loop shared by the two `get_counterfactual_factors*` functions -/
def groupByDistrict {β : Type} [DecidableEq β] (g : MG Name) (name : β → Name) (xs : List β) :
    Except Err (List (List β)) := do
  let m ← xs.foldlM (groupStep g name) []
  pure (m.map (·.2))

/-- `get_counterfactual_factors(event, graph)`; `ValueError` when not in ctf-factor form -/
def ctfFactors (g : MG Name) (event : List Var) : Except Err (List (List Var)) := do
  let event := dedup' event
  if !(← isCtfFactorForm g event) then throw (.invalidInput "ValueError")
  groupByDistrict g (·.name) event

/-- `get_counterfactual_factors_retaining_variable_values(event, graph)` -/
def ctfFactorsValues (g : MG Name) (event : Event) : Except Err (List Event) := do
  let event := dedup' event
  if !(← isCtfFactorForm g (dedup' (event.map (·.1)))) then throw (.invalidInput "ValueError")
  groupByDistrict g (·.1.name) event

/-- the subscripts of `W_{pa_W}` built by `convert_to_counterfactual_factor_form`: the interventions of the variable on
parents are kept, every parent not intervened on is added as `-Pa` (`Variable.intervene` turns a plain parent into
`Intervention(name, star=False)`), everything else is dropped -/
def convertIvs (cand : List Name) (v : Var) : List Iv :=
  let kept := if v.isCf then v.ivs.filter (fun i => decide (i.name ∈ cand)) else []
  let keptNames := kept.map (·.name)
  let added := (cand.filter (fun p => decide (p ∉ keptNames))).map (fun p => Iv.mk p false)
  sortBy Iv.lt (dedup' (kept ++ added))

/-- one step of `convert_to_counterfactual_factor_form` (the value mark is dropped: `variable.get_base()`) -/
def convertOne (g : MG Name) (v : Var) : Except Err Var := do
  let cand ← predecessors g v.name
  let ps := convertIvs cand v
  pure (if ps.isEmpty then Var.plain v.name else { name := v.name, ivs := ps })

/-- `convert_to_counterfactual_factor_form(event, graph)` -/
def convertEvent (g : MG Name) (e : Event) : Except Err Event :=
  e.mapM (fun p => do pure (← convertOne g p.1, p.2))

/-- `Product.safe` on a list of `Probability` objects (no `One`/`Zero` among them); the order of the factors of a
`Product` is `sorted(expressions)` in Python and is compared as a multiset by the harness -/
def productSafe : List Expr → Expr
  | [] => .one
  | [e] => e
  | es => .prod es

/-- `Sum.safe(expression, ranges)` for a non-`Zero` expression -/
def sumSafe (e : Expr) (ranges : List Name) : Expr :=
  if ranges.isEmpty then e else .sum e (ranges.map Var.plain)

/-- `P(factor)` for a set of variables: children sorted by `_variable_sort_key` -/
def probOf (factor : List Var) : Expr := .prob none (sortBy Var.keyLt factor) []

/-- union of two Python sets -/
def unionVars (a b : List Var) : List Var := a ++ b.filter (fun x => !mem' x a)

/-- `ancestral_set.update(get_ancestors_of_counterfactual(variable, graph))` -/
def ancStep (g : MG Name) (acc : List Var) (p : Var × Val) : Except Err (List Var) := do
  let a ← ctfAncestors g p.1
  pure (unionVars acc a)

/-- `do_counterfactual_factor_factorization(variables, graph)`: returns the expression
`Σ_{d_* ∖ y_*} Π_j P(c_j*)` and the query in ctf-factor form with its values -/
def factorize (g : MG Name) (q : Event) : Except Err (Expr × Event) := do
  if q.isEmpty then throw (.invalidInput "TypeError")
  let resultEvent ← convertEvent g q
  let anc ← q.foldlM (ancStep g) []
  let ancCtf := dedup' (← anc.mapM (convertOne g))
  let names := dedup' (ancCtf.map (·.name))
  let outcome := dedup' (q.map (·.1.name))
  let sub := g.subgraph names
  let factors ← ctfFactors sub ancCtf
  let product := productSafe (factors.map probOf)
  pure (sumSafe product (names.filter (fun n => decide (n ∉ outcome))), resultEvent)

/-! ### the three syntactic query classes on which the two-symbol representation of the factorisation cannot express
`P(query)` (open findings `factorisation-value:*`; mirrored by `_factorise_causes` in harness/props/c19.py, cross-checked
through the driver op `factorize_classes`) -/

/-- `D_* = An(Y_*)` as accumulated by `do_counterfactual_factor_factorization` -/
def ancestralSet (g : MG Name) (q : Event) : Except Err (List Var) := q.foldlM (ancStep g) []

/-- **multi-world**: one graph vertex occurs as two different counterfactual variables in `An(Y_*)` -/
def multiWorld (D : List Var) : Bool := D.any fun a => D.any fun b => decide (a.name = b.name ∧ a ≠ b)

/-- **literal-bound**: an unstarred literal subscript `-X` of the query names a vertex of `An(Y_*)` that is summed out
(not an outcome), so the summation index captures it (a starred subscript `+X` cannot be captured) -/
def literalBound (q : Event) (D : List Var) : Bool :=
  q.any fun p => p.1.ivs.any fun i =>
    !i.star && decide (i.name ∈ D.map (·.name)) && decide (i.name ∉ q.map (·.1.name))

/-- **outcome-parent-value**: a member `W_z` of `An(Y_*)` has a parent `P` that it does not intervene on (so the
conversion ADDS the subscript `-P`) and `P` is an outcome whose event value is not `-P` (it is `+P` or `None`) -/
def outcomeParentValue (g : MG Name) (q : Event) (D : List Var) : Bool :=
  D.any fun w => (g.parents w.name).any fun p =>
    decide (p ∉ w.ivs.map (·.name)) && decide (p ∈ D.map (·.name)) &&
      q.any fun it => decide (it.1.name = p ∧ it.2 ≠ some ⟨p, false⟩)

/-- the three class flags of a query: (multi-world, literal-bound, outcome-parent-value) -/
def factorizeClasses (g : MG Name) (q : Event) : Except Err (Bool × Bool × Bool) := do
  let D ← ancestralSet g q
  pure (multiWorld D, literalBound q D, outcomeParentValue g q D)

/-- the query has a reading in the functional-SCM semantics used by the value theorem: no variable intervenes on itself
and no variable intervenes twice on one name -/
def readableQuery (q : Event) : Bool :=
  q.all fun p => !(p.1.ivs.any fun i => i.name == p.1.name) &&
    p.1.ivs.all fun i => p.1.ivs.all fun j => decide (i.name = j.name → i = j)

end Y0.Ctf
