/-
  Y0.Model.PyParse — Python's expression grammar, restricted to the token alphabet of `Y0.Tok`, as a
  fuel-bounded recursive-descent / precedence parser producing a small Python AST.
  `parse_y0(s)` is `eval(s, {}, LOCALS)`; this file is the "Python parses `s`" half of a model of it,
  `Y0.Model.PyEval` is the "Python evaluates the AST" half.

  Python grammar (Grammar/python.gram), lowest to highest precedence, all binary operators left
  associative:
      bitwise_or  : bitwise_or '|' bitwise_xor | bitwise_xor          level 0
      bitwise_and : bitwise_and '&' shift_expr | shift_expr           level 1
      sum         : sum ('+'|'-') term | term                         level 2
      term        : term ('*'|'/'|'@') factor | factor                 level 3
      factor      : ('+'|'-'|'~') factor | power
      primary     : primary '(' args ')' | primary '[' slices ']' | atom
      atom        : NAME | '(' expr ')' | '(' expr (',' expr)+ ')'
  (`^`, shifts, `**`, comparisons, `await`, attribute access, keywords, trailing commas, the empty tuple and
  starred arguments cannot be written with the token alphabet or are never emitted by the printers;
  they are outside the sub-grammar and rejected.)

  The tie to Python's real parser is correspondence stream (ii) of C12: `ast.parse(str(e), mode="eval")`
  must equal `PyParse.parse (tokens of str(e))`, and (thorough tier) the same on random token strings.
  Core Lean only.
-/
import Y0.Model.Print

namespace Y0

inductive UOp where
  | pos | neg | inv
  deriving DecidableEq, Repr, Inhabited

inductive BOp where
  | bor | band | add | sub | mul | div | matmul
  deriving DecidableEq, Repr, Inhabited

/-- `ast.Name`, `ast.Call`, `ast.Subscript`, `ast.Tuple`, `ast.UnaryOp`, `ast.BinOp` -/
inductive Ast where
  | name (n : Name)
  | kw (k : Kw)
  | call (f : Ast) (args : List Ast)
  | sub (f : Ast) (idx : Ast)
  | tuple (xs : List Ast)
  | un (op : UOp) (a : Ast)
  | bin (op : BOp) (l r : Ast)
  deriving Repr, Inhabited

namespace PyParse

/-- binary operator tokens with their precedence level -/
def binInfo : Tok → Option (BOp × Nat)
  | .bar => some (.bor, 0)
  | .amp => some (.band, 1)
  | .plus => some (.add, 2)
  | .minus => some (.sub, 2)
  | .star => some (.mul, 3)
  | .slash => some (.div, 3)
  | .at => some (.matmul, 3)
  | _ => none

/-- number of binary levels; `pBin n 4` is `factor` -/
def topLevel : Nat := 4

/-- `(x)` is `x`; `(x, y, …)` is a tuple -/
def tupleOf : List Ast → Ast
  | [x] => x
  | xs => .tuple xs

abbrev R (α : Type) := Except String (α × List Tok)

mutual
/-- the binary level `lvl` (`lvl ≥ 4`: `factor`) -/
def pBin : Nat → Nat → List Tok → R Ast
  | 0, _, _ => .error "fuel"
  | n + 1, lvl, ts =>
    if lvl ≥ topLevel then pUnary n ts
    else
      match pBin n (lvl + 1) ts with
      | .error e => .error e
      | .ok (l, rest) => pLoop n lvl l rest
/-- the left-associative loop of level `lvl` with the left operand already parsed -/
def pLoop : Nat → Nat → Ast → List Tok → R Ast
  | 0, _, _, _ => .error "fuel"
  | _ + 1, _, lhs, [] => .ok (lhs, [])
  | n + 1, lvl, lhs, t :: ts =>
    match binInfo t with
    | none => .ok (lhs, t :: ts)
    | some (op, l) =>
      if l = lvl then
        match pBin n (lvl + 1) ts with
        | .error e => .error e
        | .ok (r, rest) => pLoop n lvl (.bin op lhs r) rest
      else .ok (lhs, t :: ts)
/-- `factor` -/
def pUnary : Nat → List Tok → R Ast
  | 0, _ => .error "fuel"
  | n + 1, .plus :: ts =>
    match pUnary n ts with
    | .error e => .error e
    | .ok (a, rest) => .ok (.un .pos a, rest)
  | n + 1, .minus :: ts =>
    match pUnary n ts with
    | .error e => .error e
    | .ok (a, rest) => .ok (.un .neg a, rest)
  | n + 1, .tilde :: ts =>
    match pUnary n ts with
    | .error e => .error e
    | .ok (a, rest) => .ok (.un .inv a, rest)
  | n + 1, ts =>
    match pAtom n ts with
    | .error e => .error e
    | .ok (a, rest) => pPost n a rest
/-- the call / subscript suffixes of `primary` -/
def pPost : Nat → Ast → List Tok → R Ast
  | 0, _, _ => .error "fuel"
  | n + 1, f, .lpar :: .rpar :: ts => pPost n (.call f []) ts
  | n + 1, f, .lpar :: ts =>
    match pList n ts with
    | .error e => .error e
    | .ok (args, .rpar :: rest) => pPost n (.call f args) rest
    | .ok _ => .error "expected )"
  | n + 1, f, .lbr :: ts =>
    match pList n ts with
    | .error e => .error e
    | .ok (xs, .rbr :: rest) => pPost n (.sub f (tupleOf xs)) rest
    | .ok _ => .error "expected ]"
  | _ + 1, f, ts => .ok (f, ts)
/-- `atom` -/
def pAtom : Nat → List Tok → R Ast
  | 0, _ => .error "fuel"
  | _ + 1, .name x :: ts => .ok (.name x, ts)
  | _ + 1, .kw k :: ts => .ok (.kw k, ts)
  | n + 1, .lpar :: ts =>
    match pList n ts with
    | .error e => .error e
    | .ok (xs, .rpar :: rest) => .ok (tupleOf xs, rest)
    | .ok _ => .error "expected )"
  | _ + 1, _ => .error "unexpected token"
/-- one or more expressions separated by commas -/
def pList : Nat → List Tok → Except String (List Ast × List Tok)
  | 0, _ => .error "fuel"
  | n + 1, ts =>
    match pBin n 0 ts with
    | .error e => .error e
    | .ok (a, .comma :: rest) =>
      match pList n rest with
      | .error e => .error e
      | .ok (as, rest') => .ok (a :: as, rest')
    | .ok (a, rest) => .ok ([a], rest)
end

/-- fuel that is always enough: every call consumes a token within 16 steps -/
def fuelFor (ts : List Tok) : Nat := 16 * ts.length + 16

/-- `ast.parse(s, mode="eval")` on the token list of `s` (single expression, no top-level tuple) -/
def parse (ts : List Tok) : Except String Ast :=
  match pBin (fuelFor ts) 0 ts with
  | .error e => .error e
  | .ok (a, []) => .ok a
  | .ok (_, _ :: _) => .error "trailing tokens"

end PyParse
end Y0
