/-
  Y0.Model.Canon — src/y0/mutate/canonicalize_expr.py and dsl.ensure_ordering, branch for branch
  (the code AFTER the `fix:` commits of branch fix-expr: deterministic child order for variables that share a name,
  products flattened after their factors were canonicalised, trivial fractions re-checked after the division).

  Python                                   model
  ---------------------------------------  ------------------------------------------
  ensure_ordering(expr, ordering=...)      ensureOrdering
  Canonicalizer.__init__ (ordering_level)  levelOf        (name -> last index in the ordering)
  Canonicalizer._sorted                    sortVars       (KeyError -> internal)
  _flatten_product                         flattenFactors
  Canonicalizer.canonicalize               canonL / canonFactors  (on a level table), canon (on an ordering)
  canonicalize(expr, ordering)             canonicalize
  canonical_expr_equal                     canonicalExprEqual
  Core Lean only.
-/
import Y0.Model.Dsl

namespace Y0

/-- `ensure_ordering`: an explicit ordering is re-sorted (`_upgrade_ordering`), otherwise all variables of the
expression in `_variable_sort_key` order -/
def ensureOrdering (e : Expr) (ordering : Option (List Var)) : List Var :=
  match ordering with
  | some o => upgradeOrdering o
  | none => e.getVariables

/-- `ordering_level = {variable.name: level for level, variable in enumerate(ordering)}`: last occurrence wins -/
def levelOf (ordering : List Var) (n : Name) : Option Nat :=
  let rec go : List Var → Nat → Option Nat → Option Nat
    | [], _, acc => acc
    | v :: vs, i, acc => go vs (i + 1) (if v.name = n then some i else acc)
  go ordering 0 none

/-- sort key of `Canonicalizer._sorted_key`: `(ordering_level[name], _variable_total_key(variable))` -/
def varLevelKey (lvl : Name → Option Nat) (v : Var) : Except Err Key :=
  match lvl v.name with
  | some l => pure (.tup [.atom l, v.totalKey])
  | none => throw (.internal "KeyError")

/-- `Canonicalizer._sorted`: stable sort by the level key; a name missing from the ordering is a `KeyError` -/
def sortVars (lvl : Name → Option Nat) (vs : List Var) : Except Err (List Var) := do
  let keyed ← vs.mapM (fun v => do pure (← varLevelKey lvl v, v))
  pure ((sortStable (fun (a b : Key × Var) => Key.lt a.1 b.1) keyed).map (·.2))

mutual
/-- `_flatten_product` applied to every product among the given expressions (deep) -/
def flattenFactors : List Expr → List Expr
  | [] => []
  | e :: rest => flattenFactor e ++ flattenFactors rest
def flattenFactor : Expr → List Expr
  | .prod gs => flattenFactors gs
  | e => [e]
end

/-- post-check of the Fraction branch: `Fraction(a, One())` and `Fraction(a, a)` produced by the division collapse -/
def postFrac (rv : Expr) : Expr :=
  match rv with
  | .frac a b => if b.isOne then a else if a.eqb b then .one else rv
  | _ => rv

mutual
/-- `Canonicalizer.canonicalize` -/
def canonL (lvl : Name → Option Nat) : Expr → Except Err Expr
  | .prob pop c p => do
      let c' ← sortVars lvl c
      let p' ← sortVars lvl p
      pure (.prob pop c' p')
  | .sum e r => do pure (sumSafe (← canonL lvl e) r true)
  | .prod fs => do pure (productSafe (flattenFactors (← canonFactors lvl fs)))
  | .frac n d => do
      let n' ← canonL lvl n
      let d' ← canonL lvl d
      if d'.isOne then pure n'
      else if n'.eqb d' then pure .one
      else pure (postFrac (← n'.div d'))
  | .one => pure .one
  | .zero => pure .zero
  | .q _ _ => throw (.invalidInput "TypeError")
/-- `self.canonicalize(subexpr) for subexpr in _flatten_product(expression)` -/
def canonFactors (lvl : Name → Option Nat) : List Expr → Except Err (List Expr)
  | [] => pure []
  | .prod gs :: rest => do
      let a ← canonFactors lvl gs
      let b ← canonFactors lvl rest
      pure (a ++ b)
  | f :: rest => do
      let a ← canonL lvl f
      let b ← canonFactors lvl rest
      pure (a :: b)
end

/-- `Canonicalizer(ordering).canonicalize(e)` -/
def canon (ordering : List Var) (e : Expr) : Except Err Expr := canonL (levelOf ordering) e

/-- `canonicalize(expression, ordering)` -/
def canonicalize (e : Expr) (ordering : Option (List Var)) : Except Err Expr :=
  canon (ensureOrdering e ordering) e

/-- `canonical_expr_equal(left, right)` -/
def canonicalExprEqual (l r : Expr) : Except Err Bool := do
  let o := upgradeOrdering (l.iterVars ++ r.iterVars)
  let a ← canon o l
  let b ← canon o r
  pure (a.eqb b)

end Y0
