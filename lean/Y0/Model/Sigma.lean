/-
  Y0.Model.Sigma — executable model of `y0.algorithm.separation.sigma_separation` (C20):
  `get_equivalence_classes`, the four triple predicates, `_triple_helper`, the one-step backtrack
  augmentation `_triple_has_correct_form`, `is_z_sigma_open`, `are_sigma_separated`
  (= no simple path of the disoriented graph is Z-σ-open; `nx.all_simple_paths` is a DFS).

  Core Lean only.  Python's short-circuit `and` / `or` / `any` / `all` are kept (they decide which
  look-ups — each a possible `KeyError` / `NetworkXError` — are evaluated).
-/
import Y0.Model.Graph

namespace Y0
namespace MG
variable {α : Type} [DecidableEq α]

/-- short-circuit `x or y` -/
def orE (x : Except Err Bool) (y : Except Err Bool) : Except Err Bool := do
  if (← x) then pure true else y

/-- short-circuit `x and y` -/
def andE (x : Except Err Bool) (y : Except Err Bool) : Except Err Bool := do
  if (← x) then y else pure false

/-- `get_equivalence_classes`: `σ(v) = anc(v) ∩ desc(v)` (strongly connected component of `v`) -/
def equivalenceClasses (G : MG α) : Except Err (List (α × List α)) :=
  G.nodes.mapM (fun v => do
    let an ← G.ancestorsInclusive [v]
    let de ← G.descendantsInclusive [v]
    pure (v, inter' an de))

/-- `sigma[v]`; `KeyError` when `v` is not a node -/
def sigmaOf (sg : List (α × List α)) (v : α) : Except Err (List α) :=
  match sg.find? (fun p => p.1 = v) with
  | some p => .ok p.2
  | none => .error (.internal "KeyError")

/-- `_has_either_edge(u, v)`: `u → v` or `u ↔ v` -/
def hasEither (G : MG α) (u v : α) : Bool := G.hasDi u v || G.hasBi u v

/-- `_only_directed_edge(u, v)`: `u → v` (after the `fix:` for defect F9 a parallel `u ↔ v` no longer
disqualifies the directed edge) -/
def onlyDirected (G : MG α) (u v : α) : Bool := G.hasDi u v

/-- `is_collider`: arrowheads at `m` from both sides and `m` has a descendant (inclusive) in `C`
(after the `fix:` for defect F9; before it: `m ∈ C`) -/
def isCollider (G : MG α) (C : List α) (l m r : α) : Except Err Bool :=
  if G.hasEither l m && G.hasEither r m then do
    let d ← G.descendantsInclusive [m]
    pure (d.any (· ∈ C))
  else pure false

/-- `is_non_collider_left_chain`: `l ← m *–* r` -/
def isLeftChain (G : MG α) (sg : List (α × List α)) (C : List α) (l m r : α) : Except Err Bool :=
  if G.onlyDirected m l && G.hasEither r m then
    if m ∉ C then pure true else do
      let s ← sigmaOf sg l
      pure (decide (m ∈ s))
  else pure false

/-- `is_non_collider_right_chain`: `l *–* m → r` -/
def isRightChain (G : MG α) (sg : List (α × List α)) (C : List α) (l m r : α) : Except Err Bool :=
  if G.hasEither l m && G.onlyDirected m r then
    if m ∉ C then pure true else do
      let s ← sigmaOf sg r
      pure (decide (m ∈ s))
  else pure false

/-- `is_non_collider_fork`: `l ← m → r`; all four sub-terms are evaluated eagerly by the Python -/
def isFork (G : MG α) (sg : List (α × List α)) (C : List α) (l m r : α) : Except Err Bool := do
  let sl ← sigmaOf sg l
  let sr ← sigmaOf sg r
  let a := G.onlyDirected m l
  let b := G.onlyDirected m r
  let c := decide (m ∉ C)
  let d := decide (m ∈ C) && decide (m ∈ sl) && decide (m ∈ sr)
  pure (a && b && (c || d))

/-- `_triple_helper` -/
def tripleHelper (G : MG α) (sg : List (α × List α)) (C : List α) (l m r : α) : Except Err Bool :=
  orE (G.isCollider C l m r) (orE (G.isLeftChain sg C l m r) (orE (G.isRightChain sg C l m r)
    (G.isFork sg C l m r)))

/-- `any(...)` over a list, short-circuit -/
def anyE {β : Type} (f : β → Except Err Bool) : List β → Except Err Bool
  | [] => .ok false
  | x :: xs => orE (f x) (anyE f xs)

/-- `all(...)` over a list, short-circuit -/
def allE {β : Type} (f : β → Except Err Bool) : List β → Except Err Bool
  | [] => .ok true
  | x :: xs => andE (f x) (allE f xs)

/-- `graph.disorient().neighbors(middle)` minus `middle`; `NetworkXError` when not a node -/
def backtrackNbrs (G : MG α) (m : α) : Except Err (List α) :=
  if m ∈ G.nodes then .ok ((G.disorient.biNbrs m).filter (· ≠ m)) else .error (.internal "NetworkXError")

/-- `_triple_has_correct_form`: the triple itself, or `l, m, n, m, r` for a neighbour `n` of `m` -/
def tripleOk (G : MG α) (sg : List (α × List α)) (C : List α) (l m r : α) : Except Err Bool :=
  orE (G.tripleHelper sg C l m r) (do
    let ns ← G.backtrackNbrs m
    anyE (fun n => andE (G.tripleHelper sg C l m n) (andE (G.tripleHelper sg C m n m)
      (G.tripleHelper sg C n m r))) ns)

/-- `more_itertools.triplewise` -/
def triples : List α → List (α × α × α)
  | a :: b :: c :: rest => (a, b, c) :: triples (b :: c :: rest)
  | _ => []

/-- `is_z_sigma_open(graph, path, sigma, conditions)`; `path[0]` raises `IndexError` on `[]` -/
def isZSigmaOpen (G : MG α) (sg : List (α × List α)) (C : List α) (path : List α) : Except Err Bool :=
  match path.head?, path.getLast? with
  | some first, some last =>
    if first ∈ C ∨ last ∈ C then .ok false
    else allE (fun (t : α × α × α) => G.tripleOk sg C t.1 t.2.1 t.2.2) (triples path)
  | _, _ => .error (.internal "IndexError")

/-- simple paths from `cur` to `t` following `next`, depth-first; `path` is the reversed prefix -/
def simplePathsU (next : α → List α) (t : α) : Nat → List α → α → List (List α)
  | 0, _, _ => []
  | fuel + 1, path, cur =>
    if cur = t then [(cur :: path).reverse]
    else ((next cur).filter (fun c => c ∉ cur :: path)).flatMap
      (fun c => simplePathsU next t fuel (cur :: path) c)

/-- `nx.all_simple_paths(E, a, b)` on an undirected graph (cutoff `len(E) - 1` is vacuous for simple
paths); `NodeNotFound` when an endpoint is missing; the trivial path when `a = b` -/
def allSimplePaths (E : MG α) (a b : α) : Except Err (List (List α)) :=
  if a ∉ E.nodes then .error (.internal "NodeNotFound")
  else if b ∉ E.nodes then .error (.internal "NodeNotFound")
  else .ok (simplePathsU E.biNbrs b (E.nodes.length + 1) [] a)

/-- `are_sigma_separated(graph, left, right, conditions=C)` -/
def sigmaSeparated (G : MG α) (a b : α) (C : List α) : Except Err Bool := do
  let sg ← G.equivalenceClasses
  let paths ← G.disorient.allSimplePaths a b
  let open_ ← anyE (G.isZSigmaOpen sg C) paths
  pure (!open_)

end MG
end Y0
