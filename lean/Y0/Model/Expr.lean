/-
  Y0.Model.Expr — the data types of the probability-expression DSL (src/y0/dsl.py) and their
  line-protocol encoding.  Only data and codecs here; the normalising constructors
  (`Product.safe`, `Sum.safe`, `__mul__`, …) are modelled in Y0.Model.Dsl.

  Python class                          model
  ------------------------------------  ---------------------------------------------
  Intervention(name, star)              Iv
  Variable / Intervention /             Var  (kind decided by `isIv` and `ivs`)
    CounterfactualVariable
  Probability / PopulationProbability   Expr.prob pop children parents
  Product, Sum, Fraction, One, Zero     Expr.prod / sum / frac / one / zero
  QFactor                               Expr.q domain codomain

  `frozenset` fields (interventions, Sum.ranges, QFactor domain/codomain) are lists that the
  codec keeps sorted and duplicate free (`Var.lt`), so structural equality of the model equals
  `==` of the dataclasses.
-/
import Y0.Model.Basic

namespace Y0

/-- `Intervention(name, star)`; `star = false` is the value `x` ("-X"), `true` is `x'` ("+X") -/
structure Iv where
  name : Name
  star : Bool
  deriving DecidableEq, Repr, Inhabited, BEq, Hashable

/-- `_sort_interventions` key `(name, star)` -/
def Iv.lt (a b : Iv) : Bool := a.name < b.name || (a.name == b.name && !a.star && b.star)

/-- a `Variable`, `Intervention` or `CounterfactualVariable`:
  * `ivs = []`, `isIv = false` : `Variable(name, star)`
  * `ivs = []`, `isIv = true`  : `Intervention(name, star)` (then `star ≠ none`)
  * `ivs ≠ []`                 : `CounterfactualVariable(name, star, frozenset ivs)` -/
structure Var where
  name : Name
  star : Option Bool := none
  isIv : Bool := false
  ivs : List Iv := []
  deriving DecidableEq, Repr, Inhabited, BEq, Hashable

namespace Var
def plain (n : Name) : Var := { name := n }
def isCf (v : Var) : Bool := !v.ivs.isEmpty
/-- `get_base()` -/
def base (v : Var) : Var := { name := v.name }

/-- `_variable_sort_key`: `(name, ",".join(i.to_y0() for i in sorted interventions))`.  With the harness's
fixed-width names the string comparison is the lexicographic comparison of this token list
(`'+' < '-'`, so a starred subscript sorts first). -/
def sortKey (v : Var) : Name × List (Nat × Name) :=
  (v.name, v.ivs.map (fun i => (if i.star then 0 else 1, i.name)))

def listLt : List (Nat × Name) → List (Nat × Name) → Bool
  | [], [] => false
  | [], _ :: _ => true
  | _ :: _, [] => false
  | (a1, a2) :: as, (b1, b2) :: bs =>
    if a1 < b1 then true else if b1 < a1 then false
    else if a2 < b2 then true else if b2 < a2 then false else listLt as bs

def keyLt (a b : Var) : Bool :=
  a.name < b.name || (a.name == b.name && listLt a.sortKey.2 b.sortKey.2)
end Var

/-- insertion sort by a strict order given as a Bool function; stable (like Python's `sorted`) -/
def insertBy {α} (lt : α → α → Bool) (x : α) : List α → List α
  | [] => [x]
  | y :: ys => if lt y x then y :: insertBy lt x ys else x :: y :: ys

def sortBy {α} (lt : α → α → Bool) (l : List α) : List α := l.foldr (insertBy lt) []
-- note: `foldr` inserts the last element first; `insertBy lt x` places the (earlier) element `x` in front of
-- the first `y` that is not strictly smaller, i.e. in front of later elements with an equal key, so ties keep
-- input order (stability, like Python's `sorted`).  `example` below pins this down.

example : sortBy (fun (a b : Nat × Nat) => a.1 < b.1) [(1, 0), (0, 9), (1, 1), (0, 8), (1, 2)]
    = [(0, 9), (0, 8), (1, 0), (1, 1), (1, 2)] := by decide

inductive Expr where
  | prob (pop : Option Var) (children parents : List Var)
  | prod (fs : List Expr)
  | sum (e : Expr) (ranges : List Var)
  | frac (num den : Expr)
  | one
  | zero
  | q (domain codomain : List Var)
  deriving Repr, Inhabited, BEq

/-! ### codec -/

namespace Codec
open Sexp

def starToSexp : Option Bool → Sexp
  | none => atom "n"
  | some false => atom "m"
  | some true => atom "p"

def starOf? : Sexp → Option (Option Bool)
  | atom "n" => some none
  | atom "m" => some (some false)
  | atom "p" => some (some true)
  | _ => none

def ivToSexp (i : Iv) : Sexp := list [nat i.name, atom (if i.star then "p" else "m")]

def ivOf? : Sexp → Option Iv
  | list [n, atom "p"] => do pure ⟨← asNat? n, true⟩
  | list [n, atom "m"] => do pure ⟨← asNat? n, false⟩
  | _ => none

/-- `(v name star isIv (ivs…))` -/
def varToSexp (v : Var) : Sexp :=
  list [atom "v", nat v.name, starToSexp v.star, atom (if v.isIv then "1" else "0"),
        list ((sortBy Iv.lt v.ivs).map ivToSexp)]

def varOf? : Sexp → Option Var
  | list [atom "v", n, s, atom k, list ivs] => do
      pure { name := ← asNat? n, star := ← starOf? s, isIv := k == "1", ivs := sortBy Iv.lt (← ivs.mapM ivOf?) }
  | _ => none

def varsToSexp (vs : List Var) : Sexp := list (vs.map varToSexp)
def varsOf? : Sexp → Option (List Var)
  | list xs => xs.mapM varOf?
  | _ => none

partial def exprToSexp : Expr → Sexp
  | .prob none c p => list [atom "P", varsToSexp c, varsToSexp p]
  | .prob (some pop) c p => list [atom "PP", varToSexp pop, varsToSexp c, varsToSexp p]
  | .prod fs => list (atom "prod" :: fs.map exprToSexp)
  | .sum e r => list [atom "sum", varsToSexp r, exprToSexp e]
  | .frac n d => list [atom "frac", exprToSexp n, exprToSexp d]
  | .one => atom "one"
  | .zero => atom "zero"
  | .q d c => list [atom "Q", varsToSexp d, varsToSexp c]

partial def exprOf? : Sexp → Option Expr
  | atom "one" => some .one
  | atom "zero" => some .zero
  | list [atom "P", c, p] => do pure (.prob none (← varsOf? c) (← varsOf? p))
  | list [atom "PP", pop, c, p] => do pure (.prob (some (← varOf? pop)) (← varsOf? c) (← varsOf? p))
  | list (atom "prod" :: fs) => do pure (.prod (← fs.mapM exprOf?))
  | list [atom "sum", r, e] => do pure (.sum (← exprOf? e) (sortBy Var.keyLt (dedup' (← varsOf? r))))
  | list [atom "frac", n, d] => do pure (.frac (← exprOf? n) (← exprOf? d))
  | list [atom "Q", d, c] => do
      pure (.q (sortBy Var.keyLt (dedup' (← varsOf? d))) (sortBy Var.keyLt (dedup' (← varsOf? c))))
  | _ => none

end Codec
end Y0
