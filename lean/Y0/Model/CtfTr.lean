/-
  Y0.Model.CtfTr — executable model of counterfactual transportability
  (src/y0/algorithm/counterfactual_transport/api.py, Correa, Lee & Bareinboim 2022):

    _validate_transport_unconditional_counterfactual_query_input      validateU        (decision function, error class)
    _validate_transport_conditional_counterfactual_query_input        validateC
    _valid_topo_list                                                 validTopoList
    _any_variable_values_inconsistent_with_interventions             valuesVsInterventions
    _any_inconsistent_intervention_values                            inconsistentInterventionValues
    _counterfactual_factor_is_inconsistent                           factorInconsistent
    _no_intervention_variables_in_domain / _no_transportability_…    domainUsable
    transport_district_intervening_on_parents  (Algorithm 4)         sigmaTR
    _transport_unconditional_counterfactual_query_line_2             line2
    transport_unconditional_counterfactual_query (Algorithm 2)       ctfTRu
    transport_conditional_counterfactual_query (Algorithm 3)         ctfTR   (lines 1-3; line 4 is a parameter)

  built on the `ctf` family's models of SIMPLIFY, counterfactual ancestors, ctf-factor form and factorisation
  (Y0.Model.Ctf*, property C19) and on the `tian` family's model of compute_c_factor / identify_district_variables
  (Y0.Model.Tian, property C17).  In the typed model the `isinstance` checks of the validators are vacuous; what remains
  are their value checks, in the order of the Python, each with its exception class.

  Core Lean only.
-/
import Y0.Model.CtfFactor
import Y0.Model.CtfSimplify
import Y0.Model.Tian
import Y0.Model.Trso
import Y0.Model.Dsl

namespace Y0
namespace CtfTr
open Trso (isTnode tnode targetPop nsort)

/-- one entry of `domain_graphs` / `domain_data`: selection diagram, topological order, policy variables, and the
`PopulationProbability` describing the available distribution -/
structure Domain where
  graph : MG Name
  topo : List Name
  policy : List Name
  pop : Expr
  deriving Inhabited

def regular (g : MG Name) : List Name := g.nodes.filter (fun n => !isTnode n)

/-- `expression.get_variables()` for a probability leaf (the distributions of `domain_data` are
`PopulationProbability` objects): every child and parent, and the `Intervention` objects of its subscripts.  The
validators test `v in expression.get_variables()` for the graph vertices `v`, which are plain `Variable` objects: a
vertex that occurs only as a subscript or only as a counterfactual variable does not count -/
def exprVars : Expr → List Var
  | .prob _ c p => (c ++ p).flatMap Var.iterVars
  | _ => []

def popTag : Expr → Option Name
  | .prob (some p) _ _ => some p.name
  | _ => none

/-- `_valid_topo_list`: no directed edge goes backwards in the list (`KeyError` when an endpoint is missing) -/
def validTopoList (topo : List Name) (g : MG Name) : Except Err Bool :=
  if g.di.all (fun e => decide (e.1 ∈ topo) && decide (e.2 ∈ topo)) then
    .ok (!(g.di.any fun e => decide (topo.findIdx (· = e.1) > topo.findIdx (· = e.2))))
  else .error (.internal "KeyError")

def vErr : Except Err Unit := .error (.invalidInput "ValueError")

/-- the per-domain value checks shared by both validators -/
def validateDomain (target : MG Name) (d : Domain) : Except Err Unit :=
  if !seteq' d.topo d.graph.nodes then vErr
  else if !(regular d.graph).all (fun n => Ctf.mem' (Var.plain n) (exprVars d.pop)) then vErr
  else if !d.policy.all (· ∈ regular d.graph) then vErr
  else if !d.graph.isAcyclic then vErr
  else match validTopoList d.topo d.graph with
    | .error e => .error e
    | .ok false => vErr
    | .ok true =>
      if popTag d.pop == some targetPop && !(d.graph.equiv target) then vErr else .ok ()

def validateDomains (target : MG Name) : List Domain → Except Err Unit
  | [] => .ok ()
  | d :: ds => do validateDomain target d; validateDomains target ds

def isOneOrZero : Expr → Bool
  | .one => true
  | .zero => true
  | _ => false

/-- the value checks shared by both validators, in the order of the Python (after the emptiness checks on the event
lists): empty target graph, One()/Zero() population expressions (NotImplementedError), every value None, a valueless
self-intervened variable (TypeError; unconditional validator only), no domain,
empty domain graph / order, selection node or cycle in the target graph, a domain graph over other variables, an event
variable outside the graph, a value that belongs to another variable, then the per-domain checks -/
def validateCommon (target : MG Name) (domains : List Domain) (eventVars : List Var)
    (allNone selfNone valueMismatch : Bool) : Except Err Unit :=
  if target.nodes.isEmpty then vErr
  else if domains.any (fun d => isOneOrZero d.pop) then .error (.invalidInput "NotImplementedError")
  else if allNone then vErr
  else if selfNone then .error (.invalidInput "TypeError")
  else if domains.isEmpty then vErr
  else if domains.any (fun d => d.graph.nodes.isEmpty) then vErr
  else if domains.any (fun d => d.topo.isEmpty) then vErr
  else if target.nodes.any isTnode then vErr
  else if !target.isAcyclic then vErr
  else if domains.any (fun d => !seteq' target.nodes (regular d.graph)) then vErr
  else if eventVars.any (fun v => decide (v.name ∉ target.nodes)) then vErr
  else if valueMismatch then vErr
  else validateDomains target domains

def valueMismatch (e : Ctf.Event) : Bool := e.any fun p => match p.2 with | some i => i.name != p.1.name | none => false

/-- check 6.5 of the unconditional validator (after `fix:` 333fa44): a variable that intervenes on itself has no value
(SIMPLIFY raises `TypeError` on such an event; before the fix it did so after the validator had accepted the event) -/
def selfNone (e : Ctf.Event) : Bool := e.any fun p => p.2.isNone && Ctf.selfIntervened p.1

/-- `_validate_transport_unconditional_counterfactual_query_input` -/
def validateU (target : MG Name) (domains : List Domain) (event : Ctf.Event) : Except Err Unit :=
  if event.isEmpty then vErr
  else validateCommon target domains (event.map (·.1)) (event.all fun p => p.2.isNone) (selfNone event)
    (valueMismatch event)

/-- `_event_from_counterfactuals_strict` (a variable without a value raises `TypeError`) followed by
`_validate_transport_conditional_counterfactual_query_input` -/
def validateC (target : MG Name) (domains : List Domain) (outcomes conditions : Ctf.Event) : Except Err Unit :=
  if (outcomes ++ conditions).any (fun p => p.2.isNone) then .error (.invalidInput "TypeError")
  else if conditions.isEmpty then vErr
  else if outcomes.isEmpty then vErr
  else validateCommon target domains ((conditions ++ outcomes).map (·.1)) false false
    (valueMismatch (conditions ++ outcomes))

/-! ### Algorithm 2, line 3: inconsistent ctf-factors -/

/-- the values a name receives inside one ctf-factor: as the value of an event variable and as a subscript -/
def valuesVsInterventions (f : Ctf.Event) : Bool :=
  let names := dedup' (f.map (·.1.name))
  let ivNames := (f.flatMap fun p => p.1.ivs.map (·.name)).filter (· ∈ names)
  ivNames.any fun n =>
    let fromValues := f.filterMap fun p => if p.1.name = n then p.2 else none
    let fromSubs := f.flatMap fun p => p.1.ivs.filter (·.name = n)
    (dedup' (fromValues ++ fromSubs)).length > 1

def inconsistentInterventionValues (f : Ctf.Event) : Bool :=
  let subs := f.flatMap fun p => p.1.ivs
  subs.any fun i => subs.any fun j => i.name = j.name && i.star != j.star

/-- `_counterfactual_factor_is_inconsistent` -/
def factorInconsistent (f : Ctf.Event) : Bool := valuesVsInterventions f || inconsistentInterventionValues f

/-! ### Algorithm 4 (sigma-TR for one district) -/

/-- no policy variable and no selection node on the district -/
def domainUsable (district : List Name) (d : Domain) : Bool :=
  district.all (fun v => decide (v ∉ d.policy)) && district.all (fun v => decide (tnode v ∉ d.graph.nodes))

/-- one domain of the loop of `transport_district_intervening_on_parents` -/
def sigmaTRDomain (district : List Name) (d : Domain) : Except Err (Option Expr) := do
  let ds ← district.mapM d.graph.getDistrict
  let B := nsort ds.flatten
  if ds.any (fun x => !seteq' x B) then throw (.internal "ValueError")
  let q ← Tian.computeCFactor B (regular d.graph) d.pop d.topo
  Tian.identify d.graph (nsort district) B q d.topo

/-- `transport_district_intervening_on_parents`: the first usable domain in which IDENTIFY succeeds -/
def sigmaTR (district : List Name) : List Domain → Except Err (Option Expr)
  | [] => .ok none
  | d :: ds =>
    if domainUsable district d then
      match sigmaTRDomain district d with
      | .error e => .error e
      | .ok (some e) => .ok (some e)
      | .ok none => sigmaTR district ds
    else sigmaTR district ds

/-- the validator of Algorithm 4 that matters after the top-level validation: the district is non-empty and inside
every domain graph -/
def validateDistrict (district : List Name) (domains : List Domain) : Except Err Unit :=
  if district.isEmpty then .error (.internal "TypeError")
  else if domains.any (fun d => !district.all (· ∈ regular d.graph)) then .error (.internal "KeyError")
  else .ok ()

/-! ### Algorithm 2 -/

/-- `_transport_unconditional_counterfactual_query_line_2`: ancestors of the event with the known values, and their
ctf-factors -/
def line2 (g : MG Name) (event : Ctf.Event) : Except Err (Ctf.Event × List Ctf.Event) := do
  let anc ← event.foldlM (fun (acc : List Var) p => do
      pure (Ctf.unionVars acc (← Ctf.ctfAncestors g p.1))) []
  let withValues : Ctf.Event := anc.map fun v =>
    match event.find? (fun p => p.1 == v) with
    | some p => (v, (event.filter (fun q => q.1 == v)).getLast?.bind (·.2) |>.orElse fun _ => p.2)
    | none => (v, none)
  let inFactorForm ← withValues.mapM fun p => do pure ((← Ctf.convertOne g p.1), p.2)
  let sub := g.subgraph (dedup' (anc.map (·.name)))
  let factors ← Ctf.ctfFactorsValues sub (dedup' inFactorForm)
  pure (withValues, factors)

/-- sequential transport of the districts: the first `FAIL` ends the loop -/
def transportFactors (domains : List Domain) : List Ctf.Event → Except Err (Option (List Expr))
  | [] => .ok (some [])
  | f :: fs => do
    let district := dedup' (f.map (·.1.name))
    validateDistrict district domains
    match ← sigmaTR district domains with
    | none => pure none
    | some q =>
      match ← transportFactors domains fs with
      | none => pure none
      | some qs => pure (some (q :: qs))

/-- the answer of Algorithm 2/3: expression and simplified event (`none` with `Zero()`) -/
abbrev Answer := Expr × Option Ctf.Event

/-- an exception raised after the validator accepted the input is not a validation error any more: whatever class a
part raises (SIMPLIFY documents `TypeError` for some events) is "another error" for C09 -/
def afterValidation {α} : Except Err α → Except Err α
  | .error (.invalidInput k) => .error (.internal k)
  | x => x

/-- lines 1-14 of Algorithm 2 after validation -/
def ctfTRuCore (target : MG Name) (domains : List Domain) (event : Ctf.Event) : Except Err (Option Answer) := afterValidation do
  match ← Ctf.simplify target event with
  | none => pure (some (.zero, none))
  | some ev =>
    let (anc, factors) ← line2 target ev
    if factors.any factorInconsistent then pure none
    else
      match ← transportFactors domains factors with
      | none => pure none
      | some qs =>
        let summed := dedup' ((anc.filter fun p => !ev.any (fun q => q.1 == p.1 && q.2 == p.2)).map (·.1.name))
        pure (some (TrDsl.sumSafe (TrDsl.productSafe qs) (summed.map Var.plain), some ev))

/-- `transport_unconditional_counterfactual_query` -/
def ctfTRu (target : MG Name) (domains : List Domain) (event : Ctf.Event) : Except Err (Option Answer) :=
  match validateU target domains event with
  | .error e => .error e
  | .ok () => ctfTRuCore target domains event

/-! ### Algorithm 3

Python `set`s have no order.  The places where an iteration order enters Algorithm 3:

* the order of the derived event `D*` (iteration over a `set` of variables, and over the `set` of values of one outcome
  variable): the model uses the order of the components computed by `Ctf.ancestralComponents`, and for the values of one
  variable the order of first appearance in `outcomes`.  Algorithm 2 is then run on this list.  The order can reach the
  RESULT only as a permutation (SIMPLIFY's output event, compared as a set; the factors of a `Product`, which
  `Product.safe` sorts; the ranges of a `Sum`, a frozenset) — and the VERDICT in two places only:
  (a) the transport loop of Algorithm 2 stops at the first FAIL, so a run in which one ctf-factor FAILs and another one
      raises can end either way (only for domain graphs that lack a bidirected edge of the target: finding
      `crash:sigmaTR-district-split`);
  (b) `simplified_event_variable_names_to_values` of the final checks is a dict keyed by the BASE name, so when the
      simplified event contains one name twice (two worlds), once with a value and once without, the last one wins:
      `finalChecksOrderSensitive`.
  Both are reported by the driver next to the answer so that the correspondence can tell them apart.
* everything else (`outcome_and_conditioned_variable_names`, the ranges of the two sums, `get_variables()`) is used
  through membership tests only. -/

/-- `conditioned_variables`, `outcome_variables` (sets of event variables) -/
def eventVars (e : Ctf.Event) : List Var := dedup' (e.map (·.1))

/-- `outcome_variable_to_value_mappings[variable]`: the set of values the outcomes give to `variable` -/
def outcomeValues (outcomes : Ctf.Event) (v : Var) : List Ctf.Val :=
  dedup' ((outcomes.filter fun p => decide (p.1 = v)).map (·.2))

/-- `outcome_and_conditioned_variable_names_to_values[Variable(n)]` -/
def namesToValues (outcomes conditions : Ctf.Event) (n : Name) : List Ctf.Val :=
  dedup' (((outcomes ++ conditions).filter fun p => decide (p.1.name = n)).map (·.2))

/-- `{v.get_base() for v in …}` as names -/
def eventNames (e : Ctf.Event) : List Name := dedup' (e.map (·.1.name))

/-- line 2, first loop: the union of the ancestral components that contain an outcome VARIABLE (as a Python object:
name and subscripts; the components store the variables as `get_ancestors_of_counterfactual` builds them, so the
outcomes are looked up under the form `Ctf.ancestralSetRoot` gives them: `lookupOutcomes`) -/
def deriveVars (comps : List (List Var)) (outVars : List Var) : List Var :=
  dedup' ((comps.filter fun c => c.any fun v => Ctf.mem' v outVars).flatten)

/-- line 2, second loop: the values of `outcome_variable_to_value_mappings`, `None` for the other variables -/
def deriveEvent (outcomes : Ctf.Event) (D : List Var) : Ctf.Event :=
  D.flatMap fun v =>
    if outcomes.any (fun p => decide (p.1 = v)) then (outcomeValues outcomes v).map fun x => (v, x)
    else [(v, none)]

/-- line 1 of Algorithm 3: the ancestral components of `Y_* ∪ X_*` given `X_*` -/
def condComps (g : MG Name) (o c : Ctf.Event) : Except Err (List (List Var)) :=
  Ctf.ancestralComponents g (eventVars c) (Ctf.unionVars (eventVars c) (eventVars o))

/-- `minimized_outcome_variable_to_value_mappings` (after `fix:` f335599): every outcome under the form in which it
appears in its own ancestral set, with its value.  Before the fix the outcomes were looked up under their raw form, and
an outcome `Y_x` whose subscript is not kept was not found (former findings `crash:ctfTR-derived-event-rejected`,
`crash:ctfTR-final-check`, `cond:value:outcome-lookup-miss`). -/
def lookupOutcomes (g : MG Name) (outcomes conditions : Ctf.Event) : Except Err Ctf.Event :=
  outcomes.mapM fun p => do pure (← Ctf.ancestralSetRoot g (eventVars conditions) p.1, p.2)

/-- `_transport_conditional_counterfactual_query_line_2` for given components and lookup keys: the event `D*` in
ctf-factor form and the graph vertices of `D*` -/
def line2COf (g : MG Name) (comps : List (List Var)) (lookup : Ctf.Event) : Except Err (Ctf.Event × List Name) := do
  let D := deriveVars comps (eventVars lookup)
  let ev ← Ctf.convertEvent g (deriveEvent lookup D)
  pure (ev, dedup' (D.map (·.name)))

/-- line 1 (`get_ancestral_components`), the lookup keys, and `_transport_conditional_counterfactual_query_line_2` -/
def line2C (g : MG Name) (outcomes conditions : Ctf.Event) : Except Err (Ctf.Event × List Name) := do
  let comps ← condComps g outcomes conditions
  let lookup ← lookupOutcomes g outcomes conditions
  line2COf g comps lookup

/-- `simplified_event_variable_names_to_values[Variable(n)]` (a dict comprehension: the last pair with that name wins);
only looked up for names that occur -/
def lastValue (simplified : Ctf.Event) (n : Name) : Ctf.Val :=
  match simplified.reverse.find? (fun p => p.1.name == n) with
  | some p => p.2
  | none => none

/-- a name occurs in the simplified event both with and without a value: which of the two the dict keeps depends on the
iteration order of a Python set -/
def finalChecksOrderSensitive (simplified : Ctf.Event) : Bool :=
  simplified.any fun p => simplified.any fun q => p.1.name == q.1.name && p.2.isSome && q.2.isNone

/-- `variable in <set of base variables>` for a variable of an expression -/
def plainIn (v : Var) (names : List Name) : Bool := Ctf.mem' v (names.map Var.plain)

/-- `_validate_transport_conditional_counterfactual_query_line_4_output`: the five checks in order -/
def finalChecks (simplified : Ctf.Event) (ocNames : List Name) (n2v : Name → List Ctf.Val) (noValues : List Name)
    (domains : List Domain) (expr : Expr) (resultEvent : Ctf.Event) : Except Err Unit :=
  -- 1. a variable that has a value in the simplified event is an outcome or a condition
  if simplified.any (fun p => (lastValue simplified p.1.name).isSome && decide (p.1.name ∉ ocNames)) then
    .error (.internal "KeyError")
  -- 2. and its value is one of the values the query gives to that name
  else if simplified.any (fun p => (lastValue simplified p.1.name).isSome && !Ctf.mem' p.2 (n2v p.1.name)) then
    .error (.internal "KeyError")
  -- 3. every variable of the expression is a vertex of D* without a value, an outcome / condition vertex, or a variable
  --    of one of the domains' distributions
  else if !(Expr.iterVars expr).all (fun v => plainIn v noValues || plainIn v ocNames ||
      domains.any fun d => Ctf.mem' v (Expr.iterVars d.pop)) then
    .error (.internal "KeyError")
  -- 4. no `None` in the returned event
  else if resultEvent.any (fun p => p.2.isNone) then .error (.internal "TypeError")
  -- 5. every variable of the returned event occurs in the expression
  else if !resultEvent.all (fun p => Ctf.mem' p.1 (Expr.iterVars expr)) then .error (.internal "KeyError")
  else .ok ()

/-- the expression of line 4: `Fraction(Sum.safe(Q, D*∖(Y∪X)), Sum.safe(Q, D*∖X))` (the dataclass constructor: no
simplification, `ZeroDivisionError` for a `Zero()` denominator) -/
def line4Expr (q : Expr) (dNames ocNames condNames : List Name) : Except Err Expr :=
  TrDsl.mkFrac (TrDsl.sumSafe q ((diff' dNames ocNames).map Var.plain))
    (TrDsl.sumSafe q ((diff' dNames condNames).map Var.plain))

/-- the event of line 4: the outcomes, then the conditions whose vertex occurs in the expression -/
def line4Event (expr : Expr) (outcomes conditions : Ctf.Event) : Ctf.Event :=
  outcomes.map (fun p => (p.1.base, p.2)) ++
    (conditions.filter fun p => Ctf.mem' p.1.base (Expr.iterVars expr)).map fun p => (p.1.base, p.2)

/-- `_transport_conditional_counterfactual_query_line_4` -/
def line4C (domains : List Domain) (outcomes conditions : Ctf.Event) (dNames : List Name) (q : Expr)
    (simplified : Ctf.Event) : Except Err Answer := do
  let ocNames := eventNames (conditions ++ outcomes)
  let condNames := eventNames conditions
  let expr ← line4Expr q dNames ocNames condNames
  let resultEvent := line4Event expr outcomes conditions
  finalChecks simplified ocNames (namesToValues outcomes conditions) (diff' dNames ocNames) domains expr resultEvent
  pure (expr, some resultEvent)

/-- lines 1-4 of Algorithm 3 after validation.  Line 3 is the full Algorithm 2 with its own validator on the derived
event (`ValueError('empty list for the event')` when no outcome was found in the components); whatever is raised from
here on is "another error" for C09 -/
def ctfTRCore (target : MG Name) (domains : List Domain) (outcomes conditions : Ctf.Event) :
    Except Err (Option Answer) := afterValidation do
  let (dstar, dNames) ← line2C target outcomes conditions
  match ← ctfTRu target domains dstar with
  | none => pure none
  | some (e, none) => pure (some (e, none))
  | some (q, some simplified) => do pure (some (← line4C domains outcomes conditions dNames q simplified))

/-- `transport_conditional_counterfactual_query` -/
def ctfTR (target : MG Name) (domains : List Domain) (outcomes conditions : Ctf.Event) : Except Err (Option Answer) :=
  match validateC target domains outcomes conditions with
  | .error e => .error e
  | .ok () => ctfTRCore target domains outcomes conditions

/-- does the verdict of the final checks depend on a set iteration order for this input? (reported by the driver) -/
def ctfTROrderSensitive (target : MG Name) (domains : List Domain) (outcomes conditions : Ctf.Event) : Bool :=
  match validateC target domains outcomes conditions with
  | .error _ => false
  | .ok () =>
    match line2C target outcomes conditions with
    | .error _ => false
    | .ok (dstar, _) =>
      match ctfTRu target domains dstar with
      | .ok (some (_, some simplified)) => finalChecksOrderSensitive simplified
      | _ => false

/-! ### the crash classes of Algorithm 3 as decidable predicates on the input (hypotheses of
`ctfTR_no_internal_error_partial`, Props/C09 §6; reported by the driver op `ctftr classes`) -/

/-- the variables of `D*` before the conversion to ctf-factor form: the union of the ancestral components that contain an
outcome variable (under its lookup form) -/
def dstarVars (g : MG Name) (o c : Ctf.Event) : Except Err (List Var) := do
  let comps ← condComps g o c
  let lookup ← lookupOutcomes g o c
  pure (deriveVars comps (eventVars lookup))

/-- every outcome variable is found in the ancestral components under its own name (the complement is the class of the
findings `crash:ctfTR-derived-event-rejected`, `crash:ctfTR-final-check`, `value:outcome-lookup-miss`) -/
def OutcomesFound (g : MG Name) (o c : Ctf.Event) : Bool :=
  match dstarVars g o c with
  | .ok D => o.all fun p => Ctf.mem' p.1 D
  | .error _ => false

/-- `D*` names every graph vertex in one world only (no `Y_x` next to `Y_{x'}`) -/
def DstarOneWorld (g : MG Name) (o c : Ctf.Event) : Bool :=
  match dstarVars g o c with
  | .ok D => decide ((D.map (·.name)).Nodup)
  | .error _ => false

/-- no outcome shares its graph vertex with a condition (the class for which the validator documents
`NotImplementedError`; finding `value:outcome-also-condition`) -/
def OutcomeNotCondition (o c : Ctf.Event) : Bool := o.all fun p => c.all fun q => p.1.name != q.1.name

/-- the expression `Q` only mentions graph vertices (as plain variables) and variables of the domains' distributions -/
def vocabCheck (target : MG Name) (ds : List Domain) (q : Expr) : Bool :=
  (Expr.iterVars q).all fun v => Ctf.mem' v (target.nodes.map Var.plain) || ds.any fun d => Ctf.mem' v (Expr.iterVars d.pop)

/-- run lines 1-3 and look at `Q` -/
def qGoodCheck (target : MG Name) (ds : List Domain) (o c : Ctf.Event) : Bool :=
  match line2C target o c with
  | .ok (dstar, _) =>
    match ctfTRu target ds dstar with
    | .ok (some (q, some _)) => !TrDsl.isZero q && vocabCheck target ds q
    | _ => true
  | .error _ => true

def popsCoverCheck (target : MG Name) (ds : List Domain) : Bool :=
  target.nodes.all fun n => ds.any fun d => Ctf.mem' (Var.plain n) (Expr.iterVars d.pop)

/-! ### the class of simplified events covered by the value theorem of Algorithm 2 (Y0/Props/C09Sound.lean); decidable,
reported by the driver (`ctftr uncond`) so that the harness can tie the theorem to the oracle -/

/-- every valueless item `(W_s, None)` becomes `(W_s, -W)`: the reading in which a valueless variable is a free variable
of the answer, read at its base value -/
def _root_.Y0.Ctf.fillEvent (q : Ctf.Event) : Ctf.Event :=
  q.map fun p => (p.1, match p.2 with | some i => some i | none => some ⟨p.1.name, false⟩)

/-- a STARRED literal subscript `+X` of the query names a vertex of `An(Y_*)` that is summed out: in the answer of
Algorithm 2 the transported factor reads `X` at the bound value, not at `+X` (C19's `literalBound` is the unstarred half:
there the factorised expression itself is already wrong) -/
def starBound (q : Ctf.Event) (D : List Var) : Bool :=
  q.any fun p => p.1.ivs.any fun i =>
    i.star && decide (i.name ∈ D.map (·.name)) && decide (i.name ∉ q.map (·.1.name))

/-- **the class of (simplified, filled) events the value theorem covers**: readable (no self-intervened variable, no
variable intervening twice on one name), and outside `multiWorld` / `literalBound` / `outcomeParentValue` (C19) and
`starBound` -/
def ctfSoundClass (g : MG Name) (q : Ctf.Event) : Except Err Bool := do
  let D ← Ctf.ancestralSet g q
  pure (Ctf.readableQuery q && !Ctf.multiWorld D && !Ctf.literalBound q D && !Ctf.outcomeParentValue g q D &&
    !starBound q D)

/-- some valuation carries "the returned event's values": no name receives two different value symbols (as event value
or as subscript) -/
def readingExists (q : Ctf.Event) : Bool :=
  let syms : List Iv := q.flatMap fun p => (match p.2 with | some i => [(⟨p.1.name, i.star⟩ : Iv)] | none => []) ++ p.1.ivs
  syms.all fun a => syms.all fun b => a.name != b.name || a.star == b.star

/-- is an answered unconditional query inside the hypotheses of `ctfTRu_sound_partial` (Y0/Props/C09Sound.lean) that are
decidable predicates on the input: every item of the query has a value (the harness reads a valueless item of the QUERY
as "equal to its base value", C19 and the theorem read it as "no constraint": the two agree when there is none), no
self-intervened variable, the simplified event in `ctfSoundClass`, and a reading of the returned event's values exists -/
def ctfTRuInClass (target : MG Name) (domains : List Domain) (event : Ctf.Event) : Bool :=
  match ctfTRu target domains event with
  | .ok (some (_, some ev)) =>
      event.all (fun p => p.2.isSome) && event.all (fun p => !Ctf.selfIntervened p.1) &&
        (match ctfSoundClass target ev with | .ok b => b | .error _ => false) &&
        readingExists ev
  | _ => false

/-! ### the class of conditional queries covered by the value theorem of Algorithm 3 (Y0/Props/C09Sound.lean
`ctfTR_sound_partial`); decidable, reported by the driver (`ctftr cond`) so that the harness can tie the theorem to the
oracle -/

/-- no two subscripts of one variable name the same vertex with different values -/
def consistentIvs (S : List Iv) : Bool := S.all fun i => S.all fun j => i.name != j.name || decide (i = j)

/-- **the class of conditional queries the value theorem `ctfTR_sound_partial` covers** — a predicate on the target graph
and the query only (no domain enters; that the simplified derived event `D_*` then lies in Algorithm 2's class
`ctfSoundClass` is PROVED: `dstar_in_ctfSoundClass`, Y0/Lemmas/CtfTrCondDstarClass.lean):
* one world: across ALL ancestral components a vertex is named by one counterfactual variable only;
* every outcome is found in the components under its own name (`OutcomesFound`), two outcomes over one vertex are the
  same item (an outcome MAY share its vertex with a condition: in one world it is then redundant);
* no query variable intervenes on itself, or twice on one vertex with different values;
* no literal subscript of the query names a vertex of the components, unless it names a condition (a subscript that names
  a summed vertex would be captured by one of the two sums of line 4: the `literal_bound` finding). -/
def ctfTRSoundClass (g : MG Name) (o c : Ctf.Event) : Bool :=
  match condComps g o c with
  | .error _ => false
  | .ok comps =>
    let T := comps.flatten
    (T.all fun a => T.all fun b => a.name != b.name || decide (a = b)) &&
    OutcomesFound g o c && (o.all fun p => o.all fun q => p.1.name != q.1.name || decide (p = q)) &&
    (o ++ c).all (fun p => !Ctf.selfIntervened p.1 && consistentIvs p.1.ivs) &&
    (o ++ c).all (fun p => p.1.ivs.all fun i =>
      !(T.any fun a => a.name == i.name) || decide (i.name ∈ eventNames c))

/-- is an answered conditional query inside the decidable hypotheses of `ctfTR_sound_partial`: in the class, and some
valuation carries the values the QUERY gives to its variables and subscripts -/
def ctfTRInClass (g : MG Name) (domains : List Domain) (o c : Ctf.Event) : Bool :=
  match ctfTR g domains o c with
  | .ok (some (_, some _)) => ctfTRSoundClass g o c && readingExists (o ++ c)
  | _ => false

/-- the conjuncts of `ctfTRSoundClass` / `ctfTRInClass` one by one (driver op `ctftr condclass`; diagnostics only):
one world, outcomes found, outcome not condition (NOT part of the class any more), outcomes over distinct vertices, no self-intervention and consistent
subscripts, no captured literal subscript, `D_*` in `ctfSoundClass` (implied by the others: `dstar_in_ctfSoundClass`;
NOT part of the class), a reading of the query exists -/
def ctfTRClassFlags (g : MG Name) (domains : List Domain) (o c : Ctf.Event) : List Bool :=
  match condComps g o c with
  | .error _ => []
  | .ok comps =>
    let T := comps.flatten
    [ (T.all fun a => T.all fun b => a.name != b.name || decide (a = b)),
      OutcomesFound g o c, OutcomeNotCondition o c,
      (o.all fun p => o.all fun q => p.1.name != q.1.name || decide (p = q)),
      (o ++ c).all (fun p => !Ctf.selfIntervened p.1 && consistentIvs p.1.ivs),
      (o ++ c).all (fun p => p.1.ivs.all fun i =>
        !(T.any fun a => a.name == i.name) || decide (i.name ∈ eventNames c)),
      (match line2C g o c with
        | .error _ => false
        | .ok (dstar, _) =>
          match ctfTRu g domains dstar with
          | .ok (some (_, some simplified)) =>
            (match ctfSoundClass g (Ctf.fillEvent simplified) with | .ok b => b | .error _ => false)
          | _ => false),
      readingExists (o ++ c) ]

end CtfTr
end Y0
