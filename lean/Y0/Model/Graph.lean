/-
  Y0.Model.Graph — executable model of `y0.graph.NxMixedGraph` and its surgery operations
  (src/y0/graph.py).  A mixed graph is stored the way the Python stores it: insertion-ordered
  node list, insertion-ordered directed edge list, bidirected edges stored once.

  Python `set` arguments are lists here; every result that is a set in Python is to be read
  up to order and multiplicity (the harness compares them as sets, the theorems are stated
  with `∈`).
-/
import Y0.Model.Basic

namespace Y0

structure MG (α : Type) where
  nodes : List α
  di : List (α × α)
  bi : List (α × α)
  deriving Repr, Inhabited

namespace MG
variable {α : Type} [DecidableEq α]

def empty : MG α := ⟨[], [], []⟩

/-- `nx.Graph.add_node`: no-op when present, otherwise appended (dict insertion order) -/
def addNode (G : MG α) (n : α) : MG α :=
  if n ∈ G.nodes then G else { G with nodes := G.nodes ++ [n] }

/-- `undirected.has_edge(u, v)` – stored once, found in either orientation -/
def hasBi (G : MG α) (u v : α) : Bool := decide ((u, v) ∈ G.bi) || decide ((v, u) ∈ G.bi)

def hasDi (G : MG α) (u v : α) : Bool := decide ((u, v) ∈ G.di)

/-- `NxMixedGraph.add_directed_edge` -/
def addDi (G : MG α) (e : α × α) : MG α :=
  let G := (G.addNode e.1).addNode e.2
  if e ∈ G.di then G else { G with di := G.di ++ [e] }

/-- `NxMixedGraph.add_undirected_edge` -/
def addBi (G : MG α) (e : α × α) : MG α :=
  let G := (G.addNode e.1).addNode e.2
  if G.hasBi e.1 e.2 then G else { G with bi := G.bi ++ [e] }

/-- `NxMixedGraph.from_edges(nodes, directed, undirected)` -/
def fromEdges (ns : List α) (di bi : List (α × α)) : MG α :=
  bi.foldl addBi (di.foldl addDi (ns.foldl addNode empty))

/-- `NxMixedGraph.__eq__`: equal node sets, directed edge sets, undirected edge sets up to orientation -/
def equiv (G H : MG α) : Bool :=
  seteq' G.nodes H.nodes && seteq' G.di H.di &&
  G.bi.all (fun e => H.hasBi e.1 e.2) && H.bi.all (fun e => G.hasBi e.1 e.2)

/-! ### adjacency -/

/-- `directed.predecessors(v)` in edge insertion order -/
def parents (G : MG α) (v : α) : List α := (G.di.filter (fun e => e.2 = v)).map (·.1)
/-- `directed.successors(v)` in edge insertion order -/
def children (G : MG α) (v : α) : List α := (G.di.filter (fun e => e.1 = v)).map (·.2)
/-- `undirected.neighbors(v)` -/
def biNbrs (G : MG α) (v : α) : List α :=
  G.bi.flatMap (fun e => (if e.1 = v then [e.2] else []) ++ (if e.2 = v then [e.1] else []))

/-! ### surgery (graph.py:499-575) -/

/-- `subgraph(vertices)`; `_include_adjacent` on both edge kinds, `nodes=vertices` -/
def subgraph (G : MG α) (S : List α) : MG α :=
  fromEdges S (G.di.filter (fun e => e.1 ∈ S ∧ e.2 ∈ S)) (G.bi.filter (fun e => e.1 ∈ S ∧ e.2 ∈ S))

/-- `remove_in_edges(vertices)`; `_exclude_target` on directed, `_exclude_adjacent` on undirected.
The node set passed to the rebuilt graph is `self.nodes()` (after `fix:` F1). -/
def removeInEdges (G : MG α) (S : List α) : MG α :=
  fromEdges G.nodes (G.di.filter (fun e => e.2 ∉ S)) (G.bi.filter (fun e => e.1 ∉ S ∧ e.2 ∉ S))

/-- `remove_out_edges(vertices)`; `_exclude_source` on directed, all undirected edges kept -/
def removeOutEdges (G : MG α) (S : List α) : MG α :=
  fromEdges G.nodes (G.di.filter (fun e => e.1 ∉ S)) G.bi

/-- `remove_nodes_from(vertices)`; `nodes() - vertices`, `_exclude_adjacent` on both -/
def removeNodes (G : MG α) (S : List α) : MG α :=
  fromEdges (G.nodes.filter (· ∉ S)) (G.di.filter (fun e => e.1 ∉ S ∧ e.2 ∉ S))
    (G.bi.filter (fun e => e.1 ∉ S ∧ e.2 ∉ S))

/-- `intervene(variables)`: every node is relabelled by `f` (`node.intervene(variables)`), edges into
an intervened node and bidirected edges touching one are dropped.  `X` = base names intervened on. -/
def interveneRaw {β : Type} [DecidableEq β] (G : MG α) (f : α → β) (X : List α) : MG β :=
  fromEdges (G.nodes.map f)
    ((G.di.filter (fun e => e.2 ∉ X)).map (fun e => (f e.1, f e.2)))
    ((G.bi.filter (fun e => e.1 ∉ X ∧ e.2 ∉ X)).map (fun e => (f e.1, f e.2)))

/-- `intervene`: `CounterfactualVariable.__post_init__` raises `ValueError` when a node would get an empty
subscript set, i.e. when the graph has a node and no intervention is given -/
def intervene {β : Type} [DecidableEq β] (G : MG α) (f : α → β) (X : List α) : Except Err (MG β) :=
  if X.isEmpty && !G.nodes.isEmpty then .error (.invalidInput "ValueError") else .ok (G.interveneRaw f X)

/-! ### closures -/

/-- saturation of `A` under `next`, at most `fuel` rounds; each round adds the new neighbours -/
def closure (next : α → List α) : Nat → List α → List α
  | 0, A => A
  | fuel + 1, A =>
    let new := dedup' ((A.flatMap next).filter (· ∉ A))
    if new.isEmpty then A else closure next fuel (A ++ new)

/-- `nx.ancestors`/`nx.descendants` raise `NetworkXError` when the source is not a node -/
def checkSources (G : MG α) (S : List α) : Except Err Unit :=
  if S.all (· ∈ G.nodes) then .ok () else .error (.internal "NetworkXError")

/-- `ancestors_inclusive(sources)` -/
def ancestorsInclusive (G : MG α) (S : List α) : Except Err (List α) := do
  checkSources G S
  pure (closure G.parents (G.nodes.length + 1) (dedup' S))

/-- `descendants_inclusive(sources)` -/
def descendantsInclusive (G : MG α) (S : List α) : Except Err (List α) := do
  checkSources G S
  pure (closure G.children (G.nodes.length + 1) (dedup' S))

/-- district (bidirected-connected component) of one node -/
def districtOf (G : MG α) (v : α) : List α := closure G.biNbrs (G.nodes.length + 1) [v]

/-- `districts()`: components of the undirected part, swept in node order -/
def districtsAux (G : MG α) : List α → List (List α) → List (List α)
  | [], acc => acc.reverse
  | v :: vs, acc => if acc.any (fun d => v ∈ d) then districtsAux G vs acc
                    else districtsAux G vs (G.districtOf v :: acc)

def districts (G : MG α) : List (List α) := districtsAux G G.nodes []

/-- `get_district(node)`; `KeyError` when the node is in no district -/
def getDistrict (G : MG α) (v : α) : Except Err (List α) :=
  match G.districts.find? (fun d => v ∈ d) with
  | some d => .ok d
  | none => .error (.internal "KeyError")

/-! ### neighbourhoods -/

/-- `get_markov_pillow(nodes)`; `directed.predecessors` raises `NetworkXError` for a non-node -/
def markovPillow (G : MG α) (S : List α) : Except Err (List α) := do
  checkSources G S
  pure (dedup' ((S.flatMap G.parents).filter (· ∉ S)))

/-- `get_markov_blanket(nodes)` -/
def markovBlanket (G : MG α) (S : List α) : Except Err (List α) := do
  checkSources G S
  let b := S.flatMap (fun n => G.parents n ++ (G.children n).flatMap (fun c => c :: G.parents c))
  pure (dedup' (b.filter (· ∉ S)))

/-- all unordered pairs of a list, `itertools.combinations(xs, 2)` -/
def pairs : List α → List (α × α)
  | [] => []
  | x :: xs => xs.map (fun y => (x, y)) ++ pairs xs

/-- `iter_moral_links` -/
def moralLinks (G : MG α) : List (α × α) := G.nodes.flatMap (fun n => pairs (G.parents n))

/-- `moralize()`: copies both graphs, then adds an undirected edge between co-parents -/
def moralize (G : MG α) : MG α := G.moralLinks.foldl addBi G

/-- `disorient()`: an `nx.Graph` on the same nodes with every edge made undirected.
Modelled as a mixed graph without directed edges. -/
def disorient (G : MG α) : MG α := fromEdges G.nodes [] (G.di ++ G.bi)

/-! ### topological sort (networkx `topological_generations`, insertion order) -/

def indegree (G : MG α) (v : α) : Nat := (G.di.filter (fun e => e.2 = v)).length

/-- one `indegree_map[child] -= 1` with the `== 0` test that follows it: decrement the entry of `child`; when it
reaches zero delete the entry and append `child` to the next generation.  `deg` is an association list. -/
def topoStep (st : List (α × Nat) × List α) (child : α) : List (α × Nat) × List α :=
  let deg' := st.1.map (fun p => if p.1 = child then (p.1, p.2 - 1) else p)
  match deg'.find? (fun p => p.1 = child) with
  | some (_, 0) => (deg'.filter (fun p => p.1 ≠ child), st.2 ++ [child])
  | _ => (deg', st.2)

/-- one generation: visit the nodes of `gen` in order, decrement the in-degree of each child, collect
children that reach zero. -/
def topoGen (G : MG α) (deg : List (α × Nat)) (gen : List α) : List (α × Nat) × List α :=
  gen.foldl (fun (st : List (α × Nat) × List α) node => (G.children node).foldl topoStep st) (deg, [])

def topoLoop (G : MG α) : Nat → List (α × Nat) → List α → List α → Except Err (List α)
  | 0, deg, gen, acc => if deg.isEmpty && gen.isEmpty then .ok acc else .error (.internal "NetworkXUnfeasible")
  | fuel + 1, deg, gen, acc =>
    if gen.isEmpty then
      if deg.isEmpty then .ok acc else .error (.internal "NetworkXUnfeasible")
    else
      let (deg', next) := topoGen G deg gen
      topoLoop G fuel deg' next (acc ++ gen)

/-- `topological_sort()` = `list(nx.topological_sort(self.directed))` -/
def topologicalSort (G : MG α) : Except Err (List α) :=
  let deg := (G.nodes.map (fun v => (v, G.indegree v))).filter (fun p => p.2 > 0)
  let zero := G.nodes.filter (fun v => G.indegree v = 0)
  topoLoop G (G.nodes.length + 1) deg zero []

def isAcyclic (G : MG α) : Bool := match G.topologicalSort with | .ok _ => true | .error _ => false

/-- `pre(nodes, topological_sort_order)`: the prefix of the order before the first member of `nodes` -/
def preOf (order : List α) (S : List α) : List α := order.takeWhile (· ∉ S)

def pre (G : MG α) (S : List α) (order : Option (List α)) : Except Err (List α) :=
  match order with
  | some (o :: os) => .ok (preOf (o :: os) S)
  | _ => do let o ← G.topologicalSort; pure (preOf o S)

/-! ### nodes on directed paths -/

/-- nodes reachable from `v` by at least one directed edge -/
def strictDesc (G : MG α) (v : α) : List α :=
  closure G.children (G.nodes.length + 1) (dedup' (G.children v))

/-- `_get_nodes_in_directed_paths_dag` (via `nx.transitive_closure_dag`) -/
def nodesInDirectedPathsDag (G : MG α) (S T : List α) : List α :=
  let tc (a b : α) : Bool := decide (b ∈ G.strictDesc a)
  let inner := G.nodes.filter (fun n => S.any (fun s => T.any (fun t => tc s n && tc n t)))
  let ends := S.flatMap (fun s => T.flatMap (fun t => if tc s t then [s, t] else []))
  dedup' (inner ++ ends)

/-- all simple directed paths from `cur` (path so far in `path`, reversed) to `t`, DFS with fuel -/
def simplePathsFrom (G : MG α) (t : α) : Nat → List α → α → List (List α)
  | 0, _, _ => []
  | fuel + 1, path, cur =>
    let here := if cur = t then [(cur :: path).reverse] else []
    if cur = t then here
    else here ++ ((G.children cur).filter (fun c => c ∉ path ∧ c ≠ cur)).flatMap
      (fun c => simplePathsFrom G t fuel (cur :: path) c)

/-- `_get_nodes_in_directed_paths_cyclic` (via `nx.all_simple_paths`); after `fix:` 2ae6e11 the trivial path
`[s]` that networkx yields for `s = t` is dropped (`if len(causal_path) > 1`).  The lookup of both endpoints
(`NodeNotFound`) happens for every pair of the product, also for `s = t`. -/
def nodesInDirectedPathsCyclic (G : MG α) (S T : List α) : Except Err (List α) :=
  if S.isEmpty || T.isEmpty then .ok []
  else if S.all (· ∈ G.nodes) && T.all (· ∈ G.nodes) then
    .ok (dedup' (S.flatMap (fun s => T.flatMap (fun t =>
      ((simplePathsFrom G t (G.nodes.length + 1) [] s).filter (fun p => p.length > 1)).flatten))))
  else .error (.internal "NodeNotFound")

/-- `get_nodes_in_directed_paths` -/
def nodesInDirectedPaths (G : MG α) (S T : List α) : Except Err (List α) :=
  if G.isAcyclic then .ok (nodesInDirectedPathsDag G S T) else nodesInDirectedPathsCyclic G S T

end MG
end Y0
