/-
  Y0.Model.TianDsl — the DSL constructors that src/y0/algorithm/tian_id.py uses, translated from src/y0/dsl.py
  branch for branch (core Lean only):

    _sorted_variables / _upgrade_ordering        sortedVariables / upgradeOrdering
    Variable.joint, Variable.given               Dist.ofJoint, Dist.ofGiven
    Distribution.given, Distribution.__post_init__ Dist.given, Dist.check
    P(dist) = Probability.safe(Distribution.safe(dist)),  PopulationProbability(population, dist)   mkProb
    Expression._get_key and tuple comparison     keyElems, keyLt
    Product.safe                                 productSafe
    Sum.safe (simplify=False), Sum.__post_init__ sumSafe
    Fraction(n, d), Fraction.__post_init__       mkFraction

  Python `set`/`frozenset` arguments are lists; where Python iterates a set (ties of `sorted`, the tuple of a set)
  the model uses list order, and the harness compares those places as sets / multisets.
-/
import Y0.Model.Expr

namespace Y0
namespace TianDsl

/-! ### `sorted` (stable) -/

/-- insert `x` before the first element that is not strictly smaller: with `foldr` below this is Python's
stable `sorted` (an earlier element stays before a later one with an equal key) -/
def insertStable {α} (lt : α → α → Bool) (x : α) : List α → List α
  | [] => [x]
  | y :: ys => if lt y x then y :: insertStable lt x ys else x :: y :: ys

def sortStable {α} (lt : α → α → Bool) (l : List α) : List α := l.foldr (insertStable lt) []

/-- `_sorted_variables(vs)` = `tuple(sorted(vs, key=_variable_sort_key))` -/
def sortedVariables (vs : List Var) : List Var := sortStable Var.keyLt vs

/-- `_upgrade_ordering(vs)` = `_sorted_variables(set(vs))` -/
def upgradeOrdering (vs : List Var) : List Var := sortedVariables (dedup' vs)

/-! ### distributions -/

/-- `Distribution(children, parents)` -/
structure Dist where
  children : List Var
  parents : List Var := []
  deriving Repr, Inhabited

/-- `Distribution.__post_init__`: `ValueError` without children -/
def Dist.check (d : Dist) : Except Err Dist :=
  if d.children.isEmpty then .error (.invalidInput "ValueError") else .ok d

/-- `v.joint(children)` = `Distribution(children=_upgrade_ordering((v, *children)))` -/
def Dist.ofJoint (v : Var) (children : List Var) : Except Err Dist :=
  Dist.check { children := upgradeOrdering (v :: children) }

/-- `v.given(parents)` / `v | parents` for a collection of variables -/
def Dist.ofGiven (v : Var) (parents : List Var) : Except Err Dist :=
  Dist.check { children := [v], parents := upgradeOrdering parents }

/-- `dist.given(parents)` / `dist | parents` for a collection of variables -/
def Dist.given (d : Dist) (parents : List Var) : Except Err Dist :=
  Dist.check { children := d.children, parents := upgradeOrdering (d.parents ++ parents) }

/-- `P(dist)` (`Probability.safe` → `Distribution.safe` with one distribution argument: children and parents are
re-sorted, not de-duplicated) when `pop = none`; the raw `PopulationProbability(population=pop, distribution=dist)`
otherwise -/
def mkProb (pop : Option Var) (d : Dist) : Except Err Expr :=
  match pop with
  | none => do
      let d' ← Dist.check { children := sortedVariables d.children, parents := sortedVariables d.parents }
      pure (.prob none d'.children d'.parents)
  | some p => pure (.prob (some p) d.children d.parents)

/-! ### `Expression._get_key` and its comparison

A key is a nested tuple whose first component is an integer tag; it is flattened to a token list in which a
closing bracket is the smallest token, so that lexicographic comparison of token lists is Python's tuple
comparison (a proper prefix is smaller).  Components of different types are never compared by Python on keys of
this shape (the integer tag in front decides first). -/

inductive Tok where
  | close
  | num (i : Int)
  | name (n : Name)
  | pop (n : Name) (star : Option Bool)
  | opn
  deriving Repr, DecidableEq, Inhabited

def Tok.lt : Tok → Tok → Bool
  | .close, .close => false
  | .close, _ => true
  | _, .close => false
  | .num a, .num b => a < b
  | .name a, .name b => a < b
  | .pop a s, .pop b t => a < b || (a == b && (match s, t with
      | none, some _ => true
      | some false, some true => true
      | _, _ => false))
  | _, _ => false

def toksLt : List Tok → List Tok → Bool
  | [], [] => false
  | [], _ :: _ => true
  | _ :: _, [] => false
  | a :: as, b :: bs => if a.lt b then true else if b.lt a then false else toksLt as bs

/-- smallest name of a list (`min(v.name for v in …)`; `ValueError` on an empty set is not reachable from tian_id) -/
def minName (vs : List Var) : Name := vs.foldl (fun m v => if v.name < m then v.name else m) (vs.head?.map (·.name) |>.getD 0)

mutual
/-- the components of `e._get_key()` -/
def keyElems : Expr → List Tok
  | .prob none c _ => [.num 0, .name ((c.head?.map (·.name)).getD 0)]
  | .prob (some p) c _ => [.num (-1), .pop p.name p.star, .name ((c.head?.map (·.name)).getD 0)]
  | .sum e _ => .num 1 :: keyElems e
  | .prod fs => .num 2 :: keyElemsList fs
  | .frac n d => [.num 3, .opn] ++ keyElems n ++ [.close, .opn] ++ keyElems d ++ [.close]
  | .one => [.num 4, .num 1]
  | .zero => [.num 4, .num 0]
  | .q d c => [.num (-5), .name (minName d), .name (minName c)]
def keyElemsList : List Expr → List Tok
  | [] => []
  | e :: es => (.opn :: keyElems e) ++ (.close :: keyElemsList es)
end

/-- `a < b` on expressions (`Expression.__lt__`) -/
def keyLt (a b : Expr) : Bool := toksLt (keyElems a) (keyElems b)

/-! ### normalising constructors -/

def isOne : Expr → Bool
  | .one => true
  | _ => false

def isZero : Expr → Bool
  | .zero => true
  | _ => false

/-- `Product.safe(expressions)` for an iterable of expressions -/
def productSafe (es : List Expr) : Expr :=
  let es := es.filter (fun e => !isOne e)
  if es.any isZero then .zero
  else match es with
    | [] => .one
    | [e] => e
    | _ => .prod (sortStable keyLt es)

/-- `Sum.safe(expression, ranges)` with `simplify=False` for a collection of variables as ranges;
`Sum.__post_init__` raises `TypeError` when a range is a counterfactual variable or an intervention -/
def sumSafe (e : Expr) (ranges : List Var) : Except Err Expr :=
  let rs := upgradeOrdering ranges
  if rs.isEmpty then .ok e
  else if isZero e then .ok e
  else if rs.any (fun r => r.isCf || r.isIv) then .error (.invalidInput "TypeError")
  else .ok (.sum e rs)

/-- `Fraction(numerator, denominator)`; `ZeroDivisionError` when the denominator is `Zero()` -/
def mkFraction (n d : Expr) : Except Err Expr :=
  if isZero d then .error (.internal "ZeroDivisionError") else .ok (.frac n d)

end TianDsl
end Y0
