/-
  Y0.Model.Basic — shared vocabulary of the executable models.

  * `Name`      : variables are natural numbers (the harness maps names to integers).
  * `Err`       : the small error enum every modelled Python exception is mapped to.
  * `Sexp`      : the line protocol (one s-expression per line) with parser and printer.
  * list-as-set helpers (`dedup'`, `subset'`, …) used by every model.

  Core Lean only (no Mathlib) so that the driver can be compiled to a native executable.
-/

namespace Y0

abbrev Name := Nat

/-- What a raised Python exception is mapped to.  `internal` is any exception that is not a
documented outcome of the modelled function (KeyError, NetworkXError, RuntimeError, …). -/
inductive Err where
  | unidentifiable
  | invalidInput (kind : String)
  | internal (kind : String)
  deriving Repr, DecidableEq, Inhabited

/-! ### list-as-set helpers -/

/-- order-preserving de-duplication (keeps the first occurrence), like inserting into a dict -/
def dedup' {α} [DecidableEq α] : List α → List α
  | [] => []
  | x :: xs => x :: (dedup' xs).filter (· ≠ x)

def subset' {α} [DecidableEq α] (a b : List α) : Bool := a.all (· ∈ b)
def disjoint' {α} [DecidableEq α] (a b : List α) : Bool := a.all (· ∉ b)
def seteq' {α} [DecidableEq α] (a b : List α) : Bool := subset' a b && subset' b a
def inter' {α} [DecidableEq α] (a b : List α) : List α := a.filter (· ∈ b)
def diff' {α} [DecidableEq α] (a b : List α) : List α := a.filter (· ∉ b)
def union' {α} [DecidableEq α] (a b : List α) : List α := a ++ b.filter (· ∉ a)

/-! ### s-expressions -/

inductive Sexp where
  | atom (s : String)
  | list (xs : List Sexp)
  deriving Repr, Inhabited, BEq

namespace Sexp

partial def toStr : Sexp → String
  | atom s => s
  | list xs => "(" ++ " ".intercalate (xs.map toStr) ++ ")"

instance : ToString Sexp := ⟨toStr⟩

def nat (n : Nat) : Sexp := atom (toString n)
def ofNats (xs : List Nat) : Sexp := list (xs.map nat)
def tagged (t : String) (xs : List Sexp) : Sexp := list (atom t :: xs)

def asNat? : Sexp → Option Nat
  | atom s => s.toNat?
  | _ => none

def asNats? : Sexp → Option (List Nat)
  | list xs => xs.mapM asNat?
  | _ => none

def asPair? : Sexp → Option (Nat × Nat)
  | list [a, b] => do pure (← asNat? a, ← asNat? b)
  | _ => none

def asPairs? : Sexp → Option (List (Nat × Nat))
  | list xs => xs.mapM asPair?
  | _ => none

/-- tokenizer: parentheses and whitespace-separated atoms -/
def tokenize (s : String) : List String := Id.run do
  let mut toks : Array String := #[]
  let mut cur : String := ""
  for c in s.toList do
    if c == '(' || c == ')' then
      if cur != "" then toks := toks.push cur; cur := ""
      toks := toks.push (String.singleton c)
    else if c == ' ' || c == '\t' || c == '\n' || c == '\r' then
      if cur != "" then toks := toks.push cur; cur := ""
    else cur := cur.push c
  if cur != "" then toks := toks.push cur
  return toks.toList

/-- parse a token list with an explicit stack (total, no recursion on structure needed) -/
def parseToks (toks : List String) : Option Sexp := Id.run do
  let mut stack : List (List Sexp) := [[]]
  for t in toks do
    if t == "(" then stack := [] :: stack
    else if t == ")" then
      match stack with
      | top :: next :: rest => stack := (list top.reverse :: next) :: rest
      | _ => return none
    else
      match stack with
      | top :: rest => stack := (atom t :: top) :: rest
      | [] => return none
  match stack with
  | [[x]] => return some x
  | _ => return none

def parse (s : String) : Option Sexp := parseToks (tokenize s)

end Sexp

def Err.toSexp : Err → Sexp
  | .unidentifiable => .tagged "err" [.atom "unidentifiable"]
  | .invalidInput k => .tagged "err" [.atom "invalid", .atom k]
  | .internal k => .tagged "err" [.atom "internal", .atom k]

end Y0
