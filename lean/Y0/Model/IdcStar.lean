/-
  Y0.Model.IdcStar — executable model of `src/y0/algorithm/identify/idc_star.py` (IDC*) on top of the ID* model,
  the counterfactual-graph model and the d-separation model of the `sep` family (`MG.dSeparated`, the code after
  `fix:` 387f69f).  Models idc_star.py after `fix:` b76144c (re-associated keys sorted) and `fix:` 1834c39 (the rule-2 test
  of line 4 conditions on the other conditions: `rule2Applies … others`, `firstExchangeableIn`).

  Order parameters (Python iterates over sets there; all theorems hold for every choice, the harness drives the real
  code through the same orders):
    * `ordf`, `dordf` : as in Cg.lean / IdStar.lean
    * `kordf`         : order in which the keys of `set(new_event) - set(outcomes) - set(conditions)` are inserted
                        into the new outcome / condition dicts (`get_new_outcomes_and_conditions`).  Since `fix:`
                        "IDC* re-associates the merged keys in sorted order" the code sorts that set by
                        `_variable_sort_key`, i.e. `kordf = orderDistrict false` (what the driver passes); the
                        parameter is kept because every theorem holds for every `SubsetOrder kordf`.
  Dicts are association lists in insertion order (`Event`); the `for condition in new_conditions` loop follows it.
  The recursion of line 4 is modelled with a fuel (see Props/C08.lean).
-/
import Y0.Model.IdStar
import Y0.Model.Sep

namespace Y0
namespace Cf

/-! ### `get_new_outcomes_and_conditions` (idc_star.py:20-53) -/

/-- `get_remaining_and_missing_events(new_event, old_event)` -/
def remainingAndMissing (new old : Event) : Event × Event :=
  (old.filter (fun p => new.has p.1), old.filter (fun p => !new.has p.1))

/-- insert `new_event[k]` for every `k` of `keys` that satisfies `want` -/
def addKeys (acc : Event) (new : Event) (keys : List Var) (want : Var → Bool) : Event :=
  keys.foldl (fun acc k => if want k then
    match new.get? k with
    | some v => acc.set k v
    | none => acc
    else acc) acc

def newOutcomesAndConditions (kordf : List Var → List Var) (new outcomes conditions : Event) : Event × Event :=
  let (remO, misO) := remainingAndMissing new outcomes
  let (remC, misC) := remainingAndMissing new conditions
  let newKeys := kordf ((new.keys.filter (fun k => !outcomes.has k)).filter (fun k => !conditions.has k))
  if !misO.isEmpty && !misC.isEmpty then
    (addKeys remO new newKeys (fun k => misO.any (fun p => p.1.name == k.name)),
     addKeys remC new newKeys (fun k => misC.any (fun p => p.1.name == k.name)))
  else if !misO.isEmpty then (addKeys remO new newKeys (fun _ => true), remC)
  else if !misC.isEmpty then (remO, addKeys remC new newKeys (fun _ => true))
  else (remO, remC)

/-! ### rule 2 on the counterfactual graph (idc_star.py:165-198) -/

/-- `all(are_d_separated(graph_mod, outcome, condition, conditions=blocked - {outcome, condition}) for outcome in outcomes)`;
a generator inside `all`: stops at the first `False`, an exception propagates when it is met.
(after `fix:` the tested pair is left out of the conditioning set) -/
def allSeparated (g : MG Var) (cond : Var) (blocked : List Var) : List Var → Except Err Bool
  | [] => .ok true
  | o :: os => do
    let s ← g.dSeparated o cond (blocked.filter (fun n => n ≠ o && n ≠ cond))
    if s then allSeparated g cond blocked os else pure false

/-- `cf_rule_2_of_do_calculus_applies(cf_graph, outcomes, condition, other_conditions=others)`: since `fix:` "the rule-2 test of
IDC* conditions on the other conditions" the conditioning set is `{self-intervened nodes} | set(other_conditions)` (before, the
self-intervened nodes only: a condition was exchanged although conditioning on another condition -- e.g. a collider -- opens a
back-door path).  A set in Python; the d-separation model does not depend on order or repetitions of the list. -/
def rule2Applies (cf : MG Var) (outcomes : List Var) (cond : Var) (others : List Var) : Except Err Bool :=
  let blocked := others ++ cf.nodes.filter (fun n => !isNotSelfIntervened n)
  allSeparated (cf.removeOutEdges [cond]) cond blocked outcomes

/-! ### exchanging a condition for an intervention -/

/-- `_raise_for_overlapping_interventions` -/
def overlapping (is : List Iv) : Bool := is.any fun a => is.any fun b => a.name == b.name && a.star != b.star

/-- `outcome.intervene(new_conditions[condition])` (after `fix:` the subscript carries the observed VALUE of the
condition, an `Intervention` named after its base variable; before, `outcome.intervene(condition)` always produced the
unstarred `-name`).  A counterfactual outcome raises `ValueError` when the new subscript contradicts an existing one. -/
def interveneWith (o : Var) (newIv : Iv) : Except Err Var :=
  if o.isCf then
    let is := ivsCanon (o.ivs ++ [newIv])
    if overlapping is then .error (.invalidInput "ValueError") else .ok { o with ivs := is }
  else .ok { name := o.name, star := o.star, ivs := [newIv] }

/-- one step of the loop that rewrites the outcomes: the (possibly re-subscripted) key and the value of the outcome `p` -/
def exchangeKey (cf : MG Var) (cond : Var) (val : Iv) (p : Var × Iv) : Except Err (Var × Iv) := do
  let anc ← cf.ancestorsInclusive [p.1]
  if elem' cond anc then
    let k ← interveneWith p.1 val
    pure (k, p.2)
  else pure p

/-- the dict that the rewriting of the outcomes produces when no two outcomes collide with different values (what the code did as a
dict comprehension before the fix; `exchangeStep_some`, Lemmas/CfIdcCollapse.lean: whenever `exchangeStep` returns `some e`, this
is `e`); kept because the lemmas about the exchanged outcomes are stated for it -/
def exchangeOutcomes (cf : MG Var) (outcomes : Event) (cond : Var) (val : Iv) : Except Err Event := do
  let ps ← outcomes.mapM (exchangeKey cf cond val)
  pure (Event.ofList ps)

/-- `remaining_conditions.get(outcome, value) != value`: the (re-subscripted) outcome `q` is the variable of a REMAINING condition
that demands a different value -/
def remClash (rem : Event) (q : Var × Iv) : Bool :=
  match rem.get? q.1 with
  | some v => decide (v ≠ q.2)
  | none => false

/-- the loop that rewrites the outcomes when rule 2 applies to `cond` (since `fix:` "IDC* returns Zero when the exchange makes two
outcomes the same variable with different values"; before, a dict comprehension: the later conjunct silently overwrote the
earlier one -- `exchangeOutcomes`).  `rem` are the remaining conditions (`new_conditions` without `cond`).  `none`: an outcome was
re-subscripted to (or already was) a key that is there with a DIFFERENT value, or (since `fix:` "IDC* returns Zero when the exchange
makes an outcome a remaining condition's variable with a different value"; before, the `outcomes | conditions` of the recursive call
silently kept the condition's value only) to the key of a remaining condition with a DIFFERENT value: the event is inconsistent,
IDC* answers Zero.  Python tests the outcome/outcome clash first, then the outcome/condition clash, both before storing (both
answers are Zero).  Errors of `intervene` surface in loop order. -/
def exchangeLoop (cf : MG Var) (cond : Var) (val : Iv) (rem : Event) : List (Var × Iv) → Event → Except Err (Option Event)
  | [], acc => .ok (some acc)
  | p :: ps, acc => do
    let q ← exchangeKey cf cond val p
    match acc.get? q.1 with
    | some v =>
      if v = q.2 then (if remClash rem q then pure none else exchangeLoop cf cond val rem ps (acc.set q.1 q.2)) else pure none
    | none => if remClash rem q then pure none else exchangeLoop cf cond val rem ps (acc.set q.1 q.2)

/-- `exchanged_outcomes` of line 4: `some` dict, or `none` (inconsistent: Zero); `rem` = `remaining_conditions` -/
def exchangeStep (cf : MG Var) (outcomes : Event) (cond : Var) (val : Iv) (rem : Event) : Except Err (Option Event) :=
  exchangeLoop cf cond val rem outcomes []

/-! ### `Expression.conditional` (dsl.py:702-718, 864-878) -/

mutual
/-- base names of the NON-`Intervention` variables `expression._iter_variables()` yields: the event variables of every
leaf and the ranges of every `Sum` (the subscripts are `Intervention` objects, skipped by both `conditional` overloads
since `fix:` a54a0f5) -/
def exprNames : Expr → List Name
  | .prob _ c p => ((c ++ p).filter (fun v => !v.isIv)).map (·.name)
  | .prod fs => exprNamesList fs
  | .sum e r => exprNames e ++ (r.filter (fun v => !v.isIv)).map (·.name)
  | .frac n d => exprNames n ++ exprNames d
  | .one => []
  | .zero => []
  | .q d c => ((c ++ d).filter (fun v => !v.isIv)).map (·.name)
def exprNamesList : List Expr → List Name
  | [] => []
  | e :: es => exprNames e ++ exprNamesList es
end

/-- `self / expression` for the cases IDC* can produce (`self` is an ID* estimand, never a `Fraction`):
`Zero.__truediv__` raises `ZeroDivisionError` on `Zero`; `Fraction.__post_init__` likewise -/
def divide (e d : Expr) : Except Err Expr :=
  match e, d with
  | .zero, .zero => .error (.internal "ZeroDivisionError")
  | .zero, _ => .ok .zero
  | _, .one => .ok e
  | _, .zero => .error (.internal "ZeroDivisionError")
  | _, .frac _ _ => .error (.internal "unmodelled: division by a Fraction")
  | _, _ => .ok (.frac e d)

/-- `est.conditional(ranges)`: both overloads normalise over the event variables and the ranges of inner sums that are not
in `ranges`; neither collects intervention subscripts (`Expression.conditional` did before `fix:` a54a0f5) -/
def conditional (e : Expr) (ranges : List Name) : Except Err Expr :=
  let compl := diff' (dedup' (exprNames e)) ranges
  divide e (sumSafe e compl)

/-! ### IDC* (idc_star.py:56-162) -/

/-- line 1: `ValueError` when ID* says the conditions are impossible; `Unidentifiable` is swallowed,
anything else propagates -/
def line1 (r : Except Err Expr) : Except Err Unit :=
  match r with
  | .ok e => if isZeroE e then .error (.invalidInput "ImpossibleCondition") else .ok ()
  | .error .unidentifiable => .ok ()
  | .error e => .error e

/-- the `for condition in new_conditions` loop over the remaining keys `cs` of the dict whose keys are `all`: the first condition
to which rule 2 applies, GIVEN the other conditions `set(new_conditions) - {condition}` -/
def firstExchangeableIn (cf : MG Var) (outcomes all : List Var) : List Var → Except Err (Option Var)
  | [] => .ok none
  | c :: cs => do
    if ← rule2Applies cf outcomes c (all.filter (fun k => k ≠ c)) then pure (some c)
    else firstExchangeableIn cf outcomes all cs

/-- the `for condition in new_conditions` loop: the first condition to which rule 2 applies -/
def firstExchangeable (cf : MG Var) (outcomes conds : List Var) : Except Err (Option Var) :=
  firstExchangeableIn cf outcomes conds conds

def idcStarFuel (ordf : List World → List World) (dordf kordf : List Var → List Var) (G : MG Name) :
    Nat → Event → Event → Except Err Expr
  | 0, _, _ => .error (.internal "fuel")
  | fuel + 1, outcomes, conditions => do
    line1 (idStar ordf dordf G conditions)
    -- line 2
    let (cf, new) ← makeCounterfactualGraph ordf G (Event.ofList (outcomes ++ conditions))
    match new with
    -- line 3
    | none => pure .zero
    | some nev =>
      let (no, nc) := newOutcomesAndConditions kordf nev outcomes conditions
      -- line 4
      match ← firstExchangeable cf no.keys nc.keys with
      | some c =>
        match nc.get? c with
        | none => throw (.internal "KeyError")
        | some val =>
          match ← exchangeStep cf no c val (nc.filter (fun p => p.1 ≠ c)) with
          | none => pure .zero     -- (`fix:` two outcomes, or an outcome and a remaining condition, became one variable with two values)
          | some no' => idcStarFuel ordf dordf kordf G fuel no' (nc.filter (fun p => p.1 ≠ c))
      | none =>
        -- line 5
        let est ← idStar ordf dordf G (Event.ofList (no ++ nc))
        if conditions.isEmpty || isZeroE est then pure est   -- (`fix:` Zero is returned as it is)
        else conditional est (conditions.keys.map (·.name))

def idcStarFuelBound (G : MG Name) (outcomes conditions : Event) : Nat :=
  2 * (outcomes.length + conditions.length) + G.nodes.length + 4

/-- `idc_star(graph, outcomes, conditions)` -/
def idcStar (ordf : List World → List World) (dordf kordf : List Var → List Var) (G : MG Name)
    (outcomes conditions : Event) : Except Err Expr :=
  idcStarFuel ordf dordf kordf G (idcStarFuelBound G outcomes conditions) outcomes conditions

/-! ### instrumentation for the termination search (NOT a model of a Python function): the control flow of `idcStarFuel` up to the
decision of line 4, recording `(|outcomes|, |conditions|)` of every level; the Boolean says whether the recursion ended before
the fuel did -/

def idcStarTrace (ordf : List World → List World) (dordf kordf : List Var → List Var) (G : MG Name) :
    Nat → Event → Event → List (List Nat) × Bool
  | 0, _, _ => ([], false)
  | fuel + 1, outcomes, conditions =>
    let onames := outcomes.keys.map (·.name)
    let here := [outcomes.length, conditions.length]
    match line1 (idStar ordf dordf G conditions) with
    | .error _ => ([here], true)
    | .ok _ =>
      match makeCounterfactualGraph ordf G (Event.ofList (outcomes ++ conditions)) with
      | .ok (cf, some nev) =>
        let (no, nc) := newOutcomesAndConditions kordf nev outcomes conditions
        let shared := nc.keys.filter (fun k => no.has k)
        let here := here ++ [no.length, nc.length, shared.length, (remainingAndMissing nev outcomes).2.length,
          (remainingAndMissing nev conditions).2.length,
          -- |names(O)|, #conditions whose name is no outcome name, all keys not self-intervened (1/0),
          -- names(no) ⊆ names(O) (1/0), #conditions of nc whose name is not a name of no
          (dedup' onames).length, (conditions.keys.filter (fun k => !elem' k.name onames)).length,
          (if (outcomes ++ conditions).all (fun p => isNotSelfIntervened p.1) then 1 else 0),
          (if no.keys.all (fun k => elem' k.name onames) then 1 else 0),
          (nc.keys.filter (fun k => !elem' k.name (no.keys.map (·.name)))).length]
        match firstExchangeable cf no.keys nc.keys with
        | .ok (some c) =>
          match nc.get? c with
          | none => ([here], true)
          | some val =>
            match exchangeStep cf no c val (nc.filter (fun p => p.1 ≠ c)) with
            | .ok none => ([here], true)
            | .ok (some no') =>
              -- shared keys that the exchange re-subscripted (they stay as conditions under their old key)
              let split := shared.filter (fun k => !no'.has k)
              let r := idcStarTrace ordf dordf kordf G fuel no' (nc.filter (fun p => p.1 ≠ c))
              -- last: the exchanged condition's name is the name of some (re-associated) outcome (1/0)
              ((here ++ [split.length, if elem' c.name (no.keys.map (·.name)) then 1 else 0]) :: r.1, r.2)
            | .error _ => ([here], true)
        | _ => ([here], true)
      | _ => ([here], true)

/-! ### executable membership tests of the two fragments on which soundness is PROVED (Props/C08.lean:
`idcstar_sound_fragment`, `idcstar_sound_fragment_exchange`); the driver evaluates them so that the harness can compare its own
classification of the real run with them -/

/-- the unstarred value symbol of `x` -/
abbrev unstar (x : Name) : Iv := ⟨x, false⟩

/-- the single factual condition `X = x` -/
abbrev condOf (x : Name) : Event := [(Var.plain x, unstar x)]

/-- the outcomes after the exchange: every `Y = y` becomes `Y_x = y` -/
def exOut (O : Event) (x : Name) : Event := O.map fun p => (atWorld p.1.name [unstar x], p.2)

/-- static part of the fragment, as an executable test: outcomes and conditions are dicts of FACTUAL variables of `G` with
unstarred values, no variable name on both sides, at least one condition -/
def fragCStaticB (G : MG Name) (O C : Event) : Bool :=
  decide O.keys.Nodup && decide C.keys.Nodup &&
  (O ++ C).all (fun p => decide (p.1 = Var.plain p.1.name) && decide (p.2 = ⟨p.1.name, false⟩) && decide (p.1.name ∈ G.nodes)) &&
  O.keys.all (fun o => C.keys.all (fun c => decide (o.name ≠ c.name))) && !C.isEmpty

/-- rule 2 applies to no condition (line 4 does not recurse) -/
def noExchangeB (ordf : List World → List World) (G : MG Name) (O C : Event) : Bool :=
  match makeCounterfactualGraph ordf G (O ++ C) with
  | .ok (cf, some _) => (match firstExchangeable cf O.keys C.keys with | .ok none => true | _ => false)
  | _ => true

/-- ID*'s estimand for the joint event mentions exactly the event's variables: nothing was marginalised (no `Sum`, whose
bound variable `Expression.conditional` would sum over a second time — what remains of F11) -/
def estNamesB (ordf : List World → List World) (dordf : List Var → List Var) (G : MG Name) (O C : Event) : Bool :=
  match idStar ordf dordf G (O ++ C) with
  | .ok est => (exprNames est).all (fun n => decide (n ∈ (O ++ C).keys.map (·.name))) &&
      ((O ++ C).keys.map (·.name)).all (fun n => decide (n ∈ exprNames est))
  | .error _ => true

/-- **The fragment of IDC\***: observational conditional queries `P(y | x)` (conjunctions of factual variables of `G`, unstarred
values, outcome names ≠ condition names) on which rule 2 applies to no condition and ID* answers the joint event without
marginalising a variable.  Decidable from the input (`inFragmentCB` runs the model's own test functions). -/
def inFragmentCB (ordf : List World → List World) (dordf : List Var → List Var) (G : MG Name) (O C : Event) : Bool :=
  fragCStaticB G O C && noExchangeB ordf G O C && estNamesB ordf dordf G O C

/-- static part of the exchange fragment: the static part of `InFragmentC`, at least one outcome, exactly ONE condition -/
def fragXStaticB (G : MG Name) (O C : Event) : Bool :=
  fragCStaticB G O C && !O.isEmpty && decide (C.length = 1)

/-- EVERY outcome descends from the condition in the counterfactual graph: the exchange turns every outcome `Y` into `Y_x` -/
def exchangeAllB (cf : MG Var) (O : Event) (c : Var) : Bool :=
  O.all fun p => match cf.ancestorsInclusive [p.1] with | .ok anc => elem' c anc | _ => false

/-- NO outcome descends from the condition: the exchange leaves the outcomes as they are -/
def exchangeNoneB (cf : MG Var) (O : Event) (c : Var) : Bool :=
  O.all fun p => match cf.ancestorsInclusive [p.1] with | .ok anc => !elem' c anc | _ => false

/-- dynamic part, run with the model's own functions: rule 2 applies to the condition `X = x` (line 4 recurses) and either every
outcome descends from `X` in the counterfactual graph or none does (so that the recursive call is about ONE world) -/
def exchangeB (ordf : List World → List World) (G : MG Name) (O C : Event) : Bool :=
  match C with
  | [(c, val)] =>
    (match makeCounterfactualGraph ordf G (O ++ C) with
     | .ok (cf, some _) =>
       (match firstExchangeable cf O.keys C.keys with
        | .ok (some _) => exchangeAllB cf O c || exchangeNoneB cf O c
        | _ => false)
     | _ => true)
  | _ => false

/-- **The exchange fragment of IDC\***: observational queries `P(y | x)` with ONE condition — factual variables of `G`, unstarred
values, the outcome names different from `X` — on which rule 2 of the do-calculus applies to `X` according to
`cf_rule_2_of_do_calculus_applies` and either every outcome descends from `X` (IDC* then answers with ID*'s estimand for `P(y_x)`)
or none does (IDC* answers with ID*'s estimand for `P(y)`).
Decidable from the input (`inFragmentXB` runs the model's own functions).  Disjoint from `InFragmentC` (there rule 2 applies to
no condition). -/
def inFragmentXB (ordf : List World → List World) (G : MG Name) (O C : Event) : Bool :=
  fragXStaticB G O C && exchangeB ordf G O C


/-- executable form of the hypotheses of the general termination theorem (Props/C08.lean `idcstar_terminates_shared_names`): dicts
of well-formed keys over the graph, values named after their keys, no key self-intervened -/
def idcInvB (G : MG Name) (O C : Event) : Bool :=
  decide O.keys.Nodup && decide C.keys.Nodup &&
  (O ++ C).all (fun p => decide (p.2.name = p.1.name) && decide (p.1.star = none) && !p.1.isIv &&
    decide (p.1.name ∈ G.nodes) && p.1.ivs.all (fun i => p.1.ivs.all (fun j => decide (i.name = j.name → i = j))) &&
    isNotSelfIntervened p.1)

/-- no variable name occurs both among the outcomes and among the conditions (hypothesis of `idcstar_own_recursion_terminates`) -/
def disjointNamesB (O C : Event) : Bool :=
  decide C.keys.Nodup && O.keys.all (fun o => C.keys.all (fun c => decide (o.name ≠ c.name)))

end Cf
end Y0
