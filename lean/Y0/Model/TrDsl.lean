/-
  Y0.Model.TrDsl — the normalising constructors of src/y0/dsl.py and the canonicaliser of
  src/y0/mutate/canonicalize_expr.py that the transport algorithms call, translated branch for branch (the code AFTER
  the `fix:` commits of the `expr` family that are merged into the tree under test: total sort keys, `Sum.simplify`
  superset branch, the three `canonicalize` repairs):

    Python                                    model
    ----------------------------------------  ---------------------------
    _upgrade_ordering / _sorted_variables      sortVars
    Distribution.safe(iterable of variables)   (children := sortVars …)
    Expression._get_key (total key, fixed)     exprKey
    Product.safe                               productSafe
    Sum.safe(…, simplify=…) / Sum.simplify     sumSafe / sumSimplify
    __mul__ of every expression class          mul
    __truediv__ of every expression class      truediv
    Fraction.simplify / _simplify_parts        fracSimplify
    canonicalize(expression)                   canonicalize
    Probability.intervene                      interveneVars

  Python `frozenset` fields are sorted duplicate-free lists, Python `set` arguments are lists (order and
  multiplicity irrelevant: every constructor sorts and de-duplicates first, as `_upgrade_ordering` does).

  Kept separate from the `expr` family's Y0.Model.Dsl on purpose (written concurrently); only the operations TRSO /
  ctfTR use are here.  Core Lean only.
-/
import Y0.Model.Expr

namespace Y0
namespace TrDsl

/-! ### stable sorting

`Y0.sortBy` (Model/Expr.lean) puts an element AFTER the elements with an equal key that follow it in the input, i.e. it
reverses ties; Python's `sorted` is stable.  `ssort` is the stable insertion sort used here. -/

/-- insert `x`, which precedes every element of the (sorted) list in the input, before the first element that is not
strictly smaller -/
def insertStable {α} (lt : α → α → Bool) (x : α) : List α → List α
  | [] => [x]
  | y :: ys => if lt y x then y :: insertStable lt x ys else x :: y :: ys

/-- stable insertion sort: Python's `sorted(l, key=…)` for a key order `lt` -/
def ssort {α} (lt : α → α → Bool) (l : List α) : List α := l.foldr (insertStable lt) []

/-! ### variables -/

/-- `_upgrade_ordering(vs)` = `_sorted_variables(set(vs))` -/
def sortVars (vs : List Var) : List Var := ssort Var.keyLt (dedup' vs)

/-- `Variable(name)` for every name, as `_upgrade_ordering` of a set of plain variables -/
def plainVars (ns : List Name) : List Var := sortVars (ns.map Var.plain)

/-- `_to_interventions`: a plain variable becomes `Intervention(name, star=False)` -/
def toIv (v : Var) : Iv := ⟨v.name, if v.isIv then v.star.getD false else false⟩

/-- `CounterfactualVariable._raise_for_overlapping_interventions` -/
def overlapping (ivs : List Iv) : Bool := ivs.any fun a => ivs.any fun b => a.name == b.name && a.star != b.star

/-- `Variable.intervene` / `CounterfactualVariable.intervene` with the variables `zs`.
`ValueError` when the subscript set would be empty or two values of one variable meet. -/
def interveneVar (zs : List Var) (v : Var) : Except Err Var :=
  let ivs := ssort Iv.lt (dedup' (v.ivs ++ zs.map toIv))
  if ivs.isEmpty then .error (.internal "ValueError")
  else if v.isCf && overlapping ivs then .error (.internal "ValueError")
  else .ok { name := v.name, star := v.star, isIv := false, ivs := ivs }

/-- `Distribution.intervene` over a tuple of variables -/
def interveneVars (zs : List Var) (vs : List Var) : Except Err (List Var) := vs.mapM (interveneVar zs)

/-! ### sort keys (`_get_key`, after the `fix:` commit of the `expr` family: total structural key)

Same key as `Y0.Expr.key` of Y0.Model.Dsl (kept as a copy inside this namespace: the two DSL models are opened side by
side in several files).  A Python key is a nested tuple of ints/strings; tuples compare lexicographically, a proper
prefix being smaller. -/

inductive Key where
  | atom (i : Int)
  | tup (ks : List Key)
  deriving Repr, Inhabited

mutual
def Key.cmp : Key → Key → Ordering
  | .atom a, .atom b => compare a b
  | .atom _, .tup _ => .lt
  | .tup _, .atom _ => .gt
  | .tup as, .tup bs => Key.cmpList as bs
def Key.cmpList : List Key → List Key → Ordering
  | [], [] => .eq
  | [], _ :: _ => .lt
  | _ :: _, [] => .gt
  | a :: as, b :: bs =>
    match Key.cmp a b with
    | .lt => .lt
    | .gt => .gt
    | .eq => Key.cmpList as bs
end

def Key.lt (a b : Key) : Bool :=
  match Key.cmp a b with
  | .lt => true
  | _ => false

def starCode : Option Bool → Int
  | none => -1
  | some false => 0
  | some true => 1

/-- `_variable_total_key`: (name, star as -1/0/1, isinstance Intervention, sorted (name, star) of the interventions) -/
def varTotalKey (v : Var) : Key :=
  .tup [.atom v.name, .atom (starCode v.star), .atom (if v.isIv then 1 else 0),
        .tup (v.ivs.map fun i => .tup [.atom i.name, .atom (if i.star then 1 else 0)])]

def firstNameKey : List Var → Key
  | [] => .tup []
  | v :: _ => .atom v.name

def minNameKey : List Var → Key
  | [] => .tup []
  | v :: vs => .atom (vs.foldl (fun m w => if w.name < m then w.name else m) v.name)

mutual
/-- `_get_key()` -/
def exprKey : Expr → Key
  | .prob none c p => .tup [.atom 0, firstNameKey c, .tup (c.map varTotalKey), .tup (p.map varTotalKey)]
  | .prob (some pop) c p =>
      .tup [.atom (-1), varTotalKey pop, firstNameKey c, .tup (c.map varTotalKey), .tup (p.map varTotalKey)]
  | .prod fs => .tup (.atom 2 :: exprKeyList fs)
  | .sum e r => .tup [.atom 1, exprKey e, .tup (r.map varTotalKey)]
  | .frac n d => .tup [.atom 3, exprKey n, exprKey d]
  | .one => .tup [.atom 4, .atom 1]
  | .zero => .tup [.atom 4, .atom 0]
  | .q d c => .tup [.atom (-5), minNameKey d, minNameKey c, .tup (d.map varTotalKey), .tup (c.map varTotalKey)]
def exprKeyList : List Expr → List Key
  | [] => []
  | e :: es => exprKey e :: exprKeyList es
end

/-- `Expression.__lt__` -/
def exprLt (a b : Expr) : Bool := Key.lt (exprKey a) (exprKey b)

/-! ### structural equality (dataclass `__eq__`; `One() == One()`) -/

mutual
def exprEq : Expr → Expr → Bool
  | .prob p c pa, .prob p' c' pa' => decide (p = p') && decide (c = c') && decide (pa = pa')
  | .prod fs, .prod gs => exprsEq fs gs
  | .sum e r, .sum e' r' => exprEq e e' && decide (r = r')
  | .frac n d, .frac n' d' => exprEq n n' && exprEq d d'
  | .one, .one => true
  | .zero, .zero => true
  | .q d c, .q d' c' => decide (d = d') && decide (c = c')
  | _, _ => false
def exprsEq : List Expr → List Expr → Bool
  | [], [] => true
  | a :: as, b :: bs => exprEq a b && exprsEq as bs
  | _, _ => false
end

def isOne : Expr → Bool | .one => true | _ => false
def isZero : Expr → Bool | .zero => true | _ => false
def isFrac : Expr → Bool | .frac _ _ => true | _ => false

/-! ### constructors -/

/-- `Product.safe(iterable)` -/
def productSafe (es : List Expr) : Expr :=
  let es := es.filter (fun e => !isOne e)
  if es.any isZero then .zero
  else match es with
    | [] => .one
    | [e] => e
    | _ => .prod (ssort exprLt es)

/-- `Fraction(n, d)`: `ZeroDivisionError` when the denominator is `Zero()` -/
def mkFrac (n d : Expr) : Except Err Expr :=
  if isZero d then .error (.internal "ZeroDivisionError") else .ok (.frac n d)

/-- dict `{child.get_base(): child for child in children}`: insertion position of the first occurrence of a name,
value of the last -/
def childDict (children : List Var) : List (Name × Var) :=
  children.foldl (fun acc c =>
    if acc.any (fun p => p.1 = c.name) then acc.map (fun p => if p.1 = c.name then (p.1, c) else p)
    else acc ++ [(c.name, c)]) []

/-- `Sum.simplify()`; `ranges` are plain variables (sorted, duplicate free, non-empty) -/
def sumSimplify (e : Expr) (ranges : List Var) : Expr :=
  match e with
  | .prob pop children [] =>
    let dict := childDict children
    let keys := dict.map (·.1)
    let rs := ranges.map (·.name)
    if dict.length != children.length then .sum e ranges   -- a name with several children: left alone (`fix:` of Sum.simplify)
    else if seteq' rs keys then .one
    else if subset' keys rs then                -- `Sum.safe(One(), ranges - children)` (after `fix:` ed0f7b2)
      .sum .one (ranges.filter (fun r => r.name ∉ keys))
    else if subset' rs keys then
      .prob pop (sortVars ((dict.filter (fun p => p.1 ∉ rs)).map (·.2))) []
    else
      let inter := rs.filter (· ∈ keys)
      let prob := Expr.prob pop (sortVars ((dict.filter (fun p => p.1 ∉ inter)).map (·.2))) []
      .sum prob (ranges.filter (fun r => r.name ∉ inter))
  | _ => .sum e ranges

/-- `Sum.safe(expression, ranges, simplify=…)` -/
def sumSafe (e : Expr) (ranges : List Var) (simplify : Bool := false) : Expr :=
  let rs := sortVars ranges
  if rs.isEmpty then e
  else if isZero e then e
  else if simplify then sumSimplify e rs else .sum e rs

/-- `a * b` (`__mul__` of the class of `a`).  `fuel` bounds the recursion through fractions. -/
def mulF : Nat → Expr → Expr → Except Err Expr
  | 0, _, _ => .error (.internal "fuel")
  | fuel + 1, a, b =>
    match a with
    | .one => .ok b
    | .zero => .ok .zero
    | .prob .. =>
      match b with
      | .zero => .ok b
      | .one => .ok a
      | .prod gs => .ok (productSafe (a :: gs))
      | .frac n d => do mkFrac (← mulF fuel a n) d
      | _ => .ok (productSafe [a, b])
    | .prod fs =>
      match b with
      | .zero => .ok b
      | .prod gs => .ok (productSafe (fs ++ gs))
      | .frac n d => do mkFrac (← mulF fuel a n) d
      | _ => .ok (productSafe (fs ++ [b]))
    | .sum .. =>
      match b with
      | .zero => .ok b
      | .prod gs => .ok (productSafe (a :: gs))
      | _ => .ok (productSafe [a, b])
    | .frac n d =>
      match b with
      | .zero => .ok b
      | .frac n' d' => do mkFrac (← mulF fuel n n') (← mulF fuel d d')
      | _ => do mkFrac (← mulF fuel n b) d
    | .q .. =>
      match b with
      | .zero => .ok b
      | .one => .ok a
      | .prod gs => .ok (productSafe (a :: gs))
      | _ => .ok (productSafe [a, b])

/-- number of constructors, used as fuel -/
def size : Expr → Nat
  | .prod fs => 1 + sizeList fs
  | .sum e _ => 1 + size e
  | .frac n d => 1 + size n + size d
  | _ => 1
where
  sizeList : List Expr → Nat
    | [] => 0
    | e :: es => size e + sizeList es

def mul (a b : Expr) : Except Err Expr := mulF (size a + size b + 1) a b

/-- `a / b` (`__truediv__` of the class of `a`) -/
def truediv (a b : Expr) : Except Err Expr :=
  match a with
  | .zero => if isZero b then .error (.internal "ZeroDivisionError") else .ok .zero
  | .frac n d =>
    match b with
    | .one => .ok a
    | .frac n' d' => do mkFrac (← mul n d') (← mul d n')
    | _ => do mkFrac n (← mul d b)
  | _ =>
    match b with
    | .one => .ok a
    | .frac n' d' => do mkFrac (← mul a d') n'
    | _ => mkFrac a b

/-- `Fraction._simplify_parts_helper`: cancel equal factors pairwise, first match wins -/
def cancelParts : List Expr → List Expr → List Expr × List Expr
  | [], den => ([], den)
  | n :: ns, den =>
    match den.findIdx? (fun d => exprEq n d) with
    | some j => cancelParts ns (den.eraseIdx j)
    | none => let (ns', den') := cancelParts ns den; (n :: ns', den')

/-- `Fraction._simplify_parts` -/
def simplifyParts (num den : List Expr) : Except Err Expr :=
  let (n, d) := cancelParts num den
  if !n.isEmpty && !d.isEmpty then mkFrac (productSafe n) (productSafe d)
  else if !n.isEmpty then .ok (productSafe n)
  else if !d.isEmpty then truediv .one (productSafe d)
  else .ok .one

/-- `Fraction.flip().simplify()` unfolds at most once more: `fracSimplify` with fuel -/
def fracSimplifyF : Nat → Expr → Expr → Except Err Expr
  | 0, _, _ => .error (.internal "fuel")
  | fuel + 1, n, d =>
    if isOne d then .ok n
    else if isZero n then .ok n
    else if isOne n then
      match d with
      | .frac n' d' => do
          -- `self.denominator.flip()` = `Fraction(d', n')`
          if isZero n' then .error (.internal "ZeroDivisionError") else fracSimplifyF fuel d' n'
      | _ => .ok (.frac n d)
    else if exprEq n d then .ok .one
    else match n, d with
      | .prod ns, .prod ds => simplifyParts ns ds
      | .prod ns, _ => simplifyParts ns [d]
      | _, .prod ds => simplifyParts [n] ds
      | _, _ => .ok (.frac n d)

/-- `Fraction(n, d).simplify()` -/
def fracSimplify (n d : Expr) : Except Err Expr := fracSimplifyF (size d + 2) n d

/-- `x.simplify()` where the Python does `cast(Fraction, x).simplify()`: only `Fraction` and `Sum` have the method -/
def simplifyCast : Expr → Except Err Expr
  | .frac n d => fracSimplify n d
  | .sum e r => .ok (sumSimplify e r)
  | _ => .error (.internal "AttributeError")

/-! ### canonicalize -/

/-- `Canonicalizer._sorted`: stable sort by `(ordering_level[name], _variable_total_key(v))` (after `fix:` 78747c0);
the level of a NAME in the alphabetical ordering of the expression's variables is monotone in the name -/
def sortByName (vs : List Var) : List Var :=
  ssort (fun a b => a.name < b.name || (a.name == b.name && Key.lt (varTotalKey a) (varTotalKey b))) vs

mutual
/-- `_flatten_expressions` (after `fix:` 9d74ada): products that only appear after canonicalising the factors are
flattened (`_flatten_product` is deep) -/
def flattenExprs : List Expr → List Expr
  | [] => []
  | e :: es => flattenExpr e ++ flattenExprs es
def flattenExpr : Expr → List Expr
  | .prod gs => flattenExprs gs
  | e => [e]
end

/-- the re-check of the trivial fractions after the division (after `fix:` b6e9cb9) -/
def postFrac : Expr → Expr
  | .frac a b => if isOne b then a else if exprEq a b then .one else .frac a b
  | e => e

mutual
/-- `Canonicalizer.canonicalize` -/
def canon : Expr → Except Err Expr
  | .prob pop c p => .ok (.prob pop (sortByName c) (sortByName p))
  | .sum e r => do pure (sumSafe (← canon e) r true)
  | .prod fs => do pure (productSafe (flattenExprs (← canonFlat fs)))
  | .frac n d => do
      let n' ← canon n
      let d' ← canon d
      if isOne d' then pure n'
      else if exprEq n' d' then pure .one
      else do pure (postFrac (← truediv n' d'))
  | .one => .ok .one
  | .zero => .ok .zero
  | .q .. => .error (.internal "TypeError")
/-- canonicalise the factors of `_flatten_product` -/
def canonFlat : List Expr → Except Err (List Expr)
  | [] => .ok []
  | .prod gs :: es => do pure ((← canonFlat gs) ++ (← canonFlat es))
  | e :: es => do pure ((← canon e) :: (← canonFlat es))
end

/-- `canonicalize(expression)` (no ordering given) -/
def canonicalize (e : Expr) : Except Err Expr := canon e

/-- `_c14n_safe` -/
def c14nSafe : Option Expr → Except Err (Option Expr)
  | none => .ok none
  | some e => do pure (some (← canonicalize e))

end TrDsl
end Y0
