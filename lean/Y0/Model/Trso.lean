/-
  Y0.Model.Trso — executable model of src/y0/algorithm/transport.py (surrogate outcomes / transportability, TRSO of
  Tikka & Karvanen) AFTER the `fix:` commits of branch fix-transport, branch for branch:

    get_nodes_to_transport, transport_variable, is_transport_node, get_transport_nodes, get_regular_nodes,
    create_transport_diagram, surrogate_to_transport, trso_line1/2/3/4/6, _line_6_helper,
    activate_domain_and_interventions, all_transports_d_separated, trso_line9, trso_line10, trso (lines 1-11),
    _pillow_has_transport, check_and_raise_missing, identify_target_outcomes,
    and `are_d_separated` (conditional_independencies.py) as the separation test TRSO is instantiated with.

  Conventions
    * a population is a name (`1000` = `TARGET_DOMAIN` "pi*", `1001…` = source domains); the transport node of the
      variable `v` is the name `200 + v` (`"T_" + name` in the harness's order-preserving name table), so a user variable
      is a name `< 200`;
    * Python `set`s are lists; where the Python iterates a set the model iterates it in ascending name order
      (`nsort`), Python dicts are association lists in insertion order;
    * `deepcopy(query)` is value semantics;
    * every exception the Python can raise is an explicit `Except Err` outcome; `none` is "no estimand";
    * the recursion is on an explicit `fuel`; running out of fuel is the model of Python's `RecursionError`.
      `trso` starts with `Query.fuel`, a bound that every run from `identify_target_outcomes` respects (checked by the
      correspondence; see Props/C05 for what is proved about it).

  Core Lean only.
-/
import Y0.Model.Graph
import Y0.Model.TrDsl

namespace Y0
namespace Trso
open TrDsl

abbrev Pop := Name

/-- `TARGET_DOMAIN = Population("pi*")` -/
def targetPop : Pop := 1000

/-- `transport_variable(v)`: `Variable("T_" + v.name)` -/
def tnode (v : Name) : Name := 200 + v

/-- `is_transport_node` -/
def isTnode (n : Name) : Bool := decide (200 ≤ n) && decide (n < 300)

/-- ascending, duplicate free: the model's iteration order of a Python set of variables -/
def nsort (l : List Name) : List Name := ssort (fun a b => decide (a < b)) (dedup' l)

/-- `get_transport_nodes(graph)` -/
def transportNodes (G : MG Name) : List Name := G.nodes.filter isTnode
/-- `get_regular_nodes(graph)` -/
def regularNodes (G : MG Name) : List Name := G.nodes.filter (fun n => !isTnode n)

def popVar (p : Pop) : Var := Var.plain p

/-! ### d-separation as TRSO uses it (`are_d_separated`, conditional_independencies.py:203-256) -/

/-- the separation test TRSO is parametric in: graph, left, right, conditions -/
abbrev SepTest := MG Name → Name → Name → List Name → Except Err Bool

/-- `are_d_separated(graph, a, b, conditions=…)`: `KeyError` for arguments outside the graph; ancestral subgraph,
moralise, disorient, delete the conditions, reachability -/
def dSeparated : SepTest := fun G a b conds =>
  if a ∉ G.nodes then .error (.internal "KeyError")
  else if b ∉ G.nodes then .error (.internal "KeyError")
  else if !conds.all (· ∈ G.nodes) then .error (.internal "KeyError")
  else do
    let keep ← G.ancestorsInclusive (nsort (a :: b :: conds))
    let ev := ((G.subgraph keep).moralize).disorient
    let ev := ev.subgraph (ev.nodes.filter (· ∉ conds))
    -- `nx.has_path(evidence_graph, a, b)`; both endpoints are nodes unless they are conditions
    if a ∉ ev.nodes || b ∉ ev.nodes then .error (.internal "NodeNotFound")
    else pure (!(decide (b ∈ MG.closure ev.biNbrs (ev.nodes.length + 1) [a])))

def lookup {β} (l : List (Pop × β)) (d : Pop) : Except Err β :=
  match l.find? (fun p => p.1 = d) with
  | some p => .ok p.2
  | none => .error (.internal "KeyError")

/-- `d[k] = v` on an insertion-ordered dict -/
def assign {β} (l : List (Pop × β)) (d : Pop) (v : β) : List (Pop × β) :=
  if l.any (fun p => p.1 = d) then l.map (fun p => if p.1 = d then (d, v) else p) else l ++ [(d, v)]

/-! ### selection diagrams -/

/-- `get_nodes_to_transport(surrogate_interventions=Z, surrogate_outcomes=W, graph=G)` -/
def getNodesToTransport (G : MG Name) (Z W : List Name) : Except Err (List Name) := do
  let cW := (G.districts.filter (fun d => d.any (· ∈ W))).flatten
  let anW ← (G.removeInEdges Z).ancestorsInclusive W
  let deZ ← G.descendantsInclusive Z
  pure (nsort (diff' deZ W ++ diff' cW anW))

/-- `create_transport_diagram(nodes_to_transport=ns, graph=G)` -/
def createTransportDiagram (G : MG Name) (ns : List Name) : MG Name :=
  (nsort ns).foldl (fun g v => g.addDi (tnode v, v)) G

/-- `surrogate_to_transport`: the per-domain diagrams (insertion order of `surrogate_outcomes`), target last.
`ValueError` when the two dictionaries have different keys. -/
def surrogateToTransport (G : MG Name) (outcomes interventions : List (Pop × List Name)) :
    Except Err (List (Pop × MG Name)) :=
  if !seteq' (outcomes.map (·.1)) (interventions.map (·.1)) then .error (.invalidInput "ValueError")
  else do
    let gs ← outcomes.mapM fun (d, W) =>
      match interventions.find? (fun p => p.1 = d) with
      | none => Except.error (Err.internal "KeyError")
      | some (_, Z) => do
          let ns ← getNodesToTransport G Z W
          pure (d, createTransportDiagram G ns)
    pure (assign gs targetPop G)

/-! ### queries -/

/-- `TRSOQuery` (the field `domains` is never read by the algorithm) -/
structure Query where
  X : List Name
  Y : List Name
  expr : Expr
  active : List Name
  domain : Pop
  graphs : List (Pop × MG Name)
  surr : List (Pop × List Name)
  deriving Inhabited

def Query.graph (q : Query) : Except Err (MG Name) := lookup q.graphs q.domain

/-- recursion budget: generous for every run that starts in `identify_target_outcomes` -/
def Query.fuel (q : Query) : Nat :=
  let m := (q.graphs.map (fun p => p.2.nodes.length)).foldl max 0
  4 * (m + 2) * (m + 2)

/-- `trso_line1` -/
def line1 (Y : List Name) (e : Expr) (G : MG Name) : Expr :=
  sumSafe e (plainVars (diff' (regularNodes G) Y))

/-- line 2's re-tagging: a bare `PopulationProbability` gets `population = query.domain` and loses its parents;
a `Probability` without population raises `TypeError` -/
def retag (dom : Pop) : Expr → Except Err Expr
  | .prob (some _) c _ => .ok (.prob (some (popVar dom)) c [])
  | .prob none _ _ => .error (.internal "TypeError")
  | e => .ok e

/-- `trso_line2(query, outcomes_ancestors)` -/
def line2 (q : Query) (anc : List Name) : Except Err Query := do
  let graphs ← q.graphs.mapM fun (d, g) => do
    let a ← g.ancestorsInclusive q.Y
    pure (d, g.subgraph (nsort a))
  let g ← q.graph
  let e ← retag q.domain (sumSafe q.expr (plainVars (diff' (regularNodes g) anc)) true)
  pure { q with X := inter' q.X anc, graphs := graphs, expr := e }

/-- `graph.get_no_effect_on_outcomes(X, Y)` -/
def noEffectOnOutcomes (G : MG Name) (X Y : List Name) : Except Err (List Name) := do
  let a ← (G.removeInEdges X).ancestorsInclusive Y
  pure (G.nodes.filter (fun v => v ∉ X ∧ v ∉ a))

/-- `trso_line3` -/
def line3 (q : Query) (extra : List Name) : Query := { q with X := nsort (q.X ++ extra) }

/-- `trso_line4`: one sub-query per c-component of `G \ X` -/
def line4 (q : Query) (G : MG Name) (components : List (List Name)) : List Query :=
  components.map fun c => { q with Y := nsort c, X := diff' (regularNodes G) c }

/-- `all_transports_d_separated(graph, X, Y)` -/
def allTransportsDSeparated (sep : SepTest) (G : MG Name) (X Y : List Name) : Except Err Bool := do
  let g := G.removeInEdges X
  let rs ← (transportNodes G).mapM fun t =>
    if t ∈ g.nodes then Y.mapM (fun y => sep g t y X) else pure []
  pure (rs.all (fun r => r.all id))

/-- the sub-query of line 6 for domain `d` with experiments `Z` -/
def line6Query (q : Query) (d : Pop) (G : MG Name) (Z : List Name) : Query :=
  { q with X := diff' q.X Z, domain := d, graphs := assign q.graphs d (G.removeNodes (inter' Z q.X)),
           active := nsort (inter' Z q.X) }

/-- `_line_6_helper(query, domain, graph)`: the separation test is evaluated only when the domain has an
experiment on some target intervention -/
def line6Helper (sep : SepTest) (q : Query) (d : Pop) (G : MG Name) : Except Err (Option Query) :=
  match lookup q.surr d with
  | .error e => .error e
  | .ok Z =>
    if (inter' Z q.X).isEmpty then .ok none
    else match allTransportsDSeparated sep G q.X q.Y with
      | .error e => .error e
      | .ok false => .ok none
      | .ok true => .ok (some (line6Query q d G Z))

/-- `trso_line6`: the sub-queries of the usable source domains, in dictionary order -/
def line6 (sep : SepTest) (q : Query) : Except Err (List (Pop × Query)) := do
  let rs ← (q.graphs.filter (fun p => p.1 ≠ targetPop)).mapM fun (d, g) => do
    pure (d, ← line6Helper sep q d g)
  pure (rs.filterMap fun (d, o) => o.map (fun s => (d, s)))

/-- `activate_domain_and_interventions(expression, interventions, domain)` -/
def activate (zs : List Name) (d : Pop) : Expr → Except Err Expr
  | .prob none _ _ => .error (.internal "TypeError")
  | .prob (some _) c p => do
      let children := c.filter (fun v => !(zs.any fun z => decide (Var.plain z = v)))
      if children.isEmpty then pure .one
      else
        let ivs := zs.map Var.plain
        let c' ← interveneVars ivs (sortVars children)
        let p' ← interveneVars ivs (sortVars (p.filter (fun v => !(zs.any fun z => decide (Var.plain z = v)))))
        pure (.prob (some (popVar d)) c' p')
  | .sum e r => do pure (sumSafe (← activate zs d e) r)
  | .frac n dn => do
      let n' ← activate zs d n
      let d' ← activate zs d dn
      match ← truediv n' d' with
      | .frac a b => fracSimplify a b
      | r => pure r
  | .prod fs => do pure (productSafe (← activateList zs d fs))
  | _ => .error (.internal "NotImplementedError")
where
  activateList (zs : List Name) (d : Pop) : List Expr → Except Err (List Expr)
    | [] => .ok []
    | e :: es => do pure ((← activate zs d e) :: (← activateList zs d es))

/-- the regular nodes of `graph.topological_sort()` -/
def regularOrder (G : MG Name) : Except Err (List Name) := do
  pure ((← G.topologicalSort).filter (fun n => !isTnode n))

/-- `Σ_{later than node}` and `Σ_{node and later}` of the carried expression: the two halves of one factor of
Tian's c-factor formula, for the node at position `i` of `order` -/
def ratioParts (e : Expr) (order : List Name) (i : Nat) : Expr × Expr :=
  (sumSafe e (plainVars (order.drop (i + 1))), sumSafe e (plainVars (order.drop i)))

def indexOf? (l : List Name) (v : Name) : Except Err Nat :=
  match l.findIdx? (· = v) with
  | some i => .ok i
  | none => .error (.internal "ValueError")

/-- `trso_line9(query, district)` -/
def line9 (q : Query) (G : MG Name) (district : List Name) : Except Err Expr :=
  if isZero q.expr then .error (.internal "RuntimeError")
  else do
    let order ← regularOrder G
    let prod ← (nsort district).foldlM (fun (acc : Expr) node => do
        let i ← indexOf? order node
        let fr ← truediv (ratioParts q.expr order i).1 (ratioParts q.expr order i).2
        mul acc fr) Expr.one
    let prod ← simplifyCast prod
    pure (sumSafe prod (plainVars (diff' district q.Y)))

/-- one factor of line 10 -/
def line10Factor (q : Query) (order : List Name) (carriedIsJoint : Bool) (node : Name) : Except Err Expr := do
  let i ← indexOf? order node
  if carriedIsJoint then
    pure (Expr.prob (some (popVar q.domain)) [Var.plain node] (plainVars (order.take i)))
  else
    truediv (ratioParts q.expr order i).1 (ratioParts q.expr order i).2

/-- `trso_line10(query, district, new_surrogate_interventions)` -/
def line10 (q : Query) (G : MG Name) (district : List Name) (surr : List (Pop × List Name)) : Except Err Query := do
  let order ← regularOrder G
  let carriedIsJoint := match q.expr with | .prob (some _) _ [] => true | _ => false
  let factors ← (nsort district).mapM (line10Factor q order carriedIsJoint)
  let e ← canonicalize (productSafe factors)
  pure { q with X := inter' q.X district, expr := e, graphs := assign q.graphs q.domain (G.subgraph (nsort district)),
                surr := surr }

/-- `_pillow_has_transport` -/
def pillowHasTransport (G : MG Name) (district : List Name) : Except Err Bool := do
  pure ((← G.markovPillow district).any isTnode)

/-- sequential evaluation of the line-4 sub-results: the first error or the first `None` ends the loop -/
def collectTerms : List (Except Err (Option Expr)) → Except Err (Option (List Expr))
  | [] => .ok (some [])
  | .error e :: _ => .error e
  | .ok none :: _ => .ok none
  | .ok (some t) :: rest => do
      match ← collectTerms rest with
      | none => pure none
      | some ts => pure (some (t :: ts))

/-! ### the recursion, one block per algorithm line; `rec` is the recursive call with the remaining budget -/

abbrev Rec := Query → Except Err (Option Expr)

/-- line 1 -/
def step1 (q : Query) (G : MG Name) : Except Err (Option Expr) := do
  pure (some (← canonicalize (line1 q.Y q.expr G)))

/-- line 2 -/
def step2 (rec : Rec) (q : Query) (anc : List Name) : Except Err (Option Expr) := do
  let q' ← line2 q anc
  c14nSafe (← rec q')

/-- line 3 -/
def step3 (rec : Rec) (q : Query) (extra : List Name) : Except Err (Option Expr) := do
  c14nSafe (← rec (line3 q extra))

/-- line 4: one recursive call per c-component of `G \ X`, product of the results, sum over the rest -/
def step4 (rec : Rec) (q : Query) (G : MG Name) (dwi : List (List Name)) : Except Err (Option Expr) := do
  match ← collectTerms ((line4 q G dwi).map rec) with
  | none => pure none
  | some terms =>
    let summand ← canonicalize (productSafe terms)
    pure (some (← canonicalize (sumSafe summand (plainVars (diff' (regularNodes G) (q.X ++ q.Y))))))

/-- lines 6 and 7: try every source domain whose selection nodes are separated from the outcomes; the first
domain (dictionary order) that yields an estimand wins.  `none`: go on to line 8. -/
def step67 (sep : SepTest) (rec : Rec) (q : Query) : Except Err (Option Expr) :=
  if q.active.isEmpty && !q.surr.isEmpty then do
    let subs ← line6 sep q
    let rs ← subs.mapM fun (d, s) => do
      match ← rec s with
      | none => pure none
      | some e => pure (some (← activate s.active d e))
    pure (rs.filterMap id).head?
  else pure none

/-- which experiments stay usable after line 10: none when the run is still in the target domain; inside a source
domain line 10 is refused (`none`) when a selection node points into the district -/
def line10Surr (q : Query) (G : MG Name) (c' : List Name) : Except Err (Option (List (Pop × List Name))) :=
  if q.active.isEmpty then .ok (some [])
  else match pillowHasTransport G c' with
    | .error e => .error e
    | .ok true => .ok none
    | .ok false => .ok (some q.surr)

/-- lines 8-11 -/
def step811 (rec : Rec) (q : Query) (G : MG Name) (dwi : List (List Name)) : Except Err (Option Expr) :=
  if G.districts.length ≤ 1 then .ok none
  else match dwi with
    | [] => .error (.internal "RuntimeError")
    | c :: _ =>
      if G.districts.any (fun d => seteq' d c) then do
        let e9 ← line9 q G c
        pure (some (← canonicalize e9))
      else
        -- line 10
        match G.districts.filter (fun d => subset' c d) with
        | [c'] => do
          match ← line10Surr q G c' with
          | none => pure none
          | some s =>
            let q' ← line10 q G c' s
            c14nSafe (← rec q')
        | _ => .error (.internal "RuntimeError")

/-- `trso(query)` with an explicit recursion budget -/
def trsoF (sep : SepTest) : Nat → Query → Except Err (Option Expr)
  | 0, _ => .error (.internal "RecursionError")
  | fuel + 1, q => do
    let G ← q.graph
    if q.X.isEmpty then step1 q G else do
    let anc ← G.ancestorsInclusive q.Y
    if !(diff' (regularNodes G) anc).isEmpty then step2 (trsoF sep fuel) q anc else do
    let extra ← noEffectOnOutcomes G q.X q.Y
    if !extra.isEmpty then step3 (trsoF sep fuel) q extra else do
    let dwi := (G.removeNodes q.X).districts
    if dwi.length > 1 then step4 (trsoF sep fuel) q G dwi else do
    match ← step67 sep (trsoF sep fuel) q with
    | some e => pure (some (← canonicalize e))
    | none => step811 (trsoF sep fuel) q G dwi

/-- `trso(query)` -/
def trso (sep : SepTest) (q : Query) : Except Err (Option Expr) := trsoF sep q.fuel q

/-- what `identify_target_outcomes` validates (every failed check raises the documented `ValueError`):
the four `check_and_raise_missing` calls, outcomes and interventions disjoint, the two dictionaries have the same
keys (`surrogate_to_transport`), and the graph has a node (`Distribution` needs a child) -/
def validInput (G : MG Name) (Y X : List Name) (outcomes interventions : List (Pop × List Name)) : Bool :=
  Y.all (· ∈ G.nodes) && X.all (· ∈ G.nodes) && (outcomes.flatMap (·.2)).all (· ∈ G.nodes) &&
  (interventions.flatMap (·.2)).all (· ∈ G.nodes) && (inter' Y X).isEmpty &&
  seteq' (outcomes.map (·.1)) (interventions.map (·.1)) && !G.nodes.isEmpty

/-- the `TRSOQuery` built by `identify_target_outcomes` -/
def initialQuery (G : MG Name) (Y X : List Name) (graphs : List (Pop × MG Name)) (interventions : List (Pop × List Name)) :
    Query :=
  { X := nsort X, Y := nsort Y, expr := .prob (some (popVar targetPop)) (plainVars G.nodes) [],
    active := [], domain := targetPop, graphs := graphs, surr := interventions }

/-- `identify_target_outcomes(graph, target_outcomes=Y, target_interventions=X, surrogate_outcomes, surrogate_interventions)` -/
def identifyTargetOutcomes (sep : SepTest) (G : MG Name) (Y X : List Name)
    (outcomes interventions : List (Pop × List Name)) : Except Err (Option Expr) :=
  if !validInput G Y X outcomes interventions then .error (.invalidInput "ValueError")
  else match surrogateToTransport G outcomes interventions with
    | .error e => .error e
    | .ok graphs => trso sep (initialQuery G Y X graphs interventions)

end Trso
end Y0
