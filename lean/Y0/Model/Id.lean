/-
  Y0.Model.Id — executable model of the ID algorithm
  (src/y0/algorithm/identify/id_std.py, utils.py `Identification`, api.py `identify_outcomes`).

  * `IdIn`            the `Identification` record (graph, treatments, outcomes, carried estimand)
  * `step`            one pass through the body of `identify`, branch for branch: which line fires and
                      what it returns / recurses on (non-recursive)
  * `idAlg`           `identify`: well-founded recursion on the explicit measure
                      `(|V|, |V ∖ X|)` (lexicographic).  Core Lean cannot see that the measure decreases
                      (the argument needs the graph lemmas, which live in Mathlib-importing files), so each
                      recursive call is guarded by a run-time comparison of the measures whose failure is
                      the outcome `internal "measure"`; theorem `Y0.idAlg_measure_ok` (Props/C02) proves the
                      guard never fires.  That theorem *is* the termination argument of the Python.
  * `identifyOutcomes` the public wrapper: `Unidentifiable` becomes `none`.

  Choices the Python leaves to set-iteration order / networkx are parameters or irrelevant:
  * `topo : MG Name → Except Err (List Name)` stands for `graph.topological_sort()` (the graph inside an
    `Identification` is rebuilt from a *set* of nodes, so the order networkx returns depends on the hash
    seed).  The theorems hold for every `topo` that returns linear extensions; the driver feeds the
    orders observed in the real run.
  * sets are lists; only membership matters; every expression constructor sorts its arguments.
-/
import Y0.Model.Graph
import Y0.Model.IdDsl

namespace Y0
open IdDsl

/-- `Identification` (utils.py): query (outcomes `Y`, treatments `X`), graph, carried estimand -/
structure IdIn where
  G : MG Name
  X : List Name
  Y : List Name
  est : Expr
  deriving Inhabited

/-- `nx.is_connected(self.undirected)`: exactly one district; `NetworkXPointlessConcept` on the null graph -/
def MG.isConnected (G : MG Name) : Except Err Bool :=
  if G.nodes.isEmpty then .error (.internal "NetworkXPointlessConcept")
  else .ok (G.districts.length == 1)

/-- `_get_single_district` -/
def getSingleDistrict (G : MG Name) : Except Err (List Name) :=
  match G.districts with
  | [d] => .ok d
  | _ => .error (.internal "RuntimeError")

/-- `ordering.index(child)`; `ValueError` when absent -/
def orderIndex? (order : List Name) (v : Name) : Except Err Nat :=
  if v ∈ order then .ok (order.takeWhile (· ≠ v)).length else .error (.internal "ValueError")

/-- `_is_observational_marginal(estimand)` (`fix:` F3): nested sums over a plain joint `P(…)`
(`type(estimand) is Probability and not estimand.parents`) -/
def isObsMarginal : Expr → Bool
  | .sum e _ => isObsMarginal e
  | .prob none _ [] => true
  | _ => false

/-- `p_parents(child, ordering, estimand)` (after `fix:` F3): the conditional of `child` given its
predecessors, read off the carried estimand; written `P(child | predecessors)` when the estimand is (a
marginal of) the observational joint -/
def pParents (order : List Name) (est : Expr) (child : Name) : Except Err Expr := do
  let i ← orderIndex? order child
  if isObsMarginal est then pure (pCond child (order.take i))
  else div (sumSafe est (order.drop (i + 1))) (sumSafe est (order.drop i))

/-- proper subset of node sets (`frozenset.__lt__`) -/
def properSubset (a b : List Name) : Bool := subset' a b && !subset' b a

/-- what one pass through `identify` does -/
inductive Step where
  /-- lines 1 and 6: an expression is returned -/
  | done (e : Expr)
  /-- lines 2, 3 and 7: `return identify(J)` -/
  | tail (J : IdIn)
  /-- line 4: `Sum.safe(Product.safe(map(identify, Js)), ranges)` -/
  | split (Js : List IdIn) (ranges : List Name)
  deriving Inhabited

/-- line 2: `Identification.from_parts(outcomes, treatments & An(Y), Sum.safe(estimand, V - An(Y)), G[An(Y)])` -/
def line2 (I : IdIn) (anc : List Name) : IdIn :=
  { G := I.G.subgraph anc, X := inter' I.X anc, Y := I.Y, est := sumSafe I.est (diff' I.G.nodes anc) }

/-- line 3: `identification.with_treatments(no_effect_on_outcome)` -/
def line3 (I : IdIn) (noEffect : List Name) : IdIn := { I with X := union' I.X noEffect }

/-- line 4: one sub-problem per district `S` of `G - X`: outcomes `S`, treatments `V - S`, same estimand and graph -/
def line4 (I : IdIn) (ds : List (List Name)) : Step :=
  .split (ds.map fun S => { G := I.G, X := diff' I.G.nodes S, Y := S, est := I.est })
    (diff' I.G.nodes (union' I.Y I.X))

/-- line 6: `Sum.safe(Product.safe(p_parents(v, topological order) for v in S), S - Y)` -/
def line6 (topo : MG Name → Except Err (List Name)) (I : IdIn) (S : List Name) : Except Err Step := do
  let order ← topo I.G
  let fs ← S.mapM (pParents order I.est)
  pure (.done (sumSafe (productSafe fs) (diff' S I.Y)))

/-- line 7: the first district `D` of `G` with `S < D`; recurse on `G[D]` with the estimand
`Product.safe(p_parents(v, topological order) for v in D)` -/
def line7 (topo : MG Name → Except Err (List Name)) (I : IdIn) (S : List Name) : Except Err Step :=
  match I.G.districts.find? (fun D => properSubset S D) with
  | some D => do
    let order ← topo I.G
    let fs ← D.mapM (pParents order I.est)
    pure (.tail { G := I.G.subgraph D, X := inter' I.X D, Y := I.Y, est := productSafe fs })
  | none => .error (.internal "ValueError")

/-- lines 4-7 of `identify` -/
def stepB (topo : MG Name → Except Err (List Name)) (I : IdIn) : Except Err Step :=
  let Gx := I.G.removeNodes I.X
  match Gx.isConnected with
  | .error e => .error e
  | .ok false => .ok (line4 I Gx.districts)                 -- line 4
  | .ok true =>
    match I.G.isConnected with
    | .error e => .error e
    | .ok true => .error .unidentifiable                      -- line 5
    | .ok false =>
      match getSingleDistrict Gx with
      | .error e => .error e
      | .ok S =>
        if I.G.districts.any (fun D => seteq' D S) then line6 topo I S    -- line 6
        else line7 topo I S                                               -- line 7

/-- the body of `identify` (id_std.py:14-70) up to the recursive calls -/
def step (topo : MG Name → Except Err (List Name)) (I : IdIn) : Except Err Step :=
  -- line 1
  if I.X.isEmpty then .ok (.done (sumSafe I.est (diff' I.G.nodes I.Y)))
  else
    -- line 2
    match I.G.ancestorsInclusive I.Y with
    | .error e => .error e
    | .ok anc =>
      if !(diff' I.G.nodes anc).isEmpty then .ok (.tail (line2 I anc))
      else
        -- line 3
        match (I.G.removeInEdges I.X).ancestorsInclusive I.Y with
        | .error e => .error e
        | .ok anc' =>
          let noEffect := diff' (diff' I.G.nodes I.X) anc'
          if !noEffect.isEmpty then .ok (.tail (line3 I noEffect))
          else stepB topo I

/-- the termination measure `(|V|, |V ∖ X|)` -/
def IdIn.measure (I : IdIn) : Nat × Nat := (I.G.nodes.length, (diff' I.G.nodes I.X).length)

def measureLt (a b : Nat × Nat) : Bool := a.1 < b.1 || (a.1 == b.1 && a.2 < b.2)

theorem measureLt_lex {a b : Nat × Nat} (h : measureLt a b = true) : Prod.Lex (· < ·) (· < ·) a b := by
  obtain ⟨a1, a2⟩ := a
  obtain ⟨b1, b2⟩ := b
  simp only [measureLt, Bool.or_eq_true, decide_eq_true_eq, Bool.and_eq_true, beq_iff_eq] at h
  rcases h with h | ⟨h1, h2⟩
  · exact Prod.Lex.left _ _ h
  · subst h1; exact Prod.Lex.right _ h2

/-- `identify` (id_std.py:14-70) -/
def idAlg (topo : MG Name → Except Err (List Name)) (I : IdIn) : Except Err Expr := do
  match ← step topo I with
  | .done e => pure e
  | .tail J =>
    if h : measureLt J.measure I.measure = true then idAlg topo J
    else throw (.internal "measure")
  | .split Js ranges =>
    if h : Js.all (fun J => measureLt J.measure I.measure) = true then
      let es ← Js.attach.mapM (fun ⟨J, _⟩ => idAlg topo J)
      pure (sumSafe (productSafe es) ranges)
    else throw (.internal "measure")
termination_by I.measure
decreasing_by
  · exact measureLt_lex h
  · exact measureLt_lex (List.all_eq_true.mp h J (by assumption))

/-- `Identification(query, graph)` with the default estimand `P(graph.nodes())` followed by `identify` -/
def identify (topo : MG Name → Except Err (List Name)) (G : MG Name) (X Y : List Name) : Except Err Expr := do
  let est ← pJoint G.nodes
  idAlg topo { G := G, X := X, Y := Y, est := est }

/-- `identify_outcomes(graph, treatments, outcomes)` (api.py): `Unidentifiable` becomes `None` -/
def identifyOutcomes (topo : MG Name → Except Err (List Name)) (G : MG Name) (X Y : List Name) :
    Except Err (Option Expr) :=
  match identify topo G X Y with
  | .ok e => .ok (some e)
  | .error .unidentifiable => .ok none
  | .error e => .error e

end Y0
