/-
  Y0.Model.Id — executable model of the ID algorithm
  (src/y0/algorithm/identify/id_std.py, utils.py `Identification`, api.py `identify_outcomes`).

  * `IdIn`            the `Identification` record (graph, treatments, outcomes, carried estimand)
  * `step`            one pass through the body of `identify`, branch for branch: which line fires and
                      what it returns / recurses on (non-recursive)
  * `idAlg`           `identify`: well-founded recursion on the explicit measure
                      `(|V|, |V ∖ X|)` (lexicographic).  Core Lean cannot see that the measure decreases
                      (the argument needs the graph lemmas, which live in Mathlib-importing files), so each
                      recursive call is guarded by a run-time comparison of the measures whose failure is
                      the outcome `internal "measure"`; theorem `Y0.idAlg_measure_ok` (Props/C02) proves the
                      guard never fires.  That theorem *is* the termination argument of the Python.
  * `identifyOutcomes` the public wrapper: `Unidentifiable` becomes `none`.

  Choices the Python leaves to set-iteration order / networkx are parameters or irrelevant:
  * `topo : MG Name → Except Err (List Name)` stands for `graph.topological_sort()` (the graph inside an
    `Identification` is rebuilt from a *set* of nodes, so the order networkx returns depends on the hash
    seed).  The theorems hold for every `topo` that returns linear extensions; the driver feeds the
    orders observed in the real run.
  * sets are lists; only membership matters; every expression constructor sorts its arguments.
-/
import Y0.Model.Graph
import Y0.Model.IdDsl

namespace Y0
open IdDsl

/-- `Identification` (utils.py): query (outcomes `Y`, treatments `X`), graph, carried estimand -/
structure IdIn where
  G : MG Name
  X : List Name
  Y : List Name
  est : Expr
  deriving Inhabited

/-- `nx.is_connected(self.undirected)`: exactly one district; `NetworkXPointlessConcept` on the null graph -/
def MG.isConnected (G : MG Name) : Except Err Bool :=
  if G.nodes.isEmpty then .error (.internal "NetworkXPointlessConcept")
  else .ok (G.districts.length == 1)

/-- `_get_single_district` -/
def getSingleDistrict (G : MG Name) : Except Err (List Name) :=
  match G.districts with
  | [d] => .ok d
  | _ => .error (.internal "RuntimeError")

/-- `ordering.index(child)`; `ValueError` when absent -/
def indexOf? (order : List Name) (v : Name) : Except Err Nat :=
  if v ∈ order then .ok (order.takeWhile (· ≠ v)).length else .error (.internal "ValueError")

/-- `_is_observational_marginal(estimand)` (`fix:` F3): nested sums over a plain joint `P(…)`
(`type(estimand) is Probability and not estimand.parents`) -/
def isObsMarginal : Expr → Bool
  | .sum e _ => isObsMarginal e
  | .prob none _ [] => true
  | _ => false

/-- `p_parents(child, ordering, estimand)` (after `fix:` F3): the conditional of `child` given its
predecessors, read off the carried estimand; written `P(child | predecessors)` when the estimand is (a
marginal of) the observational joint -/
def pParents (order : List Name) (est : Expr) (child : Name) : Except Err Expr := do
  let i ← indexOf? order child
  if isObsMarginal est then pure (pCond child (order.take i))
  else div (sumSafe est (order.drop (i + 1))) (sumSafe est (order.drop i))

/-- proper subset of node sets (`frozenset.__lt__`) -/
def properSubset (a b : List Name) : Bool := subset' a b && !subset' b a

/-- what one pass through `identify` does -/
inductive Step where
  /-- lines 1 and 6: an expression is returned -/
  | done (e : Expr)
  /-- lines 2, 3 and 7: `return identify(J)` -/
  | tail (J : IdIn)
  /-- line 4: `Sum.safe(Product.safe(map(identify, Js)), ranges)` -/
  | split (Js : List IdIn) (ranges : List Name)
  deriving Inhabited

/-- the body of `identify` (id_std.py:14-70) up to the recursive calls -/
def step (topo : MG Name → Except Err (List Name)) (I : IdIn) : Except Err Step := do
  let V := I.G.nodes
  -- line 1
  if I.X.isEmpty then
    return .done (sumSafe I.est (diff' V I.Y))
  -- line 2
  let anc ← I.G.ancestorsInclusive I.Y
  let notAnc := diff' V anc
  if !notAnc.isEmpty then
    return .tail { G := I.G.subgraph anc, X := inter' I.X anc, Y := I.Y, est := sumSafe I.est notAnc }
  -- line 3
  let anc' ← (I.G.removeInEdges I.X).ancestorsInclusive I.Y
  let noEffect := diff' (diff' V I.X) anc'
  if !noEffect.isEmpty then
    return .tail { I with X := union' I.X noEffect }
  -- line 4
  let Gx := I.G.removeNodes I.X
  if !(← Gx.isConnected) then
    return .split (Gx.districts.map fun S => { G := I.G, X := diff' V S, Y := S, est := I.est })
      (diff' V (union' I.Y I.X))
  -- line 5
  if ← I.G.isConnected then
    throw .unidentifiable
  -- line 6
  let S ← getSingleDistrict Gx
  if I.G.districts.any (fun D => seteq' D S) then
    let order ← topo I.G
    let fs ← S.mapM (pParents order I.est)
    return .done (sumSafe (productSafe fs) (diff' S I.Y))
  -- line 7
  match I.G.districts.find? (fun D => properSubset S D) with
  | some D =>
    let order ← topo I.G
    let fs ← D.mapM (pParents order I.est)
    return .tail { G := I.G.subgraph D, X := inter' I.X D, Y := I.Y, est := productSafe fs }
  | none => throw (.internal "ValueError")

/-- the termination measure `(|V|, |V ∖ X|)` -/
def IdIn.measure (I : IdIn) : Nat × Nat := (I.G.nodes.length, (diff' I.G.nodes I.X).length)

def measureLt (a b : Nat × Nat) : Bool := a.1 < b.1 || (a.1 == b.1 && a.2 < b.2)

theorem measureLt_lex {a b : Nat × Nat} (h : measureLt a b = true) : Prod.Lex (· < ·) (· < ·) a b := by
  obtain ⟨a1, a2⟩ := a
  obtain ⟨b1, b2⟩ := b
  simp only [measureLt, Bool.or_eq_true, decide_eq_true_eq, Bool.and_eq_true, beq_iff_eq] at h
  rcases h with h | ⟨h1, h2⟩
  · exact Prod.Lex.left _ _ h
  · subst h1; exact Prod.Lex.right _ h2

/-- `identify` (id_std.py:14-70) -/
def idAlg (topo : MG Name → Except Err (List Name)) (I : IdIn) : Except Err Expr := do
  match ← step topo I with
  | .done e => pure e
  | .tail J =>
    if h : measureLt J.measure I.measure = true then idAlg topo J
    else throw (.internal "measure")
  | .split Js ranges =>
    if h : Js.all (fun J => measureLt J.measure I.measure) = true then
      let es ← Js.attach.mapM (fun ⟨J, _⟩ => idAlg topo J)
      pure (sumSafe (productSafe es) ranges)
    else throw (.internal "measure")
termination_by I.measure
decreasing_by
  · exact measureLt_lex h
  · exact measureLt_lex (List.all_eq_true.mp h J (by assumption))

/-- `Identification(query, graph)` with the default estimand `P(graph.nodes())` followed by `identify` -/
def identify (topo : MG Name → Except Err (List Name)) (G : MG Name) (X Y : List Name) : Except Err Expr := do
  let est ← pJoint G.nodes
  idAlg topo { G := G, X := X, Y := Y, est := est }

/-- `identify_outcomes(graph, treatments, outcomes)` (api.py): `Unidentifiable` becomes `None` -/
def identifyOutcomes (topo : MG Name → Except Err (List Name)) (G : MG Name) (X Y : List Name) :
    Except Err (Option Expr) :=
  match identify topo G X Y with
  | .ok e => .ok (some e)
  | .error .unidentifiable => .ok none
  | .error e => .error e

end Y0
