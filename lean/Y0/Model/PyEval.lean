/-
  Y0.Model.PyEval — "Python evaluates the AST in the namespace LOCALS" (src/y0/parser/internal.py):
  an interpreter of `Y0.Ast` over models of the DSL's builders and operators (src/y0/dsl.py), i.e. together
  with `Y0.Model.PyParse` a model of `parse_y0 = eval(s, {}, LOCALS)`.

  Python                                                 model
  -----------------------------------------------------  ---------------------------------------
  LOCALS (P, PP, Sum, Q, One, Zero, TARGET_DOMAIN, names)  eval (.kw _), eval (.name _)
  Variable.__pos__/__neg__/__invert__ (+ CF overrides)    unop
  Variable/CounterfactualVariable.intervene (`@`)         varIntervene
  Distribution.intervene / joint / given (`@ & |`)        distIntervene / andOp / orOp
  Distribution.safe                                       distSafe
  Probability.safe, P[...], PP[...], PP[...][...]         callVal (.pBuilder …), subscript
  Expression._get_key + `sorted` in Product.safe          key, Key.cmp, productSafe
  the `__mul__` overloads of all seven classes            mul
  Expression/Fraction/Zero.__truediv__                    div
  Sum.safe (simplify=False), Sum[...]                     sumSafe
  QFactor.safe, Q[...]                                    qSafe

  Every Python exception is an `Except.error`; only the category is compared with the real code.
  `Err.internal "unsupported"` marks Python behaviour that is deliberately NOT modelled (objects that are
  not DSL expressions flowing through untyped code, e.g. `One() * A`); the harness never generates it.
  This file is self-contained on purpose (the `expr` family models the same constructors in
  Y0.Model.Dsl for C10/C11/C13); `C12.productSafe_agrees` reconciles the two models of `Product.safe`.
  Core Lean only.
-/
import Y0.Model.PyParse

namespace Y0
namespace PyEval

abbrev E := Except Err

def typeError (what : String) : Err := .invalidInput ("TypeError " ++ what)
def valueError (what : String) : Err := .invalidInput ("ValueError " ++ what)
def zeroDivision : Err := .invalidInput "ZeroDivisionError"
def unsupported : Err := .internal "unsupported"

/-! ### variables and distributions -/

/-- `_sorted_variables` -/
def sortedVars (vs : List Var) : List Var := sortBy Var.keyLt vs

/-- `_upgrade_ordering` on variables: `_sorted_variables(set(...))` -/
def upgradeOrdering (vs : List Var) : List Var := sortedVars (dedup' vs)

/-- `_to_interventions` -/
def toIvs (vs : List Var) : List Iv :=
  vs.map fun v =>
    match v.isIv, v.ivs, v.star with
    | true, [], some s => ⟨v.name, s⟩      -- `isinstance(variable, Intervention)`
    | _, _, _ => ⟨v.name, false⟩

/-- `CounterfactualVariable._raise_for_overlapping_interventions` -/
def overlapping (is : List Iv) : Bool :=
  is.any fun a => is.any fun b => a.name == b.name && a.star != b.star

/-- `Variable.intervene` / `CounterfactualVariable.intervene` (the `@` operator on variables) -/
def varIntervene (v : Var) (args : List Var) : E Var :=
  if v.ivs.isEmpty then
    let is := Print.normIvs (toIvs args)
    if is.isEmpty then .error (valueError "should give at least one intervention")
    else .ok { name := v.name, star := v.star, isIv := false, ivs := is }
  else
    let is := Print.normIvs (v.ivs ++ toIvs (upgradeOrdering args))
    if overlapping is then .error (valueError "Overlapping interventions")
    else .ok { v with ivs := is }

/-- `Distribution(children, parents)` with its `__post_init__` -/
def mkDist (c p : List Var) : E (List Var × List Var) :=
  if c.isEmpty then .error (valueError "distribution must have at least one child") else .ok (c, p)

/-- `Distribution.intervene` -/
def distIntervene (c p : List Var) (args : List Var) : E (List Var × List Var) := do
  let vs := upgradeOrdering args
  let c' ← c.mapM (varIntervene · vs)
  let p' ← p.mapM (varIntervene · vs)
  mkDist c' p'

/-- `Variable.__pos__`, `__neg__`, `__invert__` and the `CounterfactualVariable` overrides -/
def unopVar (op : UOp) (v : Var) : Var :=
  let s : Bool := match op with
    | .pos => true
    | .neg => false
    | .inv => match v.star with      -- `not self.star`
      | some true => false
      | _ => true
  if v.ivs.isEmpty then { name := v.name, star := some s, isIv := true, ivs := [] }
  else { v with star := some s }

/-! ### expressions: sort keys, `Product.safe`, `*`, `/`, `Sum.safe`, `QFactor.safe` -/

/-- Python values occurring in `_get_key()` tuples -/
inductive Key where
  | int (i : Int)
  | str (s : Nat)          -- names compare like their table index; "0" < "1" for `Zero`/`One`
  | var (name : Nat) (star : Option Bool)   -- the `population` of a `PopulationProbability`
  | tup (ks : List Key)
  deriving Repr, Inhabited

def starRank : Option Bool → Nat
  | none => 0
  | some false => 1
  | some true => 2

mutual
/-- three-way comparison of key values; Python raises `TypeError` where kinds differ, which does not
happen between keys of expressions of the same priority (the model then answers `eq`) -/
def Key.cmp : Key → Key → Ordering
  | .int a, .int b => compare a b
  | .str a, .str b => compare a b
  | .var a s, .var b t => (compare a b).then (compare (starRank s) (starRank t))
  | .tup as, .tup bs => Key.cmpList as bs
  | _, _ => .eq
/-- tuple comparison: first differing position decides, a proper prefix is smaller -/
def Key.cmpList : List Key → List Key → Ordering
  | [], [] => .eq
  | [], _ :: _ => .lt
  | _ :: _, [] => .gt
  | a :: as, b :: bs => (Key.cmp a b).then (Key.cmpList as bs)
end

def minName : List Var → Nat
  | [] => 0          -- Python: `min()` of an empty sequence raises; Q factors have non-empty (co)domains
  | v :: vs => vs.foldl (fun m w => min m w.name) v.name

def firstName : List Var → Nat
  | [] => 0          -- a `Distribution` has at least one child
  | v :: _ => v.name

mutual
/-- `Expression._get_key()` as a list of tuple components -/
def key : Expr → List Key
  | .prob none c _ => [.int 0, .str (firstName c)]
  | .prob (some pop) c _ => [.int (-1), .var pop.name pop.star, .str (firstName c)]
  | .sum e _ => .int 1 :: key e
  | .prod fs => .int 2 :: keys fs
  | .frac n d => [.int 3, .tup (key n), .tup (key d)]
  | .one => [.int 4, .str 1]
  | .zero => [.int 4, .str 0]
  | .q dom cod => [.int (-5), .str (minName dom), .str (minName cod)]
def keys : List Expr → List Key
  | [] => []
  | e :: es => .tup (key e) :: keys es
end

/-- `Expression.__lt__` -/
def exprLt (a b : Expr) : Bool := Key.cmpList (key a) (key b) == .lt

def isOne : Expr → Bool
  | .one => true
  | _ => false

def isZero : Expr → Bool
  | .zero => true
  | _ => false

/-! From here on everything is parametric in `lt`, the model of `Expression.__lt__` that `Product.safe` sorts with
(`exprLt` above for the pinned `_get_key`; `Expr.ltE` of Y0.Model.Dsl for the total structural key of the `expr`
family's fix).  No theorem of C12 depends on which order it is. -/

section
variable (lt : Expr → Expr → Bool)

/-- `Product.safe` on an iterable of expressions -/
def productSafe (es : List Expr) : Expr :=
  let es := es.filter (fun e => !isOne e)
  if es.any isZero then .zero
  else match es with
    | [] => .one
    | [e] => e
    | es => .prod (sortBy lt es)

/-- `Fraction(n, d)` with its `__post_init__` -/
def mkFrac (n d : Expr) : E Expr :=
  if isZero d then .error zeroDivision else .ok (.frac n d)

/-- `a.__mul__(b)` for `a` not a `Fraction` and `b` neither a `Fraction` nor handled recursively:
the non-recursive branches of the `__mul__` overloads -/
def mulFlat (a b : Expr) : Expr :=
  match a, b with
  -- Probability / PopulationProbability
  | .prob .., .zero => b
  | .prob .., .one => a
  | .prob .., .prod gs => productSafe lt (a :: gs)
  | .prob .., _ => productSafe lt [a, b]
  -- Product
  | .prod _, .zero => b
  | .prod fs, .prod gs => productSafe lt (fs ++ gs)
  | .prod fs, _ => productSafe lt (fs ++ [b])
  -- Sum
  | .sum .., .zero => b
  | .sum .., .prod gs => productSafe lt (a :: gs)
  | .sum .., _ => productSafe lt [a, b]
  -- One, Zero
  | .one, _ => b
  | .zero, _ => a
  -- QFactor
  | .q .., .prod gs => productSafe lt (a :: gs)
  | .q .., _ => productSafe lt [a, b]
  -- (a Fraction on the left is handled by `mul`)
  | .frac .., _ => productSafe lt [a, b]

/-- `a.__mul__(b)` for `a` not a `Fraction`: `Probability`, `Product` and `QFactor` push themselves into the
numerator of a `Fraction` on the right (recursion on `b`); `Sum`, `One`, `Zero` have no such branch -/
def mulNF (a : Expr) : Expr → E Expr
  | .frac n d =>
    match a with
    | .prob .. | .prod _ | .q .. => do mkFrac (← mulNF a n) d
    | _ => .ok (mulFlat lt a (.frac n d))
  | b => .ok (mulFlat lt a b)

/-- the `__mul__` overloads (`Fraction.__mul__` recurses on the left operand) -/
def mul : Expr → Expr → E Expr
  | .frac n d, b =>
    match b with
    | .zero => .ok b
    | .frac n2 d2 => do mkFrac (← mul n n2) (← mul d d2)
    | _ => do mkFrac (← mul n b) d
  | a, b => mulNF lt a b

/-- `Expression.__truediv__`, `Fraction.__truediv__`, `Zero.__truediv__` -/
def div (a b : Expr) : E Expr :=
  match a, b with
  | .zero, .zero => .error zeroDivision
  | .zero, _ => .ok a
  | .frac .., .one => .ok a
  | .frac n d, .frac n2 d2 => do mkFrac (← mul lt n d2) (← mul lt d n2)
  | .frac n d, _ => do mkFrac n (← mul lt d b)
  | _, .one => .ok a
  | _, .frac n2 d2 => do mkFrac (← mul lt a d2) n2
  | _, _ => mkFrac a b

end

/-- `Sum.safe(expression, ranges)` with `ranges` already a tuple of variables; `simplify=False` -/
def sumSafe (e : Expr) (ranges : List Var) : E Expr :=
  let rs := upgradeOrdering ranges
  if rs.isEmpty then .ok e
  else if isZero e then .ok e
  else if rs.any (fun r => r.isIv || !r.ivs.isEmpty) then
    .error (typeError "Ranges must not be counterfactuals nor interventions")
  else .ok (.sum e rs)

/-! ### values and the interpreter -/

/-- the Python objects an expression over LOCALS can evaluate to -/
inductive Val where
  | var (v : Var)
  | dist (c p : List Var)
  | expr (e : Expr)
  | tuple (xs : List Val)
  | pBuilder (pop : Option Var) (ivs : Option Val)   -- `P`, `PP[pop]`, `P[ivs]`, `PP[pop][ivs]`
  | ppClass
  | sumClass
  | sumPartial (ranges : List Var)
  | qClass
  | qPartial (codomain : Val)
  | oneClass
  | zeroClass
  deriving Inhabited

def asVar : Val → E Var
  | .var v => .ok v
  | _ => .error (typeError "not a variable")

/-- `_upgrade_variables` on a `VariableHint` -/
def hintVars : Val → E (List Var)
  | .var v => .ok [v]
  | .tuple xs => xs.mapM asVar
  | _ => .error (typeError "not a variable or an iterable of variables")

/-- the left operand of `|` / `&`: a variable (a distribution over it) or a distribution -/
def asDist (what : String) : Val → E (List Var × List Var)
  | .var v => .ok ([v], [])
  | .dist c p => .ok (c, p)
  | _ => .error (typeError what)

/-- `Variable.given` / `Distribution.given` (`|`) -/
def orOp (a b : Val) : E Val := do
  let (c, p) ← asDist "unsupported operand type(s) for |" a
  match b with
  | .dist c2 p2 =>
    if !p2.isEmpty then .error (typeError "can not be given a distribution that has conditionals")
    else do let d ← mkDist c (p ++ c2); pure (.dist d.1 d.2)
  | _ => do
    let ps ← hintVars b
    let d ← mkDist c (upgradeOrdering (p ++ ps))
    pure (.dist d.1 d.2)

/-- `Variable.joint` / `Distribution.joint` (`&`) -/
def andOp (a b : Val) : E Val := do
  let (c, p) ← asDist "unsupported operand type(s) for &" a
  let cs ← hintVars b
  let d ← mkDist (upgradeOrdering (c ++ cs)) p
  pure (.dist d.1 d.2)

def isDistVal : Val → Bool
  | .dist .. => true
  | _ => false

/-- `Distribution.safe`, first argument a variable or a distribution: `extended_args = [distribution, *args]` -/
def distSafeExt (ext : List Val) : E (List Var × List Var) :=
  match (ext.filter isDistVal).length with
  | 0 => do mkDist (upgradeOrdering (← ext.mapM asVar)) []
  | 1 =>
    let pre := ext.takeWhile (fun x => !isDistVal x)
    match ext.dropWhile (fun x => !isDistVal x) with
    | .dist dc dp :: post => do
      let pre' ← pre.mapM asVar
      let post' ← post.mapM asVar
      mkDist (sortedVars (upgradeOrdering pre' ++ dc)) (sortedVars (dp ++ upgradeOrdering post'))
    | _ => .error (.internal "distSafe")
  | _ => .error (valueError "can not give multiple distribution objects")

/-- `Distribution.safe(distribution, *args)` -/
def distSafe : List Val → E (List Var × List Var)
  | [] => .error (typeError "missing 1 required positional argument")
  | .tuple xs :: args =>
    if !args.isEmpty then .error (valueError "can not use args/parents when giving an iterable as first argument")
    else do mkDist (upgradeOrdering (← xs.mapM asVar)) []
  | .var v :: args => distSafeExt (.var v :: args)
  | .dist c p :: args => distSafeExt (.dist c p :: args)
  | _ :: _ => .error (typeError "not iterable")

/-- `Probability.safe(*args, interventions=ivs)` followed by the builder's own wrapping -/
def probSafe (pop : Option Var) (ivs : Option Val) (args : List Val) : E Val := do
  let (c, p) ← distSafe args
  match ivs with
  | none => pure (.expr (.prob pop c p))
  | some h => do
    let is ← hintVars h
    let (c', p') ← distIntervene c p is
    pure (.expr (.prob pop c' p'))

/-- canonical representation of a `frozenset` of variables -/
def normVars (vs : List Var) : List Var := sortBy Var.keyLt (dedup' vs)

/-- `QFactor.safe(domain, *args, codomain=cod)` -/
def qSafe (cod : Val) (args : List Val) : E Val :=
  match args with
  | [] => .error (typeError "missing 1 required positional argument")
  | .var v :: rest => do
    let rs ← rest.mapM asVar
    let c ← hintVars cod
    pure (.expr (.q (normVars (v :: upgradeOrdering rs)) (normVars c)))
  | .tuple xs :: rest =>
    if !rest.isEmpty then .error (valueError "can not use variadic arguments with combination of first arg")
    else do
      let d ← xs.mapM asVar
      let c ← hintVars cod
      pure (.expr (.q (normVars d) (normVars c)))
  | _ => .error (typeError "not iterable")

def unop (op : UOp) : Val → E Val
  | .var v => .ok (.var (unopVar op v))
  | _ => .error (typeError "bad operand type for unary operator")

section
variable (lt : Expr → Expr → Bool)

def binop (op : BOp) (a b : Val) : E Val :=
  match op with
  | .matmul =>
    match a with
    | .var v => do let r ← varIntervene v (← hintVars b); pure (.var r)
    | .dist c p => do let d ← distIntervene c p (← hintVars b); pure (.dist d.1 d.2)
    | .expr (.prob pop c p) => do let d ← distIntervene c p (← hintVars b); pure (.expr (.prob pop d.1 d.2))
    | _ => .error (typeError "unsupported operand type(s) for @")
  | .bor => orOp a b
  | .band => andOp a b
  | .mul =>
    match a, b with
    | .expr x, .expr y => do pure (.expr (← mul lt x y))
    | .expr _, _ => .error unsupported
    | _, _ => .error (typeError "unsupported operand type(s) for *")
  | .div =>
    match a, b with
    | .expr x, .expr y => do pure (.expr (← div lt x y))
    | .expr _, _ => .error unsupported
    | _, _ => .error (typeError "unsupported operand type(s) for /")
  | .add | .sub => .error (typeError "unsupported operand type(s) for + or -")

def callVal (f : Val) (args : List Val) : E Val :=
  match f with
  | .pBuilder pop ivs => probSafe pop ivs args
  | .ppClass =>
    match args with
    | [.var v] => .ok (.pBuilder (some v) none)
    | [_] => .error unsupported
    | _ => .error (typeError "PopulationProbabilityBuilderType() takes exactly one argument")
  | .sumPartial rs =>
    match args with
    | [.expr e] => do pure (.expr (← sumSafe e rs))
    | [_] => .error unsupported
    | _ => .error (typeError "Sum.safe() takes exactly one positional argument")
  | .sumClass => .error (typeError "Sum(expression, ranges): ranges must be a frozenset")
  | .qPartial cod => qSafe cod args
  | .qClass => .error unsupported
  | .oneClass => if args.isEmpty then .ok (.expr .one) else .error (typeError "One() takes no arguments")
  | .zeroClass => if args.isEmpty then .ok (.expr .zero) else .error (typeError "Zero() takes no arguments")
  | _ => .error (typeError "object is not callable")

def subscript (f : Val) (i : Val) : E Val :=
  match f with
  | .pBuilder pop none => .ok (.pBuilder pop (some i))
  | .ppClass =>
    match i with
    | .var v => .ok (.pBuilder (some v) none)
    | _ => .error unsupported
  | .sumClass => do pure (.sumPartial (upgradeOrdering (← hintVars i)))
  | .qClass => .ok (.qPartial i)
  | _ => .error (typeError "object is not subscriptable")

mutual
/-- `eval(ast, {}, LOCALS)` -/
def eval : Ast → E Val
  | .name n => .ok (.var (Var.plain n))
  | .kw .P => .ok (.pBuilder none none)
  | .kw .PP => .ok .ppClass
  | .kw .Sum => .ok .sumClass
  | .kw .Q => .ok .qClass
  | .kw .One => .ok .oneClass
  | .kw .Zero => .ok .zeroClass
  | .kw .TargetDomain => .ok (.var Print.targetDomain)
  | .tuple xs => do pure (.tuple (← evalList xs))
  | .un op a => do unop op (← eval a)
  | .bin op l r => do
    let a ← eval l
    let b ← eval r
    binop lt op a b
  | .call f args => do
    let fv ← eval f
    let as ← evalList args
    callVal fv as
  | .sub f i => do
    let fv ← eval f
    let iv ← eval i
    subscript fv iv
def evalList : List Ast → E (List Val)
  | [] => .ok []
  | a :: as => do
    let v ← eval a
    let vs ← evalList as
    pure (v :: vs)
end

/-- `parse_y0` on an AST: the result must be an `Expression` -/
def evalExpr (a : Ast) : E Expr :=
  match eval lt a with
  | .ok (.expr e) => .ok e
  | .ok _ => .error (.internal "result is not an expression")
  | .error e => .error e

/-- `parse_y0(s)` on the token list of `s` -/
def parseY0 (ts : List Tok) : E Expr :=
  match PyParse.parse ts with
  | .error e => .error (.invalidInput ("SyntaxError " ++ e))
  | .ok a => evalExpr lt a

end

/-! ### the expressions the public builders produce (`built`), and the simple-division family (`simple`)

Decidable, so that the harness can ask the model whether a Python-built object lies in the domain of the theorems
(correspondence stream `domain`). -/

/-- strictly increasing along the list -/
def incBy {α} (f : α → Nat) : List α → Bool
  | [] => true
  | [_] => true
  | x :: y :: r => decide (f x < f y) && incBy f (y :: r)

/-- no adjacent pair is in descending order: what a stable sort leaves untouched -/
def noDescent {α} (lt : α → α → Bool) : List α → Bool
  | [] => true
  | [_] => true
  | x :: y :: r => !lt y x && noDescent lt (y :: r)

/-- a variable as the operators build it: subscripts mention a name once (kept sorted); a value mark without
subscripts is an `Intervention` instance; a counterfactual variable is not -/
def canonVar (v : Var) : Bool :=
  incBy Iv.name v.ivs && (if v.ivs.isEmpty then v.isIv == v.star.isSome else !v.isIv)

/-- a plain `Variable(name)` -/
def plainVar (v : Var) : Bool := v.star.isNone && !v.isIv && v.ivs.isEmpty

def canonPop : Option Var → Bool
  | none => true
  | some v => canonVar v

def isFrac : Expr → Bool
  | .frac .. => true
  | _ => false

section
variable (lt : Expr → Expr → Bool)

mutual
/-- invariants of every object reachable through `P`, `PP`, `Sum[...]`, `Q[...]`, `One()`, `Zero()`, `*`, `/` when each
distribution / subscript / range / Q-(co)domain mentions a name at most once: children, parents, ranges, (co)domains
sorted by name; products flat, of two or more factors that are neither constants nor products, left in the order a
stable sort by `lt` leaves them; `Zero()` occurs only as the whole expression -/
def built : Expr → Bool
  | .prob pop c p => !c.isEmpty && incBy Var.name c && incBy Var.name p && c.all canonVar && p.all canonVar && canonPop pop
  | .prod fs => decide (2 ≤ fs.length) && builtFactors fs && noDescent lt fs
  | .sum e rs => !rs.isEmpty && incBy Var.name rs && rs.all plainVar && built e && !isZero e
  | .frac n d => built n && built d && !isZero d && !isZero n
  | .one => true
  | .zero => true
  | .q dom cod => !dom.isEmpty && !cod.isEmpty && incBy Var.name dom && incBy Var.name cod && dom.all canonVar && cod.all canonVar
def builtFactors : List Expr → Bool
  | [] => true
  | f :: fs => built f && !Print.isProd f && !isOne f && !isZero f && builtFactors fs
end

end

mutual
/-- no division anywhere -/
def divFree : Expr → Bool
  | .prod fs => divFreeAll fs
  | .sum e _ => divFree e
  | .frac .. => false
  | _ => true
def divFreeAll : List Expr → Bool
  | [] => true
  | f :: fs => divFree f && divFreeAll fs
end

mutual
/-- the simple-division family of C12: every division has division-free, non-constant operands and is not itself a
factor of a product -/
def simple : Expr → Bool
  | .prod fs => simpleFactors fs
  | .sum e _ => simple e
  | .frac n d => divFree n && divFree d && !isOne n && !isZero n && !isOne d && !isZero d
  | _ => true
def simpleFactors : List Expr → Bool
  | [] => true
  | f :: fs => !isFrac f && simple f && simpleFactors fs
end

/-! ### construction trees that mention a name once per distribution (`namesOnce`)

The quantifier of C12: "each distribution mentioning a variable name at most once", extended to every list the builders
normalise as a set: `@ (…)` / `P[…]` subscript lists, `Sum[…]` ranges, `Q[…](…)` (co)domains.  Purely syntactic: a
predicate on the construction tree, decided without evaluating it. -/

/-- pairwise distinct -/
def distinct : List Name → Bool
  | [] => true
  | x :: xs => !xs.contains x && distinct xs

mutual
/-- the variable names a tree WRITES at distribution level: a name, a marked/subscripted name (`+A`, `A @ …`: the
subscripts are not mentions of the distribution), `a | b`, `a & b`, a tuple; expression-level trees mention none -/
def names : Ast → List Name
  | .name n => [n]
  | .un _ a => names a
  | .bin .matmul a _ => names a
  | .bin .bor a b => names a ++ names b
  | .bin .band a b => names a ++ names b
  | .bin _ _ _ => []
  | .tuple xs => namesL xs
  | .kw .TargetDomain => [Print.targetName]
  | .kw _ => []
  | .call _ _ => []
  | .sub _ _ => []
def namesL : List Ast → List Name
  | [] => []
  | a :: as => names a ++ namesL as
end

mutual
/-- every argument list of a call (`P(…)`, `PP[π](…)`, `Q[…](…)`), every `a | b`, `a & b`, every tuple, every `@`-argument
and every `[…]` subscript (`P[…]`, `Sum[…]`, `Q[…]`) writes a name at most once; tuples are non-empty -/
def namesOnce : Ast → Bool
  | .name _ => true
  | .kw _ => true
  | .tuple xs => !xs.isEmpty && namesOnceL xs && distinct (namesL xs)
  | .un _ a => namesOnce a
  | .bin .matmul l r => namesOnce l && namesOnce r && distinct (names r)
  | .bin .bor l r => namesOnce l && namesOnce r && distinct (names l ++ names r)
  | .bin .band l r => namesOnce l && namesOnce r && distinct (names l ++ names r)
  | .bin _ l r => namesOnce l && namesOnce r
  | .call f args => namesOnce f && namesOnceL args && distinct (namesL args)
  | .sub f i => namesOnce f && namesOnce i && distinct (names i)
def namesOnceL : List Ast → Bool
  | [] => true
  | a :: as => namesOnce a && namesOnceL as
end

end PyEval
end Y0
