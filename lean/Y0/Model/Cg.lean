/-
  Y0.Model.Cg — executable model of `src/y0/algorithm/identify/cg.py`
  (parallel-worlds graph, Lemma 24 test, Lemma 25 merge, `make_counterfactual_graph`).

  * The user's graph is an `MG Name` (plain variables); the parallel-worlds / counterfactual graph is an
    `MG Var` whose nodes are `Variable(name)` (`ivs = []`) or `CounterfactualVariable(name, ivs)`.
  * A `World` (frozenset of `Intervention`) is a list of `Iv` sorted by `Iv.lt`.
  * `Worlds` is a Python `set`: its iteration order is not defined by the language.  Every function
    here takes the worlds as a LIST in the order of iteration; `makeCounterfactualGraph` takes the
    ordering function `ordf` as a parameter (the theorems hold for every `ordf`; the driver instantiates
    it with every permutation of the canonically sorted list and the harness makes the real code iterate
    in the same order).
  * An `Event` (Python `dict[Variable, Intervention]`) is an association list with unique keys.
  * Python sets of nodes / edges are lists; results are to be read up to order and multiplicity.
-/
import Y0.Model.Graph
import Y0.Model.Expr

namespace Y0
namespace Cf

abbrev World := List Iv
abbrev Event := List (Var × Iv)

/-- decidable membership through `DecidableEq` (the derived `BEq` instances of `Iv` / `Var` are not registered as
lawful, so `decide (a ∈ l)` does not elaborate for them) -/
def elem' {α} [DecidableEq α] (a : α) (l : List α) : Bool := l.any (fun x => decide (x = a))

/-! ### dictionaries -/

def Event.get? (ev : Event) (k : Var) : Option Iv := (ev.find? (fun p => p.1 = k)).map (·.2)
def Event.has (ev : Event) (k : Var) : Bool := ev.any (fun p => p.1 = k)
def Event.keys (ev : Event) : List Var := ev.map (·.1)
/-- `event[k] = v` : replace in place when present, else append (dict insertion order) -/
def Event.set (ev : Event) (k : Var) (v : Iv) : Event :=
  if ev.has k then ev.map (fun p => if p.1 = k then (k, v) else p) else ev ++ [(k, v)]
/-- `del event[k]` -/
def Event.erase (ev : Event) (k : Var) : Event := ev.filter (fun p => p.1 ≠ k)
/-- `dict(pairs)`: later pairs win, position of the first occurrence is kept -/
def Event.ofList (l : List (Var × Iv)) : Event := l.foldl (fun acc p => Event.set acc p.1 p.2) []

/-! ### worlds -/

/-- `node @ world` for a plain graph node (`Variable.intervene`): `CounterfactualVariable(name, frozenset(world))` -/
def atWorld (n : Name) (w : World) : Var := { name := n, ivs := w }

/-- lexicographic order on worlds as sorted lists of `(name, star)`; used only to fix a canonical order -/
def worldLt : World → World → Bool
  | [], [] => false
  | [], _ :: _ => true
  | _ :: _, [] => false
  | a :: as, b :: bs => if Iv.lt a b then true else if Iv.lt b a then false else worldLt as bs

/-- `extract_interventions(variables)` as a duplicate-free list, in order of first occurrence -/
def extractInterventions (vs : List Var) : List World :=
  dedup' ((vs.filter (·.isCf)).map (·.ivs))

/-- `node_not_an_intervention_in_world(world, node)`: `+node ∉ world ∧ -node ∉ world` -/
def notIntervenedIn (w : World) (n : Name) : Bool := w.all (fun i => i.name ≠ n)

/-- `is_not_self_intervened(node)` -/
def isNotSelfIntervened (v : Var) : Bool := v.ivs.all (fun i => i.name ≠ v.name)

/-! ### parallel-worlds graph (cg.py:361-503) -/

/-- `itertools.combinations(xs, 2)` -/
def pairs {α} : List α → List (α × α)
  | [] => []
  | x :: xs => xs.map (fun y => (x, y)) ++ pairs xs

def stitchFactualAndDopplegangers (G : MG Name) (ws : List World) : List (Var × Var) :=
  ws.flatMap fun w => (G.nodes.filter (notIntervenedIn w)).map fun u => (Var.plain u, atWorld u w)

def stitchFactualAndDopplegangerNeighbors (G : MG Name) (ws : List World) : List (Var × Var) :=
  ws.flatMap fun w => G.nodes.flatMap fun u =>
    ((G.biNbrs u).filter (notIntervenedIn w)).map fun v => (Var.plain u, atWorld v w)

def stitchCounterfactualAndDopplegangers (G : MG Name) (ws : List World) : List (Var × Var) :=
  (pairs ws).flatMap fun (w1, w2) =>
    (G.nodes.filter (fun u => notIntervenedIn w1 u && notIntervenedIn w2 u)).map fun u => (atWorld u w2, atWorld u w1)

def stitchCounterfactualAndDopplegangerNeighbors (G : MG Name) (ws : List World) : List (Var × Var) :=
  (pairs ws).flatMap fun (w1, w2) => G.nodes.flatMap fun u =>
    ((G.biNbrs u).filter (fun v => notIntervenedIn w1 u && notIntervenedIn w2 v)).map fun v => (atWorld v w2, atWorld u w1)

def stitchCounterfactualAndNeighbors (G : MG Name) (ws : List World) : List (Var × Var) :=
  ws.flatMap fun w => G.nodes.flatMap fun u =>
    ((G.biNbrs u).filter (fun v => notIntervenedIn w u && notIntervenedIn w v)).map fun v => (atWorld v w, atWorld u w)

/-- `_get_directed_edges` -/
def pwDirectedEdges (G : MG Name) (ws : List World) : List (Var × Var) :=
  ws.flatMap fun w => (G.di.filter (fun e => notIntervenedIn w e.2)).map fun e => (atWorld e.1 w, atWorld e.2 w)

/-- `make_parallel_worlds_graph(graph, worlds)` -/
def makeParallelWorldsGraph (G : MG Name) (ws : List World) : MG Var :=
  let und := stitchCounterfactualAndNeighbors G ws ++ stitchFactualAndDopplegangers G ws
    ++ stitchFactualAndDopplegangerNeighbors G ws
    ++ (if ws.length > 1 then
          stitchCounterfactualAndDopplegangers G ws ++ stitchCounterfactualAndDopplegangerNeighbors G ws
        else [])
  let nodes := G.nodes.map Var.plain ++ ws.flatMap fun w => G.nodes.map fun n => atWorld n w
  let directed := G.di.map (fun e => (Var.plain e.1, Var.plain e.2)) ++ pwDirectedEdges G ws
  MG.fromEdges nodes directed (G.bi.map (fun e => (Var.plain e.1, Var.plain e.2)) ++ und)

/-! ### Lemma 24 test (cg.py:41-196) -/

/-- number of undirected edges at `a` (`len(list(graph.undirected.edges(a)))`) -/
def biDegree (G : MG Var) (a : Var) : Nat := (G.bi.filter (fun e => e.1 = a ∨ e.2 = a)).length

/-- `has_same_confounders` -/
def hasSameConfounders (G : MG Var) (a b : Var) : Bool :=
  G.hasBi a b || (biDegree G a == 0 && biDegree G b == 0)

/-- `has_same_function` -/
def hasSameFunction (a b : Var) : Bool :=
  a.name == b.name && (isNotSelfIntervened a == isNotSelfIntervened b)

/-- `nodes_attain_same_value` -/
def nodesAttainSameValue (G : MG Var) (ev : Event) (a b : Var) : Bool :=
  if a = b then true
  else if !hasSameConfounders G a b then false
  else if a.name ≠ b.name then false
  else match ev.get? a, ev.get? b with
    | some va, some vb => va = vb
    | some va, none => b.isCf && elem' va b.ivs
    | none, some vb => a.isCf && elem' vb a.ivs
    | none, none => !(a.isCf || b.isCf)

/-- `sorted(xs, key=lambda x: x.get_base())`: stable sort by name -/
def sortByBase (xs : List Var) : List Var := sortBy (fun a b => a.name < b.name) xs

/-- `parents_attain_same_values` -/
def parentsAttainSameValues (G : MG Var) (ev : Event) (a b : Var) : Bool :=
  if !hasSameConfounders G a b then false
  else
    let pa := dedup' (G.parents a)
    let pb := dedup' (G.parents b)
    if seteq' pa pb then true
    else
      let ra := diff' pa pb
      let rb := diff' pb pa
      if ra.length ≠ rb.length then false
      else ((sortByBase ra).zip (sortByBase rb)).all fun (x, y) => nodesAttainSameValue G ev x y

/-- `value_of_self_intervention` -/
def valueOfSelfIntervention (a : Var) : Option Iv :=
  if !a.isCf then none
  else if elem' (⟨a.name, true⟩ : Iv) a.ivs then some ⟨a.name, true⟩
  else if elem' (⟨a.name, false⟩ : Iv) a.ivs then some ⟨a.name, false⟩
  else none

/-- `nodes_have_same_domain_of_values` -/
def nodesHaveSameDomainOfValues (G : MG Var) (a b : Var) : Bool :=
  if !hasSameConfounders G a b then false
  else if a.name ≠ b.name then false
  else if isNotSelfIntervened a && isNotSelfIntervened b then true
  else if isNotSelfIntervened a || isNotSelfIntervened b then false
  else decide (valueOfSelfIntervention a = valueOfSelfIntervention b)

/-- `is_pw_equivalent` for two nodes of the graph (the `KeyError` branch is excluded by `lemma_24_holds`) -/
def isPwEquivalent (G : MG Var) (ev : Event) (a b : Var) : Bool :=
  hasSameFunction a b && parentsAttainSameValues G ev a b && nodesHaveSameDomainOfValues G a b

/-- `lemma_24_holds` -/
def lemma24Holds (G : MG Var) (ev : Event) (a b : Var) : Bool :=
  elem' a G.nodes && elem' b G.nodes && isPwEquivalent G ev a b

/-! ### Lemma 25 merge (cg.py:199-262) -/

/-- which node is kept: the factual one, else the smaller `_variable_sort_key` (stable) -/
def mergeOrder (n1 n2 : Var) : Var × Var :=
  if n1.isCf && !n2.isCf then (n2, n1)
  else if !n1.isCf && n2.isCf then (n1, n2)
  else if Var.keyLt n2 n1 then (n2, n1) else (n1, n2)

/-- `merge_pw(graph, node1, node2)` -/
def mergePw (G : MG Var) (a b : Var) : MG Var × Var × Var :=
  let (n1, n2) := mergeOrder a b
  let directed := G.di.filter (fun e => e.1 ≠ n2 ∧ e.2 ≠ n2)
    ++ (G.di.filter (fun e => e.1 = n2)).map (fun e => (n1, e.2))
  let undirected := G.bi.filter (fun e => e.1 ≠ n2 ∧ e.2 ≠ n2)
    ++ (G.bi.filter (fun e => e.1 = n2 ∧ e.2 ≠ n1)).map (fun e => (n1, e.2))
    ++ (G.bi.filter (fun e => e.2 = n2 ∧ e.1 ≠ n1)).map (fun e => (e.1, n1))
  let parents1 := G.parents n1
  let parents2not1 := diff' (G.parents n2) parents1
  let nodes := G.nodes.filter (fun n => n ≠ n2 && !elem' n parents2not1)
  (MG.fromEdges nodes directed undirected, n1, n2)

/-- `is_inconsistent` -/
def isInconsistent (ev : Event) (a b : Var) : Bool :=
  match ev.get? a, ev.get? b with
  | some va, some vb => va ≠ vb
  | _, _ => false

/-- `update_event(event, preferred, eliminated)` -/
def updateEvent (ev : Event) (pref elim : Var) : Event :=
  match ev.get? elim with
  | some v => (ev.set pref v).erase elim
  | none => ev

/-! ### make_counterfactual_graph (cg.py:290-349) -/

/-- loop state: still running with the current graph and event, or stopped with "inconsistent" -/
inductive St where
  | run (cf : MG Var) (ev : Event)
  | stop (cf : MG Var)

/-- one Lemma-24/25 step on the pair `(a, b)`.  `is_inconsistent` is called on the reordered pair in the first
loop and on the original pair in the second; it is symmetric, so one definition serves both. -/
def mergeStep (st : St) (a b : Var) : St :=
  match st with
  | .stop cf => .stop cf
  | .run cf ev =>
    if lemma24Holds cf ev a b then
      let r := mergePw cf a b
      if isInconsistent ev a b then .stop r.1 else .run r.1 (updateEvent ev r.2.1 r.2.2)
    else .run cf ev

/-- body of `for node in graph.topological_sort()` -/
def nodeStep (ws : List World) (st : St) (node : Name) : St :=
  let st := ws.foldl (fun st w => mergeStep st (Var.plain node) (atWorld node w)) st
  if ws.length > 1 then
    (pairs ws).foldl (fun st p => mergeStep st (atWorld node p.1) (atWorld node p.2)) st
  else st

/-- the merge loop over a topological order `topo` of the user's graph -/
def mergeLoop (ws : List World) (topo : List Name) (st : St) : St := topo.foldl (nodeStep ws) st

/-- `make_counterfactual_graph(graph, event)` with the worlds iterated in the order `ordf` gives them.
`.ok (g, none)` is the "inconsistent" outcome. -/
def makeCounterfactualGraph (ordf : List World → List World) (G : MG Name) (event : Event) :
    Except Err (MG Var × Option Event) := do
  let ws := ordf (extractInterventions event.keys)
  let pw := makeParallelWorldsGraph G ws
  let cf := MG.fromEdges pw.nodes pw.di pw.bi
  let topo ← G.topologicalSort
  match mergeLoop ws topo (.run cf event) with
  | .stop cf' => pure (cf', none)
  | .run cf' ev' =>
    -- `for variable in new_event: cf_graph.add_node(variable)` (fix: an event variable that `merge_pw` dropped)
    let cf'' := ev'.keys.foldl MG.addNode cf'
    let anc ← cf''.ancestorsInclusive ev'.keys
    pure (cf''.subgraph anc, some ev')

/-- the canonical iteration order: worlds sorted by `worldLt` -/
def sortWorlds (ws : List World) : List World := sortBy worldLt ws

/-- all the orders used by the correspondence: reverse?, then rotate left by `rot` -/
def orderWorlds (rev : Bool) (rot : Nat) (ws : List World) : List World :=
  let s := sortWorlds ws
  let s := if rev then s.reverse else s
  if s.isEmpty then s else s.rotateLeft (rot % s.length)

end Cf
end Y0
