/-
  Y0.Model.TrsoUse — an executable, instrumented companion of `trsoF` (Model/Trso.lean): does the run of
  `trsoF sep fuel q` ever reach a state at which line 6 (`trso_line6`) finds a USABLE source domain?

  `usesLine6 sep fuel q` follows the branch structure of `trsoF sep fuel q` line for line (same scrutinees, same
  sub-queries, same budget) and answers `true` iff at some state of the run at which the guard of lines 6/7
  (`q.active.isEmpty && !q.surr.isEmpty`, `step67`) holds, `line6 sep q` is not `.ok []` — a usable domain was found,
  or line 6 itself failed (an `.error` of line 6 counts as "used": conservative).  It over-approximates in one
  harmless direction: at line 4 every c-component's sub-query is inspected, also those the Python loop would not reach
  because an earlier component already answered "no estimand".  States at which the run fails for a reason that does
  not involve the experiments (missing graph, budget exhausted, an error of line 2 / line 10 …) answer `false`: there
  the run is the same with and without declared experiments.

  `usesLine6x` (end of the file) is the exact version: line 4 read lazily, as `collectTerms` / the Python loop does.

  `clearSurr q` is `q` with no declared experiment.  Lemmas/TrsoUse proves
  `usesLine6 sep fuel q = false → trsoF sep fuel q = trsoF sep fuel (clearSurr q)`, the same for `usesLine6x`, and
  `usesLine6x sep fuel q = true → usesLine6 sep fuel q = true`.

  Core Lean only.
-/
import Y0.Model.Trso

namespace Y0
namespace Trso
open TrDsl

/-- the query with every declared experiment forgotten -/
def clearSurr (q : Query) : Query := { q with surr := [] }

/-- at `q`, lines 6/7 are entered (`step67`'s guard) and line 6 does not answer "no usable domain" -/
def line6Fires (sep : SepTest) (q : Query) : Bool :=
  q.active.isEmpty && !q.surr.isEmpty &&
    (match line6 sep q with
     | .ok [] => false
     | _ => true)

/-- the sub-query lines 8-11 (`step811`) recurse into: the line-10 query, when line 10 is reached, allowed and built -/
def sub811 (q : Query) (G : MG Name) (dwi : List (List Name)) : List Query :=
  if G.districts.length ≤ 1 then []
  else match dwi with
    | [] => []
    | c :: _ =>
      if G.districts.any (fun d => seteq' d c) then []
      else match G.districts.filter (fun d => subset' c d) with
        | [c'] =>
          match line10Surr q G c' with
          | .ok (some s) =>
            match line10 q G c' s with
            | .ok q' => [q']
            | .error _ => []
          | _ => []
        | _ => []

/-- does the run `trsoF sep fuel q` use line 6 (find a usable source domain, or fail inside line 6) at some state? -/
def usesLine6 (sep : SepTest) : Nat → Query → Bool
  | 0, _ => false
  | fuel + 1, q =>
    match q.graph with
    | .error _ => false
    | .ok G =>
      if q.X.isEmpty then false
      else match G.ancestorsInclusive q.Y with
        | .error _ => false
        | .ok anc =>
          if !(diff' (regularNodes G) anc).isEmpty then
            match line2 q anc with
            | .error _ => false
            | .ok q' => usesLine6 sep fuel q'
          else match noEffectOnOutcomes G q.X q.Y with
            | .error _ => false
            | .ok extra =>
              if !extra.isEmpty then usesLine6 sep fuel (line3 q extra)
              else if (G.removeNodes q.X).districts.length > 1 then
                (line4 q G (G.removeNodes q.X).districts).any (usesLine6 sep fuel)
              else
                line6Fires sep q || (sub811 q G (G.removeNodes q.X).districts).any (usesLine6 sep fuel)

/-- `usesLine6` for the run `identify_target_outcomes` starts (`false` on input it rejects: no run) -/
def identifyUsesLine6 (sep : SepTest) (G : MG Name) (Y X : List Name)
    (outcomes interventions : List (Pop × List Name)) : Bool :=
  if !validInput G Y X outcomes interventions then false
  else match surrogateToTransport G outcomes interventions with
    | .error _ => false
    | .ok graphs =>
      let q := initialQuery G Y X graphs interventions
      usesLine6 sep q.fuel q

/-! ### the exact version: line 4 read lazily

`collectTerms` (the Python loop of line 4) stops at the first component that is refused or fails; `usesLine6` inspects
every component.  `usesLine6x` inspects a later component only if every earlier one returned an estimand, so it is
`true` exactly when the run enters line 6 at some state it really reaches and `line6` is not `.ok []`. -/

/-- walk the sub-queries in order: `use` on the head, and on the tail only if the head's run returned an estimand -/
def anyUntil (use : Query → Bool) (run : Rec) : List Query → Bool
  | [] => false
  | s :: rest =>
    use s || (match run s with
      | .ok (some _) => anyUntil use run rest
      | _ => false)

/-- `usesLine6` with line 4 read lazily (the components the loop of line 4 really evaluates) -/
def usesLine6x (sep : SepTest) : Nat → Query → Bool
  | 0, _ => false
  | fuel + 1, q =>
    match q.graph with
    | .error _ => false
    | .ok G =>
      if q.X.isEmpty then false
      else match G.ancestorsInclusive q.Y with
        | .error _ => false
        | .ok anc =>
          if !(diff' (regularNodes G) anc).isEmpty then
            match line2 q anc with
            | .error _ => false
            | .ok q' => usesLine6x sep fuel q'
          else match noEffectOnOutcomes G q.X q.Y with
            | .error _ => false
            | .ok extra =>
              if !extra.isEmpty then usesLine6x sep fuel (line3 q extra)
              else if (G.removeNodes q.X).districts.length > 1 then
                anyUntil (usesLine6x sep fuel) (trsoF sep fuel) (line4 q G (G.removeNodes q.X).districts)
              else
                line6Fires sep q || (sub811 q G (G.removeNodes q.X).districts).any (usesLine6x sep fuel)

/-- `usesLine6x` for the run `identify_target_outcomes` starts (`false` on input it rejects: no run) -/
def identifyUsesLine6x (sep : SepTest) (G : MG Name) (Y X : List Name)
    (outcomes interventions : List (Pop × List Name)) : Bool :=
  if !validInput G Y X outcomes interventions then false
  else match surrogateToTransport G outcomes interventions with
    | .error _ => false
    | .ok graphs =>
      let q := initialQuery G Y X graphs interventions
      usesLine6x sep q.fuel q

end Trso
end Y0
