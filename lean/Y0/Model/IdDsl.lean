/-
  Y0.Model.IdDsl — the few normalising constructors of src/y0/dsl.py that ID / IDC use, translated
  branch for branch:

    Expression._get_key / __lt__           `keyOf`, `keyLt`
    Product.safe                           `productSafe`
    Sum.safe (simplify=False)              `sumSafe`
    P(child | parents), P(nodes)           `pCond`, `pJoint`
    __mul__ of every Expression class      `mul`
    __truediv__ (Expression, Fraction, Zero), Fraction.__post_init__   `div`, `mkFrac`
    Expression.marginalize / normalize_marginalize                     `marginalize`, `normalizeMarginalize`

  (The `expr` family models the whole DSL in Y0.Model.Dsl; this file is the self-contained subset the
  identification algorithms need.  Y0/Lemmas/IdDslAgree*.lean prove that the two are the same functions on every
  constructible expression — `exprLt_eq_ltE`, `productSafe_agree`, `sumSafe_agree`, `mul_agree`, `div_agree`,
  `normalizeMarginalize_agree` — and that every expression ID / IDC build is constructible: `idAlg_keyOk`.)
  Core Lean only.
-/
import Y0.Model.Expr

namespace Y0
namespace IdDsl

/-! ### sort keys (`_get_key`) -/

/-- Python compares the `_get_key()` tuples lexicographically.  A nested tuple is flattened to a token
list `open … close`; with `close` the least token the flat lexicographic order is the nested one
(a proper prefix is smaller).  At equal positions the tokens always have the same type. -/
inductive Tok where
  | close
  | opn
  | int (n : Nat)
  | str (n : Name)
  deriving DecidableEq, Repr

def Tok.lt : Tok → Tok → Bool
  | .close, .close => false
  | .close, _ => true
  | _, .close => false
  | .opn, .opn => false
  | .opn, _ => true
  | _, .opn => false
  | .int a, .int b => a < b
  | .int _, .str _ => true
  | .str _, .int _ => false
  | .str a, .str b => a < b

/-- lexicographic `<` on token lists (Python tuple comparison) -/
def keyLt : List Tok → List Tok → Bool
  | [], [] => false
  | [], _ :: _ => true
  | _ :: _, [] => false
  | a :: as, b :: bs => if a = b then keyLt as bs else a.lt b

def minName : List Var → Name
  | [] => 0
  | v :: vs => vs.foldl (fun m w => if w.name < m then w.name else m) v.name

/-- a Python tuple as a token list -/
def tup (l : List Tok) : List Tok := .opn :: l ++ [.close]

/-- `_variable_total_key(v)`: `(name, -1 | 0 | 1, isinstance(v, Intervention), ((i.name, i.star), …))` -/
def varKey (v : Var) : List Tok :=
  tup ([.str v.name, .int (match v.star with | none => 0 | some false => 1 | some true => 2),
        .int (if v.isIv then 1 else 0)] ++
       tup (v.ivs.flatMap fun i => tup [.str i.name, .int (if i.star then 1 else 0)]))

def varsKey (vs : List Var) : List Tok := tup (vs.flatMap varKey)

/-- the integer tags `-5, -1, 0, 1, 2, 3, 4` of the keys, shifted to naturals -/
def tagQ : Tok := .int 0
def tagPP : Tok := .int 4

mutual
/-- `Expression._get_key()` (after `fix:` 1603f97: total keys) -/
def keyOf : Expr → List Tok
  -- Probability: (0, children[0].name, children keys, parents keys)
  | .prob none c p => [.int 5, .str (match c with | [] => 0 | v :: _ => v.name)] ++ varsKey c ++ varsKey p
  -- PopulationProbability: (-1, key(population), children[0].name, children keys, parents keys)
  | .prob (some pop) c p =>
      [tagPP] ++ varKey pop ++ [.str (match c with | [] => 0 | v :: _ => v.name)] ++ varsKey c ++ varsKey p
  | .sum e r => .int 6 :: tup (keyOf e) ++ varsKey r                              -- (1, inner, ranges)
  | .prod fs => .int 7 :: keysOf fs                                               -- (2, *inner_keys)
  | .frac n d => .int 8 :: tup (keyOf n) ++ tup (keyOf d)                         -- (3, num, den)
  | .one => [.int 9, .int 1]                                                      -- (4, "1")
  | .zero => [.int 9, .int 0]                                                     -- (4, "0")
  | .q dom cod => [tagQ, .str (minName dom), .str (minName cod)] ++ varsKey dom ++ varsKey cod   -- (-5, …)
def keysOf : List Expr → List Tok
  | [] => []
  | e :: es => tup (keyOf e) ++ keysOf es
end

/-- `Expression.__lt__` -/
def exprLt (a b : Expr) : Bool := keyLt (keyOf a) (keyOf b)

/-! ### constructors -/

def isOne : Expr → Bool
  | .one => true
  | _ => false

def isZero : Expr → Bool
  | .zero => true
  | _ => false

/-- `Product.safe(expressions)` for an iterable of expressions -/
def productSafe (es : List Expr) : Expr :=
  let es := es.filter (fun e => !isOne e)
  if es.any isZero then .zero
  else match es with
    | [] => .one
    | [e] => e
    | _ => .prod (sortBy exprLt es)

def insertNat (x : Name) : List Name → List Name
  | [] => [x]
  | y :: ys => if x < y then x :: y :: ys else if x = y then y :: ys else y :: insertNat x ys

/-- `_upgrade_ordering`: `sorted(set(variables))` for plain variables -/
def sortNames (l : List Name) : List Name := l.foldr insertNat []

def plainVars (l : List Name) : List Var := (sortNames l).map Var.plain

/-- `Sum.safe(expression, ranges)` with `simplify=False` -/
def sumSafe (e : Expr) (ranges : List Name) : Expr :=
  match sortNames ranges with
  | [] => e
  | r :: rs => if isZero e then e else .sum e ((r :: rs).map Var.plain)

/-- `P(child | parents)`: `Variable.given` sorts the parents -/
def pCond (child : Name) (parents : List Name) : Expr := .prob none [Var.plain child] (plainVars parents)

/-- `P(nodes)`; `Distribution.__post_init__` raises `ValueError` without children -/
def pJoint (nodes : List Name) : Except Err Expr :=
  match sortNames nodes with
  | [] => .error (.invalidInput "ValueError")
  | l => .ok (.prob none (l.map Var.plain) [])

/-- `Fraction(n, d)`; `__post_init__` raises `ZeroDivisionError` on a `Zero` denominator -/
def mkFrac (n d : Expr) : Except Err Expr :=
  if isZero d then .error (.internal "ZeroDivisionError") else .ok (.frac n d)

/-- `a * b` (`__mul__` of the class of `a`) -/
def mul : Expr → Expr → Except Err Expr
  | .one, b => .ok b
  | .zero, _ => .ok .zero
  -- Fraction.__mul__
  | .frac _ _, .zero => .ok .zero
  | .frac n d, .frac n2 d2 => do mkFrac (← mul n n2) (← mul d d2)
  | .frac n d, b => do mkFrac (← mul n b) d
  -- Product.__mul__
  | .prod _, .zero => .ok .zero
  | .prod es, .prod es2 => .ok (productSafe (es ++ es2))
  | .prod es, .frac n d => do mkFrac (← mul (.prod es) n) d
  | .prod es, b => .ok (productSafe (es ++ [b]))
  -- Sum.__mul__
  | .sum _ _, .zero => .ok .zero
  | .sum e r, .prod es2 => .ok (productSafe (.sum e r :: es2))
  | .sum e r, b => .ok (productSafe [.sum e r, b])
  -- Probability.__mul__
  | .prob _ _ _, .zero => .ok .zero
  | .prob p c pa, .one => .ok (.prob p c pa)
  | .prob p c pa, .prod es2 => .ok (productSafe (.prob p c pa :: es2))
  | .prob p c pa, .frac n d => do mkFrac (← mul (.prob p c pa) n) d
  | .prob p c pa, b => .ok (productSafe [.prob p c pa, b])
  -- QFactor.__mul__
  | .q dm cd, .prod es2 => .ok (productSafe (.q dm cd :: es2))
  | .q dm cd, .frac n d => do mkFrac (← mul (.q dm cd) n) d
  | .q dm cd, b => .ok (productSafe [.q dm cd, b])
termination_by a b => sizeOf a + sizeOf b

/-- `a / b` (`__truediv__` of the class of `a`) -/
def div (a b : Expr) : Except Err Expr :=
  match a with
  | .frac n d =>
    match b with
    | .one => .ok (.frac n d)
    | .frac n2 d2 => do mkFrac (← mul n d2) (← mul d n2)
    | _ => do mkFrac n (← mul d b)
  | .zero =>
    match b with
    | .zero => .error (.internal "ZeroDivisionError")
    | _ => .ok .zero
  | _ =>
    match b with
    | .one => .ok a
    | .frac n2 d2 => do mkFrac (← mul a d2) n2
    | _ => mkFrac a b

/-- `Expression.marginalize(ranges)` -/
def marginalize (e : Expr) (ranges : List Name) : Expr := sumSafe e ranges

/-- `Expression.normalize_marginalize(ranges)`: `self / self.marginalize(ranges)` -/
def normalizeMarginalize (e : Expr) (ranges : List Name) : Except Err Expr := div e (marginalize e ranges)

end IdDsl
end Y0
