/-
  Y0.Model.Dsl — the normalising constructors and operators of src/y0/dsl.py, branch for branch.

  Python                                   model
  ---------------------------------------  ------------------------------------------
  dataclass `==` on expressions            Expr.eqb            (sound + reflexive: Lemmas/DslEq)
  Expression._get_key() (all classes)      Expr.key : Key      (nested tuples, Python tuple `<` = Key.cmp)
  _variable_total_key                      Var.totalKey
  _upgrade_ordering / _sorted_variables    upgradeOrdering
  Product.safe                             productSafe
  Sum.safe(simplify=False / True)          sumSafe0 / sumSafe
  Sum.simplify                             sumSimplify
  Fraction(...) (ZeroDivisionError)        mkFrac
  __mul__ of every class                   Expr.mul  (Expr.mulR: left operand not a Fraction/One/Zero)
  __truediv__ of every class               Expr.div
  _iter_variables / get_variables          Expr.iterVars
  marginalize / normalize_marginalize      Expr.marginalize / Expr.normalizeMarginalize
  conditional (Expression / Probability)   Expr.conditional
  Fraction.flip / simplify /               Expr.fracSimplify / simplifyParts / simplifyPartsHelper
    _simplify_parts(_helper)

  The model describes the code AFTER the `fix:` commits of branch fix-expr (total structural sort key, Sum.simplify
  superset branch) and of fix-expr5 (Sum.simplify leaves a sum alone when several children of the joint share a base
  variable); see known_findings.jsonl.

  Conventions.  `frozenset` fields (Sum.ranges, interventions) are lists kept sorted and duplicate free; Python set
  iteration order never matters for the modelled functions except where noted.  Well-formedness (`Expr.wf`) collects
  the `__post_init__` invariants of the dataclasses (a Distribution has a child, a Product two factors, a Sum a
  non-empty range of plain variables, a Fraction a denominator that is not `Zero()`, a Q-factor non-empty domain and
  codomain); the model functions are total, the driver answers `bad-request` for inputs that Python cannot build.
  Populations are plain variables.
  Core Lean only.
-/
import Y0.Model.Expr

namespace Y0

/-! ### stable sorting (Python's `sorted`) -/

/-- insert `x`, which precedes every element of the list in the input, before the first element that is not
strictly smaller: equal keys keep their input order -/
def insertStable {α} (lt : α → α → Bool) (x : α) : List α → List α
  | [] => [x]
  | y :: ys => if lt y x then y :: insertStable lt x ys else x :: y :: ys

/-- stable insertion sort = the unique result of any stable sorting algorithm (`sorted`) -/
def sortStable {α} (lt : α → α → Bool) (l : List α) : List α := l.foldr (insertStable lt) []

/-! ### equality (`==` of the dataclasses) -/

mutual
def Expr.eqb : Expr → Expr → Bool
  | .prob p1 c1 a1, .prob p2 c2 a2 => decide (p1 = p2) && decide (c1 = c2) && decide (a1 = a2)
  | .prod f, .prod g => Expr.eqbList f g
  | .sum e r, .sum e' r' => Expr.eqb e e' && decide (r = r')
  | .frac n d, .frac n' d' => Expr.eqb n n' && Expr.eqb d d'
  | .one, .one => true
  | .zero, .zero => true
  | .q d c, .q d' c' => decide (d = d') && decide (c = c')
  | _, _ => false
def Expr.eqbList : List Expr → List Expr → Bool
  | [], [] => true
  | a :: as, b :: bs => Expr.eqb a b && Expr.eqbList as bs
  | _, _ => false
end

def Expr.isOne : Expr → Bool
  | .one => true
  | _ => false

def Expr.isZero : Expr → Bool
  | .zero => true
  | _ => false

def Expr.isFrac : Expr → Bool
  | .frac _ _ => true
  | _ => false

def Expr.isProd : Expr → Bool
  | .prod _ => true
  | _ => false

/-! ### sort keys: Python tuples compared with `<` -/

inductive Key where
  | atom (i : Int)
  | tup (ks : List Key)
  deriving Repr, Inhabited

mutual
/-- Python's `<`/`==` on (nested) tuples of ints/strings of equal shape; an atom against a tuple (a `TypeError` in
Python) does not occur between keys of expressions: equal leading tags imply equal shapes. -/
def Key.cmp : Key → Key → Ordering
  | .atom a, .atom b => compare a b
  | .atom _, .tup _ => .lt
  | .tup _, .atom _ => .gt
  | .tup as, .tup bs => Key.cmpList as bs
def Key.cmpList : List Key → List Key → Ordering
  | [], [] => .eq
  | [], _ :: _ => .lt
  | _ :: _, [] => .gt
  | a :: as, b :: bs =>
    match Key.cmp a b with
    | .lt => .lt
    | .gt => .gt
    | .eq => Key.cmpList as bs
end

def Key.lt (a b : Key) : Bool :=
  match Key.cmp a b with
  | .lt => true
  | _ => false

def starCode : Option Bool → Int
  | none => -1
  | some false => 0
  | some true => 1

/-- `_variable_total_key`: (name, star as -1/0/1, isinstance Intervention, sorted (name, star) of the interventions) -/
def Var.totalKey (v : Var) : Key :=
  .tup [.atom v.name, .atom (starCode v.star), .atom (if v.isIv then 1 else 0),
        .tup (v.ivs.map fun i => .tup [.atom i.name, .atom (if i.star then 1 else 0)])]

/-- `children[0].name` / `min(v.name for v in ...)`; the empty case cannot be constructed in Python -/
def firstNameKey : List Var → Key
  | [] => .tup []
  | v :: _ => .atom v.name

def minNameKey : List Var → Key
  | [] => .tup []
  | v :: vs => .atom (vs.foldl (fun m w => if w.name < m then w.name else m) v.name)

mutual
/-- `_get_key()` -/
def Expr.key : Expr → Key
  | .prob none c p => .tup [.atom 0, firstNameKey c, .tup (c.map Var.totalKey), .tup (p.map Var.totalKey)]
  | .prob (some pop) c p =>
      .tup [.atom (-1), pop.totalKey, firstNameKey c, .tup (c.map Var.totalKey), .tup (p.map Var.totalKey)]
  | .prod fs => .tup (.atom 2 :: Expr.keyList fs)
  | .sum e r => .tup [.atom 1, Expr.key e, .tup (r.map Var.totalKey)]
  | .frac n d => .tup [.atom 3, Expr.key n, Expr.key d]
  | .one => .tup [.atom 4, .atom 1]
  | .zero => .tup [.atom 4, .atom 0]
  | .q d c => .tup [.atom (-5), minNameKey d, minNameKey c, .tup (d.map Var.totalKey), .tup (c.map Var.totalKey)]
def Expr.keyList : List Expr → List Key
  | [] => []
  | e :: es => Expr.key e :: Expr.keyList es
end

/-- `Expression.__lt__` -/
def Expr.ltE (a b : Expr) : Bool := Key.lt a.key b.key

/-! ### variables -/

/-- `_upgrade_ordering`: `_sorted_variables(set(...))` -/
def upgradeOrdering (vs : List Var) : List Var := sortStable Var.keyLt (dedup' vs)

def Iv.toVar (i : Iv) : Var := { name := i.name, star := some i.star, isIv := true }

/-- `Variable._iter_variables` / `CounterfactualVariable._iter_variables` -/
def Var.iterVars (v : Var) : List Var := v :: v.ivs.map Iv.toVar

mutual
/-- `_iter_variables` (with repetitions, in Python's order) -/
def Expr.iterVars : Expr → List Var
  | .prob _ c p => (c ++ p).flatMap Var.iterVars
  | .prod fs => Expr.iterVarsList fs
  | .sum e r => Expr.iterVars e ++ r
  | .frac n d => Expr.iterVars n ++ Expr.iterVars d
  | .one => []
  | .zero => []
  | .q d c => c ++ d
def Expr.iterVarsList : List Expr → List Var
  | [] => []
  | e :: es => Expr.iterVars e ++ Expr.iterVarsList es
end

/-- `get_variables()` as a sorted set -/
def Expr.getVariables (e : Expr) : List Var := upgradeOrdering e.iterVars

/-! ### well-formedness (what the dataclass constructors enforce) -/

def Var.isPlain (v : Var) : Bool := v.star.isNone && !v.isIv && v.ivs.isEmpty

mutual
def Expr.wf : Expr → Bool
  | .prob pop c _ => !c.isEmpty && (match pop with | none => true | some p => p.isPlain)
  | .prod fs => decide (2 ≤ fs.length) && Expr.wfList fs
  | .sum e r => !r.isEmpty && r.all Var.isPlain && Expr.wf e
  | .frac n d => Expr.wf n && Expr.wf d && !d.isZero
  | .one => true
  | .zero => true
  | .q d c => !d.isEmpty && !c.isEmpty
def Expr.wfList : List Expr → Bool
  | [] => true
  | e :: es => Expr.wf e && Expr.wfList es
end

/-! ### Product.safe -/

/-- `Product.safe(iterable)`: drop `One()`, absorb `Zero()`, unwrap singletons, sort by `_get_key` (stable) -/
def productSafe (es : List Expr) : Expr :=
  let es := es.filter (fun e => !e.isOne)
  if es.any Expr.isZero then .zero
  else match es with
    | [] => .one
    | [e] => e
    | _ => .prod (sortStable Expr.ltE es)

/-! ### Sum.safe / Sum.simplify -/

/-- `Sum.safe(expression, ranges)` with `simplify=False` -/
def sumSafe0 (e : Expr) (ranges : List Var) : Expr :=
  let rs := upgradeOrdering ranges
  if rs.isEmpty then e
  else match e with
    | .zero => .zero
    | _ => .sum e rs

/-- value of the dict `{child.get_base(): child for child in children}` at key `k` (the last child wins) -/
def lastWithBase (c : List Var) (k : Var) : Option Var := (c.filter (fun v => v.base = k)).getLast?

/-- `Sum(e, rs).simplify()` (after the fix of the superset branch, and after the fix that leaves the sum alone when
several children share a base variable: `if len(children) != len(expression.children): return self`) -/
def sumSimplify (e : Expr) (rs : List Var) : Expr :=
  match e with
  | .prob pop c [] =>
    let keys := dedup' (c.map Var.base)           -- dict keys in insertion order
    let vals := fun (ks : List Var) => (inter' keys ks).filterMap (lastWithBase c)
    if keys.length != c.length then .sum e rs     -- a base variable with several children: nothing is marginalised
    else if seteq' rs keys then .one
    else if subset' keys rs then sumSafe0 .one (diff' rs keys)
    else if subset' rs keys then .prob pop (upgradeOrdering (vals (diff' keys rs))) []
    else
      let inter := inter' rs keys
      sumSafe0 (.prob pop (upgradeOrdering (vals (diff' keys inter))) []) (diff' rs inter)
  | _ => .sum e rs

/-- `Sum.safe(expression, ranges, simplify=...)` -/
def sumSafe (e : Expr) (ranges : List Var) (simplify : Bool) : Expr :=
  let rs := upgradeOrdering ranges
  if rs.isEmpty then e
  else match e with
    | .zero => .zero
    | _ => if simplify then sumSimplify e rs else .sum e rs

/-! ### Fraction constructor, `*`, `/` -/

def zeroDivision : Err := .internal "ZeroDivisionError"

/-- `Fraction(n, d)`: `__post_init__` raises `ZeroDivisionError` on a `Zero()` denominator -/
def mkFrac (n d : Expr) : Except Err Expr :=
  if d.isZero then throw zeroDivision else pure (.frac n d)

/-- `a * b` where `a` is a Probability, Product, Sum or QFactor (their four `__mul__`), by recursion on `b` -/
def Expr.mulR (a : Expr) : Expr → Except Err Expr
  | .frac n d =>
    match a with
    | .sum _ _ => pure (productSafe [a, .frac n d])       -- Sum.__mul__ has no Fraction branch
    | _ => do mkFrac (← Expr.mulR a n) d
  | .zero =>
    match a with
    | .q _ _ => pure (productSafe [a, .zero])             -- QFactor.__mul__ has no Zero branch (same result)
    | _ => pure .zero
  | .one =>
    match a with
    | .prob _ _ _ => pure a
    | .prod fs => pure (productSafe (fs ++ [.one]))
    | _ => pure (productSafe [a, .one])
  | .prod gs =>
    match a with
    | .prod fs => pure (productSafe (fs ++ gs))
    | _ => pure (productSafe (a :: gs))
  | b =>
    match a with
    | .prod fs => pure (productSafe (fs ++ [b]))
    | _ => pure (productSafe [a, b])

/-- `a * b`: dispatch on the class of `a` -/
def Expr.mul : Expr → Expr → Except Err Expr
  | .one, b => pure b
  | .zero, _ => pure .zero
  | .frac _ _, .zero => pure .zero
  | .frac n d, .frac n2 d2 => do mkFrac (← Expr.mul n n2) (← Expr.mul d d2)
  | .frac n d, b => do mkFrac (← Expr.mul n b) d
  | a, b => Expr.mulR a b

/-- `a / b`: `Zero.__truediv__`, `Fraction.__truediv__`, `Expression.__truediv__` -/
def Expr.div (a b : Expr) : Except Err Expr :=
  match a with
  | .zero => if b.isZero then throw zeroDivision else pure .zero
  | .frac n d =>
    match b with
    | .one => pure a
    | .frac n2 d2 => do mkFrac (← n.mul d2) (← d.mul n2)
    | _ => do mkFrac n (← d.mul b)
  | _ =>
    match b with
    | .one => pure a
    | .frac n2 d2 => do mkFrac (← a.mul d2) n2
    | _ => mkFrac a b

/-! ### marginalize / conditional -/

/-- `e.marginalize(ranges)` -/
def Expr.marginalize (e : Expr) (ranges : List Var) : Expr := sumSafe0 e (ranges.map Var.base)

/-- `e.normalize_marginalize(ranges)` -/
def Expr.normalizeMarginalize (e : Expr) (ranges : List Var) : Except Err Expr :=
  e.div (e.marginalize ranges)

/-- `e.conditional(ranges)`: both overloads (`Probability.conditional`, and — after `fix:` a54a0f5 —
`Expression.conditional`) skip `Intervention` objects, i.e. the subscripts `_iter_variables` yields; the ranges of inner
`Sum`s are still collected (what remains of finding F11) -/
def Expr.conditional (e : Expr) (ranges : List Var) : Except Err Expr :=
  let rs := upgradeOrdering (ranges.map Var.base)
  let vars : List Var := e.iterVars.filter (fun (v : Var) => !v.isIv)
  e.normalizeMarginalize (diff' (dedup' (vars.map Var.base)) rs)

/-! ### Fraction.simplify -/

/-- inner loop of `_simplify_parts_helper`: index of the first not-yet-cancelled denominator factor equal to `n` -/
def findCancel (n : Expr) (den : List Expr) (cancelled : List Nat) : Option Nat :=
  let rec go : List Expr → Nat → Option Nat
    | [], _ => none
    | d :: ds, j => if j ∈ cancelled then go ds (j + 1) else if n.eqb d then some j else go ds (j + 1)
  go den 0

/-- `_simplify_parts_helper` -/
def simplifyPartsHelper (num den : List Expr) : List Expr × List Expr :=
  let rec loop : List Expr → List Expr → List Nat → List Expr × List Nat
    | [], keptRev, cancelled => (keptRev.reverse, cancelled)
    | n :: ns, keptRev, cancelled =>
      match findCancel n den cancelled with
      | some j => loop ns keptRev (j :: cancelled)
      | none => loop ns (n :: keptRev) cancelled
  let (kept, cancelled) := loop num [] []
  (kept, (den.zipIdx.filter (fun p => p.2 ∉ cancelled)).map (·.1))

/-- `Fraction._simplify_parts` -/
def simplifyParts (num den : List Expr) : Except Err Expr :=
  let (nn, dd) := simplifyPartsHelper num den
  match nn, dd with
  | [], [] => pure .one
  | _ :: _, [] => pure (productSafe nn)
  | [], _ :: _ => Expr.div .one (productSafe dd)
  | _ :: _, _ :: _ => mkFrac (productSafe nn) (productSafe dd)

/-- the part of `Fraction(n, d).simplify()` after the `One` / `Zero` / flip checks: equal parts, products -/
def fracSimplifyTail (n d : Expr) : Except Err Expr :=
  if n.eqb d then pure .one
  else
    match n, d with
    | .prod ns, .prod ds => simplifyParts ns ds
    | .prod ns, _ => simplifyParts ns [d]
    | _, .prod ds => simplifyParts [n] ds
    | _, _ => pure (.frac n d)

/-- `Fraction(n, d).simplify()`.  The only recursion is `self.denominator.flip().simplify()` for a numerator `One()` and a
denominator that is a Fraction: structural in the denominator. -/
def Expr.fracSimplify : Expr → Expr → Except Err Expr
  | n, .one => pure n
  | n, .frac dn dd =>
    if n.isZero then pure n
    else if n.isOne then
      -- self.denominator.flip() constructs Fraction(dd, dn) first
      if dn.isZero then throw zeroDivision else Expr.fracSimplify dd dn
    else fracSimplifyTail n (.frac dn dd)
  | n, d =>
    if n.isZero then pure n
    else if n.isOne then pure (.frac n d)
    else fracSimplifyTail n d

/-- `.simplify()` on an arbitrary expression object: defined for Sum and Fraction only -/
def Expr.simplify : Expr → Except Err Expr
  | .sum e r => pure (sumSimplify e r)
  | .frac n d => Expr.fracSimplify n d
  | _ => throw (.invalidInput "AttributeError")

end Y0
