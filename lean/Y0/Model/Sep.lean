/-
  Y0.Model.Sep — executable model of

  * `y0.algorithm.conditional_independencies.are_d_separated`      (C04)
  * `y0.struct.DSeparationJudgement.create / is_canonical`          (C04, C15)
  * `y0.util.combinatorics.powerset`, `d_separations`, `minimal`,
    the two built-in retention policies, `get_conditional_independencies`   (C15)

  Core Lean only (the driver is compiled natively).  Python sets are lists; every result that is a
  set in Python is to be read up to order (the harness compares them as sets, the theorems are stated
  with `∈`).  Every place where the Python can raise is an explicit `Except Err`.

  What other families need:  `MG.dSeparated (G : MG α) (a b : α) (C : List α) : Except Err Bool`.
-/
import Y0.Model.Graph

namespace Y0
namespace MG
variable {α : Type} [DecidableEq α]

/-! ### `are_d_separated` (conditional_independencies.py:203-256) -/

/-- argument validation: the three `KeyError` branches (the `TypeError` branches cannot occur here:
every argument of the model is a variable by typing; the harness exercises them on the Python side) -/
def sepValidate (G : MG α) (a b : α) (C : List α) : Except Err Unit :=
  if a ∉ G.nodes then .error (.invalidInput "KeyError")
  else if b ∉ G.nodes then .error (.invalidInput "KeyError")
  else if C.any (· ∉ G.nodes) then .error (.invalidInput "KeyError")
  else .ok ()

/-- `set(district) | get_markov_pillow(district)`: a district of the ancestral graph with its parents -/
def districtClosure (A : MG α) (d : List α) : Except Err (List α) := do
  let p ← A.markovPillow d
  pure (d ++ p)

/-- `evidence_graph.add_edges_from(combinations(closure, 2))` for one district closure -/
def addClique (E : MG α) (cl : List α) : MG α := (pairs cl).foldl addBi E

/-- the evidence graph built from the ancestral graph `A`: moralise, drop directions, then make every
district together with its parents a clique (so that two nodes joined by a path on which every
inner node is a collider become adjacent).  The clique step is the `fix:` for defect F2. -/
def augment (A : MG α) : Except Err (MG α) := do
  let cls ← A.districts.mapM A.districtClosure
  pure (cls.foldl addClique A.moralize.disorient)

/-- nodes reachable from `a` in an undirected graph (stored as a mixed graph without directed edges) -/
def reach (E : MG α) (a : α) : List α := closure E.biNbrs (E.nodes.length + 1) [a]

/-- `nx.has_path(E, a, b)`: `NodeNotFound` when an endpoint is not a node of `E` -/
def hasPath (E : MG α) (a b : α) : Except Err Bool :=
  if a ∉ E.nodes then .error (.internal "NodeNotFound")
  else if b ∉ E.nodes then .error (.internal "NodeNotFound")
  else .ok (decide (b ∈ E.reach a))

/-- the final evidence graph of `are_d_separated`: ancestral sub-graph of `{a, b} ∪ C`, augmented,
undirected, with the conditioned nodes deleted -/
def dSepEvidence (G : MG α) (a b : α) (C : List α) : Except Err (MG α) := do
  sepValidate G a b C
  let keep ← G.ancestorsInclusive (a :: b :: C)
  let E ← (G.subgraph keep).augment
  pure (E.subgraph (E.nodes.filter (· ∉ C)))

/-- the verdict of `are_d_separated(graph, a, b, conditions=C)` -/
def dSeparated (G : MG α) (a b : α) (C : List α) : Except Err Bool := do
  let E ← G.dSepEvidence a b C
  let p ← E.hasPath a b
  pure (!p)

end MG

/-! ### `DSeparationJudgement` (struct.py:106-145) -/

/-- stable insertion into a `≤`-sorted list (Python `sorted` on distinct keys) -/
def insertLe (x : Nat) : List Nat → List Nat
  | [] => [x]
  | y :: ys => if x ≤ y then x :: y :: ys else y :: insertLe x ys

/-- `sorted(xs, key=str)`; the name table of the harness is order preserving -/
def sortLe (l : List Nat) : List Nat := l.foldr insertLe []

structure Judgement where
  separated : Bool
  left : Nat
  right : Nat
  conditions : List Nat
  deriving Repr, DecidableEq, Inhabited

namespace Judgement

/-- `DSeparationJudgement.create`: `left, right = sorted([left, right])`,
`conditions = tuple(sorted(set(conditions)))` -/
def create (a b : Nat) (C : List Nat) (separated : Bool) : Judgement :=
  ⟨separated, if a ≤ b then a else b, if a ≤ b then b else a, sortLe (dedup' C)⟩

/-- `is_canonical`: `left < right and tuple(sorted(conditions)) == conditions` -/
def isCanonical (j : Judgement) : Bool := decide (j.left < j.right) && (sortLe j.conditions == j.conditions)

end Judgement

namespace MG

/-- `are_d_separated` with its return value, the judgement record -/
def areDSeparated (G : MG Nat) (a b : Nat) (C : List Nat) : Except Err Judgement := do
  let s ← G.dSeparated a b C
  pure (Judgement.create a b C s)

end MG

/-! ### `powerset` (util/combinatorics.py:18-52) -/

/-- `itertools.combinations(s, r)` in its order -/
def combinations {α : Type} : List α → Nat → List (List α)
  | _, 0 => [[]]
  | [], _ + 1 => []
  | x :: xs, k + 1 => (combinations xs k).map (x :: ·) ++ combinations xs (k + 1)

/-- `powerset(s, start, stop)`: `chain(combinations(s, r) for r in range(start, stop))`,
`stop=None` meaning `len(s) + 1` -/
def powerset {α : Type} (s : List α) (start : Nat) (stop : Option Nat) : List (List α) :=
  let stop := match stop with | none => s.length + 1 | some k => k
  (List.range' start (stop - start)).flatMap (combinations s)

/-! ### `d_separations`, `minimal`, policies, `get_conditional_independencies`
(conditional_independencies.py:122-200, 259-287), parametric in the separation test so that the
theorems of C15 hold for any test. -/

/-- the inner loop of `d_separations`: first separating set (`return_all=False`) or all of them -/
def sepHits (test : List Nat → Except Err Bool) (returnAll : Bool) :
    List (List Nat) → Except Err (List (List Nat))
  | [] => .ok []
  | c :: cs => do
    if (← test c) then
      if returnAll then do
        let rest ← sepHits test returnAll cs
        pure (c :: rest)
      else pure [c]
    else sepHits test returnAll cs

/-- `d_separations(graph, max_conditions, return_all)` over the vertex list `V`, for the test `sep`.
Pairs are `combinations(vertices, 2)`; Python iterates a `set` (hash order), the model a sorted list.
`powerset(vertices - {a, b}, stop=max_conditions + 1)` (the `+ 1` is the `fix:` for defect F6). -/
def dSeparationsWith (sep : Nat → Nat → List Nat → Except Err Bool) (V : List Nat) (maxC : Option Nat)
    (returnAll : Bool) : Except Err (List Judgement) := do
  let per ← (MG.pairs V).mapM (fun (p : Nat × Nat) => do
    let rest := V.filter (fun v => v ≠ p.1 ∧ v ≠ p.2)
    let stop := match maxC with | none => none | some k => some (k + 1)
    let hits ← sepHits (sep p.1 p.2) returnAll (powerset rest 0 stop)
    pure (hits.map (fun c => Judgement.create p.1 p.2 c true)))
  pure per.flatten

/-- lexicographic `≤` on lists of names: the order of `",".join(c.name …)` for the fixed-width names of
the harness, restricted to lists of equal length (the first key component) -/
def lexLe : List Nat → List Nat → Bool
  | [], _ => true
  | _ :: _, [] => false
  | x :: xs, y :: ys => x < y || (x == y && lexLe xs ys)

/-- a retention policy maps a judgement to a sort key; both built-in keys are a pair whose first
component is the number of conditions -/
inductive Policy where
  | lenLex                       -- `_len_lex`
  | topological (order : List Nat)  -- `get_topological_policy(graph)`
  deriving Repr

def indexOf? (order : List Nat) (v : Nat) : Option Nat :=
  match order with
  | [] => none
  | x :: xs => if x = v then some 0 else (indexOf? xs v).map (· + 1)

/-- policy key; `order.index(v)` raises `ValueError` when `v` is not in the order -/
def Policy.key (p : Policy) (j : Judgement) : Except Err (Nat × List Nat) :=
  match p with
  | .lenLex => .ok (j.conditions.length, j.conditions)
  | .topological order => do
    let idx ← j.conditions.mapM (fun v => match indexOf? order v with
      | some i => Except.ok i | none => .error (.internal "ValueError"))
    pure (j.conditions.length, [idx.foldl (· + ·) 0])

def keyLe (k₁ k₂ : Nat × List Nat) : Bool := k₁.1 < k₂.1 || (k₁.1 == k₂.1 && lexLe k₁.2 k₂.2)

/-- Python `min(vs, key=policy)`: the first element whose key is minimal -/
def minBy (key : Judgement → Except Err (Nat × List Nat)) : Judgement → List Judgement → Except Err Judgement
  | best, [] => .ok best
  | best, j :: js => do
    let kb ← key best
    let kj ← key j
    if keyLe kb kj then minBy key best js else minBy key j js

def pairLe (p q : Nat × Nat) : Bool := p.1 < q.1 || (p.1 == q.1 && p.2 ≤ q.2)

def insertPair (x : Nat × Nat) : List (Nat × Nat) → List (Nat × Nat)
  | [] => [x]
  | y :: ys => if pairLe x y then x :: y :: ys else y :: insertPair x ys

/-- `minimal(judgements, policy)`: `sorted(…, key=(left, right))` is stable, so each `groupby` group is
the sub-list of judgements with that `(left, right)` in input order; one `min` per group.
Modelled as: the distinct keys in sorted order, and for each the filtered sub-list. -/
def minimalWith (key : Judgement → Except Err (Nat × List Nat)) (js : List Judgement) :
    Except Err (List Judgement) :=
  let keys := (dedup' (js.map (fun j => (j.left, j.right)))).foldr insertPair []
  keys.mapM (fun k =>
    match js.filter (fun j => (j.left, j.right) = k) with
    | [] => .error (.internal "ValueError")   -- `min()` of an empty group: unreachable, kept explicit
    | j :: rest => minBy key j rest)

/-- `get_conditional_independencies(graph, policy, max_conditions)` for the test `sep` on vertex list `V` -/
def conditionalIndependenciesWith (sep : Nat → Nat → List Nat → Except Err Bool) (V : List Nat)
    (policy : Policy) (maxC : Option Nat) (returnAll : Bool := false) : Except Err (List Judgement) := do
  let js ← dSeparationsWith sep V maxC returnAll
  minimalWith policy.key js

namespace MG

/-- `vertices = set(graph.nodes())`, iterated in sorted order by the model -/
def vertexList (G : MG Nat) : List Nat := sortLe (dedup' G.nodes)

/-- `d_separations(graph, max_conditions=k, return_all=r)` -/
def dSeparations (G : MG Nat) (maxC : Option Nat) (returnAll : Bool) : Except Err (List Judgement) :=
  dSeparationsWith G.dSeparated G.vertexList maxC returnAll

/-- `get_conditional_independencies(graph, policy=None | _len_lex, max_conditions=k)`;
the default policy needs `graph.topological_sort()` (raises on a directed cycle) -/
def conditionalIndependencies (G : MG Nat) (topological : Bool) (maxC : Option Nat)
    (returnAll : Bool := false) : Except Err (List Judgement) := do
  let policy ← if topological then do
      let o ← G.topologicalSort
      pure (Policy.topological o)
    else pure Policy.lenLex
  conditionalIndependenciesWith G.dSeparated G.vertexList policy maxC returnAll

end MG
end Y0
