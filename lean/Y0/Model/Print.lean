/-
  Y0.Model.Print — the y0-syntax printers (`to_y0()` of every DSL class, src/y0/dsl.py) as functions
  to a TOKEN list.  `str(e)` of the Python object, tokenised by Python's own `tokenize`, is compared
  with `Print.expr e` on every run (correspondence stream (i) of C12).

  Python                                    model
  ----------------------------------------  -----------------------------------------
  Variable.to_y0 / Intervention.to_y0       Print.var (ivs = [])
  CounterfactualVariable.to_y0              Print.var (ivs ≠ [])
  Distribution.to_y0 (_list_to_y0)          Print.dist
  Probability._help_level_2_distribution    Print.level2
  Probability.to_y0                         Print.prob none
  PopulationProbability.to_y0               Print.prob (some pop), Print.pop
  Product.to_y0                             Print.expr (.prod fs)  = Print.exprs fs
  Sum.to_y0                                 Print.expr (.sum e rs)
  Fraction.to_y0(parens)                    Print.fracInner / Print.expr (.frac n d)
  One.to_y0 / Zero.to_y0 / QFactor.to_y0    Print.expr .one / .zero / (.q d c)

  The model is of the FIXED code (fix-print): the denominator of a fraction is parenthesised when it
  is a product (F5), the `P[...]` subscripts are printed in `_sort_interventions` order (F4), the population
  `TARGET_DOMAIN` is printed as the constant `TARGET_DOMAIN` (its name `pi*` is not an identifier).
  Core Lean only.
-/
import Y0.Model.Expr

namespace Y0

/-- the names of the parser's table that are not variables -/
inductive Kw where
  | P | PP | Sum | Q | One | Zero | TargetDomain
  deriving DecidableEq, Repr, Inhabited

/-- Python tokens of the sub-language the printers emit (plus `~` and `&`, which the parser accepts) -/
inductive Tok where
  | name (n : Name)
  | kw (k : Kw)
  | lpar | rpar | lbr | rbr | comma
  | plus | minus | tilde | at | star | slash | bar | amp
  deriving DecidableEq, Repr, Inhabited

namespace Print

/-- `sep.join(parts)` on token lists -/
def sepBy (sep : Tok) : List (List Tok) → List Tok
  | [] => []
  | [x] => x
  | x :: y :: xs => x ++ sep :: sepBy sep (y :: xs)

/-- `Variable._get_sign()` -/
def sign : Option Bool → List Tok
  | none => []
  | some true => [.plus]
  | some false => [.minus]

/-- `Intervention.to_y0()` : `+X` / `-X` -/
def iv (i : Iv) : List Tok := [if i.star then .plus else .minus, .name i.name]

/-- `frozenset` of interventions in `_sort_interventions` order -/
def normIvs (is : List Iv) : List Iv := sortBy Iv.lt (dedup' is)

/-- the ` @ …` suffix of `CounterfactualVariable.to_y0`: one intervention bare, several in parentheses -/
def ivsToks : List Iv → List Tok
  | [] => []
  | [i] => .at :: iv i
  | is => .at :: .lpar :: sepBy .comma (is.map iv) ++ [.rpar]

/-- `Variable.to_y0` / `CounterfactualVariable.to_y0`:
`{sign}{name}`, `{sign}{name} @ {iv}`, `{sign}{name} @ ({iv}, {iv}, …)` -/
def var (v : Var) : List Tok :=
  sign v.star ++ .name v.name :: ivsToks (normIvs v.ivs)

/-- `_list_to_y0` -/
def vars (vs : List Var) : List Tok := sepBy .comma (vs.map var)

/-- `Distribution.to_y0` -/
def dist (c p : List Var) : List Tok :=
  if p.isEmpty then vars c else vars c ++ .bar :: vars p

/-- `Probability._help_level_2_distribution`: the common, non-empty intervention set of all children
and parents, if there is one -/
def level2 (c p : List Var) : Option (List Iv) :=
  match dedup' ((c ++ p).map fun v => normIvs v.ivs) with
  | [s] => if s.isEmpty then none else some s
  | _ => none

/-- the `P[...]` subscripts: `+X` when starred, `X` otherwise (FIXED code: `_sort_interventions` order) -/
def l2ivs (is : List Iv) : List Tok :=
  sepBy .comma (is.map fun i => if i.star then [.plus, .name i.name] else [.name i.name])

/-- `Variable(name=v.name, star=v.star)` -/
def strip (v : Var) : Var := { name := v.name, star := v.star, isIv := v.isIv, ivs := [] }

/-- the name of `y0.dsl.TARGET_DOMAIN = Population("pi*")` in the harness's name table (harness/oracles/print_codec.py
puts "pi*" at its place in Python's string order; the harness asserts the index at import) -/
def targetName : Name := 525

/-- `TARGET_DOMAIN` -/
def targetDomain : Var := Var.plain targetName

/-- the population inside `PP[…]` (FIXED code): the target domain, whose name "pi*" is not an identifier, is written
as the DSL constant `TARGET_DOMAIN`; any other population as the variable it is -/
def pop (v : Var) : List Tok := if v = targetDomain then [.kw .TargetDomain] else var v

/-- `P` or `PP[pop]` -/
def probHead : Option Var → List Tok
  | none => [.kw .P]
  | some p => .kw .PP :: .lbr :: pop p ++ [.rbr]

/-- `Probability.to_y0` / `PopulationProbability.to_y0` -/
def prob (pop : Option Var) (c p : List Var) : List Tok :=
  match level2 c p with
  | none => probHead pop ++ .lpar :: dist c p ++ [.rpar]
  | some is => probHead pop ++ .lbr :: l2ivs is ++ .rbr :: .lpar :: dist (c.map strip) (p.map strip) ++ [.rpar]

/-- `sorted(self.ranges, key=attrgetter("name"))` (also `_sorted_domain`, `_sorted_codomain`) -/
def byName (vs : List Var) : List Var := sortBy (fun a b => a.name < b.name) vs

def isProd : Expr → Bool
  | .prod _ => true
  | _ => false

/-- how an expression is asked to print itself:
  * `full`  : `e.to_y0()`
  * `bare`  : `e.to_y0(parens=False)` when `e` is a `Fraction` (from `Sum.to_y0`), `e.to_y0()` otherwise
  * `denom` : as the denominator of a fraction: `(…)` around a `Product` (FIXED code, F5) -/
inductive Mode where
  | full | bare | denom
  deriving DecidableEq, Repr

def paren (ts : List Tok) : List Tok := .lpar :: ts ++ [.rpar]

mutual
/-- `Expression.to_y0()` -/
def exprM : Mode → Expr → List Tok
  | _, .prob pop c p => prob pop c p
  | m, .prod fs => if m = .denom then paren (exprs fs) else exprs fs
  | _, .sum e rs =>
      if rs.isEmpty then .kw .Sum :: paren (exprM .bare e)
      else .kw .Sum :: .lbr :: vars (byName rs) ++ .rbr :: paren (exprM .bare e)
  | m, .frac n d =>
      let s := paren (exprM .full n ++ .slash :: exprM .denom d)
      if m = .bare then s else paren s
  | _, .one => [.kw .One, .lpar, .rpar]
  | _, .zero => [.kw .Zero, .lpar, .rpar]
  | _, .q dom cod => .kw .Q :: .lbr :: vars (byName cod) ++ .rbr :: paren (vars (byName dom))
/-- `" * ".join(expr.to_y0() for expr in self.expressions)` -/
def exprs : List Expr → List Tok
  | [] => []
  | [e] => exprM .full e
  | e :: f :: fs => exprM .full e ++ .star :: exprs (f :: fs)
end

/-- `str(e)` as tokens -/
def expr (e : Expr) : List Tok := exprM .full e

/-! ### printable expressions

`wf e` is what the dataclasses' `__post_init__` checks guarantee for every constructed object (a distribution has
a child, a product has two or more factors, a sum has ranges, Q factors are over something) plus: no factor of a
product is itself a product (true of everything the operators build: every `__mul__` overload flattens). -/

mutual
def wf : Expr → Bool
  | .prob _ c _ => !c.isEmpty
  | .prod fs => decide (2 ≤ fs.length) && wfFactors fs
  | .sum e rs => !rs.isEmpty && wf e
  | .frac n d => wf n && wf d
  | .one => true
  | .zero => true
  | .q dom cod => !dom.isEmpty && !cod.isEmpty
def wfFactors : List Expr → Bool
  | [] => true
  | f :: fs => wf f && !isProd f && wfFactors fs
end

end Print
end Y0
