/-
  Y0.Model.Latent — executable model of the latent-variable-DAG code paths of property C16:

  * `y0.graph._latent_dag` / `NxMixedGraph.to_latent_variable_dag`      → `LV.ofMG` (`toLV`)
  * `NxMixedGraph.from_latent_variable_dag`                                → `LV.toMG?` (`fromLV`)
  * `y0.algorithm.simplify_latent`: `iter_latents`, `transform_latents_with_parents`,
    `remove_widow_latents`, `remove_unidirectional_latents`, `remove_redundant_latents`,
    `simplify_latent_dag`, `evans_simplify`
  * `y0.algorithm.taheri_design._get_result` (the consumer: simplify, read off, run ID)   → `LV.getResult`

  A latent-variable DAG (`nx.DiGraph` with a boolean node attribute) is an insertion-ordered node
  list, an insertion-ordered edge list, the list of nodes whose tag is `True`, and the list of nodes
  that carry no tag at all (only malformed inputs have those).

  Names are natural numbers whose order is the Python order of the `Variable`s (the harness ranks the
  names of each case by Python's own string sort).  Two naming functions of the Python are parameters:
  `fresh i` is the name `Variable(f"u_{i}")` that `_latent_dag` gives the i-th bidirected edge and
  `prime v` is `Variable(f"{v}_prime")` that rule 1 gives the exogenous copy of latent `v`.

  The model is of the code AFTER the `fix:` commits of F7 (nodes without edges survive both
  conversions; widow removal runs to a fixpoint), F13 and F14 (generated names skip existing nodes).

  Core Lean only (no Mathlib): the driver is compiled natively.
-/
import Y0.Model.Graph
import Y0.Model.Id

namespace Y0

structure LV where
  nodes : List Nat
  edges : List (Nat × Nat)
  /-- nodes with `data[tag] == True` -/
  latent : List Nat
  /-- nodes with no `tag` key (`nx.DiGraph.add_node(n)` without attributes) -/
  untagged : List Nat := []
  deriving Repr, Inhabited, DecidableEq

namespace LV

/-- `graph.predecessors(v)` -/
def parents (D : LV) (v : Nat) : List Nat := (D.edges.filter (fun e => e.2 = v)).map (·.1)
/-- `graph.successors(v)` -/
def children (D : LV) (v : Nat) : List Nat := (D.edges.filter (fun e => e.1 = v)).map (·.2)

/-- `graph.add_node(n)` with no attributes: a new node has no tag -/
def addPlainNode (D : LV) (n : Nat) : LV :=
  if n ∈ D.nodes then D else { D with nodes := D.nodes ++ [n], untagged := D.untagged ++ [n] }

/-- `graph.add_node(n, **{tag: True})`: creates the node or overwrites the tag of an existing one -/
def addLatentNode (D : LV) (n : Nat) : LV :=
  { D with nodes := if n ∈ D.nodes then D.nodes else D.nodes ++ [n]
           latent := if n ∈ D.latent then D.latent else D.latent ++ [n]
           untagged := D.untagged.filter (· ≠ n) }

/-- `graph.add_edge(u, v)`: endpoints are created (untagged) when absent; re-adding is a no-op -/
def addEdge (D : LV) (e : Nat × Nat) : LV :=
  let D := (D.addPlainNode e.1).addPlainNode e.2
  if e ∈ D.edges then D else { D with edges := D.edges ++ [e] }

/-- `graph.remove_nodes_from(S)` -/
def removeNodes (D : LV) (S : List Nat) : LV :=
  { nodes := D.nodes.filter (· ∉ S)
    edges := D.edges.filter (fun e => e.1 ∉ S ∧ e.2 ∉ S)
    latent := D.latent.filter (· ∉ S)
    untagged := D.untagged.filter (· ∉ S) }

/-- `graph.remove_node(v)` -/
def removeNode (D : LV) (v : Nat) : LV := D.removeNodes [v]

/-- the directed graph as a mixed graph without bidirected edges (for `nx.topological_sort`) -/
def asMG (D : LV) : MG Nat := ⟨D.nodes, D.edges, []⟩

/-- `iter_latents`: the nodes tagged latent, in `nx.topological_sort` order.
`NetworkXUnfeasible` on a cycle, `KeyError` when a node has no tag. -/
def iterLatents (D : LV) : Except Err (List Nat) := do
  let order ← D.asMG.topologicalSort
  if order.any (· ∈ D.untagged) then .error (.internal "KeyError")
  else pure (order.filter (· ∈ D.latent))

/-! ### rule 1: `transform_latents_with_parents` -/

/-- `while new_node in graph: new_node = Variable(f"{new_node}{suffix}")` (after `fix:` F14): the first
of `n, prime n, prime (prime n), …` that is not a node.  Among `|nodes| + 1` distinct candidates one is
free, so the fuel never runs out when the iterates are distinct (they are: each is longer). -/
def primeFree (prime : Nat → Nat) (nodes : List Nat) : Nat → Nat → Nat
  | 0, n => n
  | fuel + 1, n => if n ∈ nodes then primeFree prime nodes fuel (prime n) else n

/-- body of the loop for one latent `v` (`iter_middle_latents` skips it unless it has both parents
and children): remove it, connect every parent to every child, add the exogenous copy (named
`prime v`, or the next free iterate of `prime`) above the children. -/
def transformStep (prime : Nat → Nat) (D : LV) (v : Nat) : LV :=
  let ps := D.parents v
  let cs := D.children v
  if ps.isEmpty || cs.isEmpty then D
  else
    let D1 := D.removeNode v
    let D2 := (ps.flatMap (fun p => cs.map (fun c => (p, c)))).foldl addEdge D1
    let v' := primeFree prime D2.nodes (D2.nodes.length + 1) (prime v)
    let D3 := D2.addLatentNode v'
    cs.foldl (fun D c => D.addEdge (v', c)) D3

/-- `transform_latents_with_parents`.  The Python iterates a lazy `nx.topological_sort` of the graph
it is mutating; the nodes it yields are those of the input graph in the input's generation order
(a removed latent has already been expanded, an added edge starts at an expanded node or at a new
node, and the new node is never an existing one, so no `RuntimeError` can fire). -/
def transformLatentsWithParents (prime : Nat → Nat) (D : LV) : Except Err LV := do
  let ls ← D.iterLatents
  pure (ls.foldl (transformStep prime) D)

/-! ### rule 2: `remove_widow_latents` (to a fixpoint, after `fix:` F7) -/

/-- `iter_widow_latents` -/
def widows (D : LV) : Except Err (List Nat) := do
  let ls ← D.iterLatents
  pure (ls.filter (fun v => (D.children v).isEmpty))

/-- the `while` loop; every round removes at least one node, so `fuel = |nodes| + 1` rounds suffice -/
def removeWidowsLoop : Nat → LV → List Nat → Except Err (LV × List Nat)
  | 0, D, acc => .ok (D, acc)
  | fuel + 1, D, acc => do
    let ws ← D.widows
    if ws.isEmpty then pure (D, acc)
    else removeWidowsLoop fuel (D.removeNodes ws) (acc ++ ws)

def removeWidowLatents (D : LV) : Except Err (LV × List Nat) :=
  removeWidowsLoop (D.nodes.length + 1) D []

/-! ### rule 3: `remove_unidirectional_latents` -/

/-- `iter_unidirectional_latents`: `graph.out_degree(node) == 1` -/
def unidirectional (D : LV) : Except Err (List Nat) := do
  let ls ← D.iterLatents
  pure (ls.filter (fun v => (D.children v).length = 1))

def removeUnidirectionalLatents (D : LV) : Except Err (LV × List Nat) := do
  let us ← D.unidirectional
  pure (D.removeNodes us, us)

/-! ### rule 4: `remove_redundant_latents` -/

/-- `_iter_redundant_latents`: `left` is dropped when some `right` has the same children and a smaller
name, or a strict superset of children. -/
def redundant (D : LV) : Except Err (List Nat) := do
  let ls ← D.iterLatents
  pure (ls.filter (fun l => ls.any (fun r =>
    let lc := D.children l
    let rc := D.children r
    (seteq' lc rc && decide (l > r)) || (subset' lc rc && !subset' rc lc))))

def removeRedundantLatents (D : LV) : Except Err (LV × List Nat) := do
  let rs ← D.redundant
  pure (D.removeNodes rs, rs)

/-! ### `simplify_latent_dag` -/

structure SimplifyResults where
  graph : LV
  widows : List Nat
  unidirectional : List Nat
  redundant : List Nat
  deriving Repr

def simplify (prime : Nat → Nat) (D : LV) : Except Err SimplifyResults := do
  let D1 ← D.transformLatentsWithParents prime
  let (D2, ws) ← D1.removeWidowLatents
  let (D3, us) ← D2.removeUnidirectionalLatents
  let (D4, rs) ← D3.removeRedundantLatents
  pure ⟨D4, ws, us, rs⟩

/-! ### `from_latent_variable_dag` (after `fix:` F7: observed nodes are added first) -/

/-- what one node contributes: a latent joins its children pairwise by bidirected edges, an observed
node points at its children -/
def fromStep (D : LV) (G : MG Nat) (v : Nat) : MG Nat :=
  if v ∈ D.latent then (MG.pairs (D.children v)).foldl MG.addBi G
  else ((D.children v).map (fun c => (v, c))).foldl MG.addDi G

def toMG? (D : LV) : Except Err (MG Nat) :=
  if !D.untagged.isEmpty then .error (.invalidInput "ValueError")
  else
    let G0 := (D.nodes.filter (· ∉ D.latent)).foldl MG.addNode MG.empty
    .ok (D.nodes.foldl (fromStep D) G0)

/-! ### `_latent_dag` / `to_latent_variable_dag` (after `fix:` F7: `nodes=self.nodes()`) -/

/-- `undirected.edges()` reports an edge as (earlier node, later node) in node insertion order -/
def nxOrient (nodes : List Nat) (e : Nat × Nat) : Nat × Nat :=
  if nodes.idxOf e.1 ≤ nodes.idxOf e.2 then e else (e.2, e.1)

/-- `directed.edges()`: grouped by source in node order, successors in insertion order -/
def nxDiEdges (G : MG Nat) : List (Nat × Nat) := G.nodes.flatMap (fun n => G.di.filter (fun e => e.1 = n))

def pairLe (a b : Nat × Nat) : Bool := a.1 < b.1 || (a.1 == b.1 && a.2 ≤ b.2)

/-- insertion into a list sorted by `pairLe` -/
def insertPair (a : Nat × Nat) : List (Nat × Nat) → List (Nat × Nat)
  | [] => [a]
  | b :: bs => if pairLe a b then a :: b :: bs else b :: insertPair a bs

/-- `sorted(bi_edges_list)` (tuples of `Variable`s compare lexicographically by name) -/
def sortPairs (l : List (Nat × Nat)) : List (Nat × Nat) := l.foldr insertPair []

/-- `next(name for name in latent_names if name not in rv)` (after `fix:` F13): the first index `j ≥ i`
whose name `fresh j` is not a node; `|nodes| + 1` candidates suffice when `fresh` is injective. -/
def nextFree (fresh : Nat → Nat) (nodes : List Nat) : Nat → Nat → Nat
  | 0, i => i
  | fuel + 1, i => if fresh i ∈ nodes then nextFree fresh nodes fuel (i + 1) else i

/-- the loop `for u, v in sorted(bi_edges_list)`; `i` is the state of the shared counter `itt.count(start)` -/
def addLatents (fresh : Nat → Nat) : List (Nat × Nat) → Nat → LV → LV
  | [], _, D => D
  | (u, v) :: es, i, D =>
    let j := nextFree fresh D.nodes (D.nodes.length + 1) i
    addLatents fresh es (j + 1) (((D.addLatentNode (fresh j)).addEdge (fresh j, u)).addEdge (fresh j, v))

def ofMG (fresh : Nat → Nat) (G : MG Nat) : LV :=
  let bis := G.bi.map (nxOrient G.nodes)
  let di := nxDiEdges G
  let base : LV :=
    { nodes := dedup' (G.nodes ++ bis.flatMap (fun e => [e.1, e.2]) ++ di.flatMap (fun e => [e.1, e.2]))
      edges := dedup' di
      latent := []
      untagged := [] }
  addLatents fresh (sortPairs bis) 0 base

/-! ### `evans_simplify` -/

/-- `for node, data in lv_dag.nodes(data=True): if node in latents: data[tag] = True` -/
def markLatent (D : LV) (extra : List Nat) : LV :=
  { D with latent := D.latent ++ (D.nodes.filter (fun n => n ∈ extra ∧ n ∉ D.latent)) }

def evansSimplify (fresh prime : Nat → Nat) (G : MG Nat) (extra : List Nat) : Except Err (MG Nat) := do
  let D := (ofMG fresh G).markLatent extra
  let r ← D.simplify prime
  r.graph.toMG?

/-! ### `taheri_design._get_result` -/

/-- the fields of `Result` that are computed (the others echo the arguments) -/
structure DesignResult where
  identifiable : Bool
  preNodes : Nat
  preEdges : Nat
  postNodes : Nat
  postEdges : Nat
  admg : MG Nat
  deriving Repr

/-- `_get_result(lvdag, latents, observed, cause, effect)`: simplify the LV-DAG (in place), read the ADMG
off it, `KeyError` when the cause or the effect is not a node of it, then ID for `P(effect | do(cause))`;
`Unidentifiable` becomes `identifiable = False`, any other exception propagates.  `topo` stands for
`graph.topological_sort()` inside ID (see Model/Id.lean); `canonicalize` only rewrites a returned estimand. -/
def getResult (prime : Nat → Nat) (topo : MG Name → Except Err (List Name)) (D : LV) (cause effect : Nat) :
    Except Err DesignResult := do
  let r ← D.simplify prime
  let admg ← r.graph.toMG?
  if cause ∉ admg.nodes then .error (.invalidInput "KeyError")
  else if effect ∉ admg.nodes then .error (.invalidInput "KeyError")
  else
    let mk (b : Bool) : DesignResult :=
      ⟨b, D.nodes.length, D.edges.length, r.graph.nodes.length, r.graph.edges.length, admg⟩
    match identify topo admg [cause] [effect] with
    | .ok _ => .ok (mk true)
    | .error .unidentifiable => .ok (mk false)
    | .error e => .error e

end LV
end Y0
