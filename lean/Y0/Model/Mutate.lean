/-
  Y0.Model.Mutate — src/y0/mutate/chain.py, contract.py, utils.py (Applier) and predicates.py, branch for branch.

  Python                                   model
  ---------------------------------------  ------------------------------------------
  chain_expand(p, reorder, ordering)       chainExpand
  fraction_expand(p)                       fractionExpand
  bayes_expand(p)                          bayesExpand
  contract(e)                              contract
  recursive_contract(e) (= _Contracter)    recursiveContract
  has_markov_postcondition(e)              hasMarkovPostcondition

  The helpers take a `Probability`; an argument of another class is an `AttributeError` in Python (`invalidInput`).
  Core Lean only.
-/
import Y0.Model.Canon

namespace Y0

/-- `Distribution(children=(c,)).given(parents)` wrapped by `p._new`: parents are `_upgrade_ordering`ed -/
def kernel (pop : Option Var) (c : Var) (parents : List Var) : Expr :=
  .prob pop [c] (upgradeOrdering parents)

/-- the generator of `chain_expand`: one factor per position of `ordered_children` -/
def chainFactors (pop : Option Var) (parents : List Var) : List Var → List Expr
  | [] => []
  | c :: rest => kernel pop c (rest ++ parents) :: chainFactors pop parents rest

/-- `chain_expand(p, reorder=..., ordering=...)` -/
def chainExpand (p : Expr) (reorder : Bool) (ordering : Option (List Var)) : Except Err Expr :=
  match p with
  | .prob pop c pa =>
    if reorder then
      let o := ensureOrdering p ordering
      if !(subset' c o) then throw (.invalidInput "ValueError")
      else pure (productSafe (chainFactors pop pa (inter' o c)))
    else pure (productSafe (chainFactors pop pa c))
  | _ => throw (.invalidInput "AttributeError")

/-- `fraction_expand(p)` -/
def fractionExpand (p : Expr) : Except Err Expr :=
  match p with
  | .prob pop c pa =>
    if pa.isEmpty then pure p
    else mkFrac (.prob pop (c ++ pa) []) (.prob pop (upgradeOrdering pa) [])
  | _ => throw (.invalidInput "AttributeError")

/-- `bayes_expand(p)` -/
def bayesExpand (p : Expr) : Except Err Expr :=
  match p with
  | .prob pop c pa =>
    if pa.isEmpty then pure p
    else (Expr.prob pop (c ++ pa) []).normalizeMarginalize c
  | _ => throw (.invalidInput "AttributeError")

/-- `sorted(set, key=attrgetter("name"))` on a set of variables: by name; elements that share a name come in set
iteration order in Python, here in `Var.keyLt` order -/
def sortByName (vs : List Var) : List Var :=
  sortStable (fun a b => decide (a.name < b.name)) (upgradeOrdering vs)

/-- `contract(e)` (after the fixes: the denominator's variables must be a PROPER subset of the numerator's, and both
probabilities must be over the same population) -/
def contract (e : Expr) : Expr :=
  match e with
  | .frac (.prob pop nc []) (.prob pop' dc []) =>
    if pop = pop' ∧ subset' dc nc ∧ ¬ subset' nc dc then
      .prob pop (sortByName (diff' (dedup' nc) dc)) (sortByName (inter' (dedup' nc) dc))
    else e
  | _ => e

mutual
/-- `Applier.apply_expression` of the `_Contracter` subclass -/
def recursiveContract : Expr → Except Err Expr
  | .sum e r => do pure (.sum (← recursiveContract e) r)
  | .prod fs => do pure (productSafe (← recursiveContractList fs))
  | .frac n d => pure (contract (.frac n d))
  | e => pure e
def recursiveContractList : List Expr → Except Err (List Expr)
  | [] => pure []
  | e :: es => do
      let a ← recursiveContract e
      let b ← recursiveContractList es
      pure (a :: b)
end

mutual
/-- `has_markov_postcondition` -/
def hasMarkovPostcondition : Expr → Except Err Bool
  | .prob _ c _ => pure (c.length == 1)
  | .prod fs => hasMarkovPostconditionList fs
  | .sum e _ => hasMarkovPostcondition e
  | .frac n d => do
      -- `a and b`: the denominator is only inspected when the numerator passes
      if ← hasMarkovPostcondition n then hasMarkovPostcondition d else pure false
  | _ => throw (.invalidInput "TypeError")
/-- `all(...)` over a generator: stops at the first False -/
def hasMarkovPostconditionList : List Expr → Except Err Bool
  | [] => pure true
  | e :: es => do
      if ← hasMarkovPostcondition e then hasMarkovPostconditionList es else pure false
end

end Y0
