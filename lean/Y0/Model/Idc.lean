/-
  Y0.Model.Idc — executable model of the IDC algorithm (src/y0/algorithm/identify/id_c.py) and of
  `identify_outcomes(..., conditions=…)` (api.py).

  * `rule2Applies`  `rule_2_of_do_calculus_applies`: every outcome is separated from the condition `c` given
                    `X ∪ (Z − c)` in `G` with the edges into `X` and out of `c` removed.
  * `idcAlg`        `idc`: the first condition (in the order the list `Z` gives) to which rule 2 applies is moved
                    to the treatments and the algorithm recurses; when none applies, `identify` runs on the
                    unconditioned query `P(Y, Z | do X)` and the result is divided by its marginal over `Y`.
                    Recursion on the length of `Z` (structural through a fuel equal to it).

  Parameters: `sep` — the separation test (`are_d_separated`; instantiated by `MG.dSeparated` of Y0.Model.Sep in
  the driver, kept abstract so that the theorems name exactly what they need from it); `topo` as in Y0.Model.Id.
  The Python iterates over a *set* of conditions; the order is a parameter of the model too (the list `Z`): the
  driver receives the order in which the real run tried them.
-/
import Y0.Model.Id

namespace Y0
open IdDsl

abbrev SepTest := MG Name → Name → Name → List Name → Except Err Bool

/-- `all(are_d_separated(graph_mod, outcome, condition, conditions=…) for outcome in outcomes)` (short-circuit) -/
def allSep (sep : SepTest) (Gm : MG Name) (c : Name) (conds : List Name) : List Name → Except Err Bool
  | [] => .ok true
  | y :: ys => do
    if ← sep Gm y c conds then allSep sep Gm c conds ys else pure false

/-- `rule_2_of_do_calculus_applies(identification, condition)` -/
def rule2Applies (sep : SepTest) (G : MG Name) (X Y Z : List Name) (c : Name) : Except Err Bool :=
  let conds := union' X (Z.filter (· ≠ c))
  let Gm := (G.removeInEdges X).removeOutEdges [c]
  allSep sep Gm c conds Y

/-- the loop `for condition in identification.conditions: if rule_2…: return idc(exchange…)`:
the first condition of `todo` to which rule 2 applies -/
def firstApplicable (sep : SepTest) (G : MG Name) (X Y Z : List Name) : List Name → Except Err (Option Name)
  | [] => .ok none
  | c :: cs => do
    if ← rule2Applies sep G X Y Z c then pure (some c) else firstApplicable sep G X Y Z cs

/-- `idc(identification)` with estimand `est`; `fuel` bounds the number of exchanges (`|Z|` suffices) -/
def idcAlg (sep : SepTest) (topo : MG Name → Except Err (List Name)) (G : MG Name) (est : Expr) :
    Nat → List Name → List Name → List Name → Except Err Expr
  | fuel, X, Y, Z => do
    match ← firstApplicable sep G X Y Z Z with
    | some c =>
      match fuel with
      | 0 => throw (.internal "measure")
      | fuel + 1 => idcAlg sep topo G est fuel (union' X [c]) Y (Z.filter (· ≠ c))
    | none =>
      -- identify(identification.uncondition()).normalize_marginalize(identification.outcomes)
      let e ← idAlg topo { G := G, X := X, Y := union' Y Z, est := est }
      normalizeMarginalize e Y

/-- `Identification(query, graph)` + `idc` -/
def idc (sep : SepTest) (topo : MG Name → Except Err (List Name)) (G : MG Name) (X Y Z : List Name) :
    Except Err Expr := do
  let est ← pJoint G.nodes
  idcAlg sep topo G est Z.length X Y Z

/-- `identify_outcomes(graph, treatments, outcomes, conditions)` with `conditions is not None` -/
def identifyOutcomesC (sep : SepTest) (topo : MG Name → Except Err (List Name)) (G : MG Name) (X Y Z : List Name) :
    Except Err (Option Expr) :=
  match idc sep topo G X Y Z with
  | .ok e => .ok (some e)
  | .error .unidentifiable => .ok none
  | .error e => .error e

end Y0
