/-
  Y0.Model.Ctf — executable model of the counterfactual helper functions of
  `src/y0/algorithm/counterfactual_transport/ancestor_utils.py` and `api.py` (property C19):

    minimize_counterfactual, _minimize_set, minimize_event           (||Y_x||)
    get_ancestors_of_counterfactual                                  (Def. 2.1 of Correa, Lee, Bareinboim 2022)
    _get_conditioned_variables_in_ancestral_set,
    _get_ancestral_set_after_intervening_on_conditioned_variables,
    get_ancestral_set_root_variable,
    _merge_frozen_sets_with_common_vertices,
    _merge_frozen_sets_linked_by_bidirectional_edges,
    _compute_ancestral_components_from_ancestral_sets,
    get_ancestral_components                                         (Def. 4.2)

  The ctf-factor functions are in Y0.Model.CtfFactor, SIMPLIFY (Algorithm 1) in Y0.Model.CtfSimplify.

  Conventions.
  * A graph is `MG Name` (nodes are plain `Variable(name)`); a counterfactual variable is `Y0.Var`
    (name, optional value mark `star`, sorted duplicate-free list of interventions `ivs`).
    `CounterfactualVariable.__post_init__` raises `ValueError` on an empty intervention set: `mkCf`.
  * Python `set`/`frozenset` results are duplicate-free lists, to be read up to order.
    A `frozenset[Intervention]` is kept sorted by `Iv.lt`, so structural equality of `Var` is `==` of the dataclasses.
  * Every place where the Python can raise is an explicit `Except Err`.
  Core Lean only.
-/
import Y0.Model.Graph
import Y0.Model.Expr

namespace Y0.Ctf
open Y0

/-- Boolean membership through `DecidableEq` (the derived `BEq` instances of `Var`/`Iv` are not known to be lawful, so
`decide (x ∈ l)` is stated in a generic context) -/
def mem' {α : Type} [DecidableEq α] (x : α) (l : List α) : Bool := decide (x ∈ l)

/-- the value bound to an event variable: `None` or an `Intervention(name, star)` -/
abbrev Val := Option Iv
/-- `Event = list[tuple[Variable, Intervention | None]]` -/
abbrev Event := List (Var × Val)

/-- `{intervention.get_base() for intervention in variable.interventions}` -/
def ivNames (v : Var) : List Name := dedup' (v.ivs.map (·.name))

/-- `CounterfactualVariable(name=…, star=…, interventions=…)`; `__post_init__` raises `ValueError` when empty -/
def mkCf (name : Name) (star : Option Bool) (ivs : List Iv) : Except Err Var :=
  if ivs.isEmpty then .error (.invalidInput "ValueError") else .ok { name := name, star := star, ivs := ivs }

/-! ### minimisation  ‖Y_x‖  (ancestor_utils.py:94-135) -/

/-- `minimize_counterfactual(variable, graph)`.
`T = X ∩ An(Y)_{G_{\overline X}}`, `t = x ∩ T`.  When `t` is empty the result is the plain
`Variable(name, star)` (after `fix:` F8a; before it the empty set went to the `CounterfactualVariable`
constructor, which raises `ValueError`). -/
def minimize (g : MG Name) (v : Var) : Except Err Var :=
  if !v.isCf then .ok v
  else do
    let X := ivNames v
    let A ← (g.removeInEdges X).ancestorsInclusive [v.name]
    let T := X.filter (fun x => decide (x ∈ A))
    let t := v.ivs.filter (fun i => decide (i.name ∈ T))
    if t.isEmpty then pure { name := v.name, star := v.star } else mkCf v.name v.star t

/-- `_minimize_set` -/
def minimizeSet (g : MG Name) (vs : List Var) : Except Err (List Var) := do
  pure (dedup' (← vs.mapM (minimize g)))

/-- `minimize_event` (api.py:543-556) -/
def minimizeEvent (g : MG Name) (e : Event) : Except Err Event :=
  e.mapM (fun p => do pure (← minimize g p.1, p.2))

/-! ### ancestors of a counterfactual variable (ancestor_utils.py:20-76) -/

/-- one element of `An(Y_x)`: the ancestor `a` with the subscripts `z = x ∩ An(a)_{G_{\overline X}}`;
`ancestor.intervene(z)` builds a `CounterfactualVariable` with `star=None` -/
def ancestorVar (gin : MG Name) (v : Var) (a : Name) : Except Err Var := do
  let Aa ← gin.ancestorsInclusive [a]
  let z := v.ivs.filter (fun i => decide (i.name ∈ Aa))
  pure (if z.isEmpty then Var.plain a else { name := a, ivs := z })

/-- `get_ancestors_of_counterfactual(event, graph)`.
Not a `CounterfactualVariable`: `graph.ancestors_inclusive(event)` — `_ensure_set` raises `TypeError` for an
`Intervention`, and a `Variable` carrying a star is not a node (`NetworkXError`). -/
def ctfAncestors (g : MG Name) (v : Var) : Except Err (List Var) :=
  if !v.isCf then
    if v.isIv then .error (.invalidInput "TypeError")
    else if v.star.isSome then .error (.internal "NetworkXError")
    else do pure ((← g.ancestorsInclusive [v.name]).map Var.plain)
  else do
    let X := ivNames v
    let gin := g.removeInEdges X
    let A ← (g.removeOutEdges X).ancestorsInclusive [v.name]
    A.mapM (ancestorVar gin v)

/-! ### ancestral sets (ancestor_utils.py:138-209) -/

/-- `_get_conditioned_variables_in_ancestral_set`: `V(‖X_*‖ ∩ An(W_t))` -/
def condInAncestralSet (g : MG Name) (cond : List Var) (root : Var) : Except Err (List Name) := do
  let m ← minimizeSet g cond
  let a ← ctfAncestors g root
  pure (dedup' ((m.filter (fun x => mem' x a)).map (·.name)))

/-- `_get_ancestral_set_after_intervening_on_conditioned_variables`: `An(W_t)` in `G` with the edges out of
`X_*(W_t)` removed -/
def ancestralSetAfter (g : MG Name) (cond : List Var) (root : Var) : Except Err (List Var) := do
  let c ← condInAncestralSet g cond root
  ctfAncestors (g.removeOutEdges c) root

/-- `get_ancestral_set_root_variable` (after `fix:` f335599): the form in which the root `W_t` appears in its own
ancestral set, `‖W_t‖` of the graph without the edges out of `X_*(W_t)`; Algorithm 3 looks its outcomes up in the
ancestral components under this form -/
def ancestralSetRoot (g : MG Name) (cond : List Var) (root : Var) : Except Err Var := do
  let c ← condInAncestralSet g cond root
  minimize (g.removeOutEdges c) root

/-! ### merging ancestral sets into ancestral components (ancestor_utils.py:212-366, 404-599)

Both merge passes build a graph whose nodes are the input sets (`adj_list`), run a depth-first traversal from every not
yet visited node and return the union of each traversal.  The traversal order depends on Python's set iteration order
but the result, as a set of sets, is the set of unions of the connected components; the model computes the components
with `MG.districts` on the graph whose nodes are the input sets themselves (a `frozenset` is a list here; two lists
with the same elements share their base variables, are linked by the first pass and end up in one union, so the
identification of equal frozensets needs no separate step). -/

/-- `get_base_variables` -/
def bases (s : List Var) : List Name := dedup' (s.map (·.name))

/-- the edges of `adj_list`: all ordered pairs of input sets that the pass links (`combinations_with_replacement`
yields each unordered pair once; the graph is undirected) -/
def linkPairs (sets : List (List Var)) (R : List Var → List Var → Bool) : List (List Var × List Var) :=
  sets.flatMap (fun s => (sets.filter (R s)).map (fun t => (s, t)))

/-- `result.add(node.union(*neighbors))` for every traversal: the union of each connected component -/
def mergeBy (sets : List (List Var)) (R : List Var → List Var → Bool) : List (List Var) :=
  let gr : MG (List Var) := MG.fromEdges [] [] (linkPairs sets R)
  gr.districts.map (fun comp => dedup' comp.flatten)

/-- `converted_sets[r1] & converted_sets[r2]` -/
def shareBase (s t : List Var) : Bool := (bases s).any (fun b => decide (b ∈ bases t))

/-- `_merge_frozen_sets_with_common_vertices`: sets are linked when they share a base variable.
A set is linked to itself only when it is non-empty, so an empty input set never enters `adj_list`
and is dropped. -/
def mergeCommon (sets : List (List Var)) : List (List Var) := mergeBy sets shareBase

/-- the link of the second pass: a set with itself, and two sets when a bidirected edge of the graph joins a base
variable of one to a base variable of the other.  An edge with an endpoint outside every input set links nothing
(after `fix:` F8b; before it `vertices_to_input_sets`, a `defaultdict(frozenset)`, mapped such a vertex to the EMPTY
frozenset, which became a node linked to every set with a bidirected edge leaving the input sets).
`vertices_to_input_sets[v]` is the input set containing `v`; the first pass makes the input sets disjoint on base
variables (`mergeCommon_base_disjoint`), which is the only way this function is reached. -/
def biLinked (g : MG Name) (s t : List Var) : Bool :=
  decide (s = t) || g.bi.any (fun e =>
    (decide (e.1 ∈ bases s) && decide (e.2 ∈ bases t)) || (decide (e.2 ∈ bases s) && decide (e.1 ∈ bases t)))

/-- `_merge_frozen_sets_linked_by_bidirectional_edges` -/
def mergeBidirected (g : MG Name) (sets : List (List Var)) : List (List Var) := mergeBy sets (biLinked g)

/-- `_compute_ancestral_components_from_ancestral_sets` -/
def componentsFromSets (g : MG Name) (sets : List (List Var)) : List (List Var) :=
  mergeBidirected g (mergeCommon sets)

/-- `get_ancestral_components(conditioned_variables, root_variables, graph)` (Def. 4.2) -/
def ancestralComponents (g : MG Name) (cond roots : List Var) : Except Err (List (List Var)) := do
  let sets ← roots.mapM (ancestralSetAfter g cond)
  pure (componentsFromSets g sets)

end Y0.Ctf
