/- audit of property C06 (ID / IDC part; the integrator adds the transport / counterfactual parts) -/
import Y0.Props.C06Id

#print axioms Y0.idAlg_vocab
#print axioms Y0.id_vocab
#print axioms Y0.identifyOutcomes_vocab
#print axioms Y0.idcAlg_vocab
#print axioms Y0.idc_vocab
