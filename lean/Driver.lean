/-
  Driver — line protocol.  One request per line:  (<family> <op> <arg> …)
  One reply per line: (ok …) | (err …) | (bad-request).  Imports only Y0.Model/Y0.Driver (no Mathlib).
-/
import Y0.Driver.Graph
import Y0.Driver.Sep
import Y0.Driver.Expr
import Y0.Driver.Id
import Y0.Driver.Latent
import Y0.Driver.Cf
import Y0.Driver.Ctf
import Y0.Driver.Transport
import Y0.Driver.CtfTr
import Y0.Driver.Print
import Y0.Driver.Tian
import Y0.Driver.Sem

open Y0 Y0.Driver

def dispatch (line : String) : String :=
  match Sexp.parse line with
  | some (.list (.atom fam :: .atom op :: args)) =>
    let r : Option Sexp :=
      match fam with
      | "graph" => handleGraph op args
      | "sep" => handleSep op args
      | "expr" => handleExpr op args
      | "id" => handleId op args
      | "latent" => handleLatent op args
      | "cf" => handleCf op args
      | "ctf" => handleCtf op args
      | "transport" => handleTransport op args
      | "ctftr" => handleCtfTr op args
      | "print" => handlePrint op args
      | "tian" => handleTian op args
      | "sem" => handleSem op args
      | _ => none
    match r with
    | some s => toString s
    | none => "(bad-request)"
  | _ => "(bad-request)"

partial def loop (hin : IO.FS.Stream) (hout : IO.FS.Stream) : IO Unit := do
  let line ← hin.getLine
  if line.isEmpty then return ()
  hout.putStrLn (dispatch line)
  hout.flush
  loop hin hout

def main : IO Unit := do
  loop (← IO.getStdin) (← IO.getStdout)
