/- Stand-alone line-protocol loop for the "sem" family only (same protocol as Driver.lean); used by
   tools/sem_crosscheck.py through `lake env lean --run SemMain.lean` when the compiled `y0driver` is not available. -/
import Y0.Driver.Sem
open Y0 Y0.Driver

def dispatchSem (line : String) : String :=
  match Sexp.parse line with
  | some (.list (.atom "sem" :: .atom op :: args)) =>
    match handleSem op args with
    | some s => toString s
    | none => "(bad-request)"
  | _ => "(bad-request)"

partial def loopSem (hin hout : IO.FS.Stream) : IO Unit := do
  let line ← hin.getLine
  if line.isEmpty then return ()
  hout.putStrLn (dispatchSem line)
  hout.flush
  loopSem hin hout

def main : IO Unit := do loopSem (← IO.getStdin) (← IO.getStdout)
