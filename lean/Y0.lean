import Y0.Model.Basic
import Y0.Model.Graph
import Y0.Driver.Graph
import Y0.Spec.GraphSpec
import Y0.Lemmas.Graph
import Y0.Lemmas.Closure
import Y0.Props.C14
