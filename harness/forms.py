"""Argument FORMS: every public entry point is driven through every legal way of passing the same argument.

Motivation (seeded/C04b): a parameter typed `Iterable[Variable]` was always handed over as a list, so a change that
consumed a one-shot iterable before normalising it went unnoticed.  The same value can legally be passed as

* a collection in several concrete types (list / tuple / set / frozenset / dict keys) or as a ONE-SHOT iterable
  (generator / iterator / map) where the hint is `Iterable`;
* a single `Variable` instead of a one-element set where the API says `Variable | Iterable[Variable]`;
* a `str` node name instead of a `Variable` where the API normalises with `Variable.norm`;
* by keyword or by position; an optional argument omitted / `None` / empty;
* a graph built through any public constructor, in any insertion order.

The form of each argument ("slot") of a case is a deterministic function of the case (a CRC of its JSON text, never
Python's `hash`), written into the case as `case["forms"] = {slot: form}` when the case is generated, so that

* a replay file names the exact forms that were used,
* shrinking (which copies the case dict) keeps the form that made the input fail,
* corpus / known-finding cases that predate this module get their forms derived by the same function at run time.

Nothing in here looks at the Lean model or at y0's implementation; it only builds Python values.
"""
from __future__ import annotations

import json
import random
import types
import zlib

from . import gen_graph as G

# every way of handing over a finite collection of values
REITERABLE = ("list", "tuple", "set", "frozenset", "dict_keys")      # `Collection` / `set` hints: can be iterated twice
ONE_SHOT = ("generator", "iterator", "map")                          # legal for `Iterable` hints only
CONTAINERS = REITERABLE + ONE_SHOT
SEQUENCES = ("list", "tuple")                                        # `Sequence` hints
SINGLE = "single"                                                    # a bare Variable instead of a one-element set


def crc(*keys) -> int:
    return zlib.crc32(json.dumps(keys, sort_keys=True, default=str).encode())


def case_key(case) -> str:
    """the case without its recorded forms (what the derived forms are a function of)"""
    return json.dumps({k: v for k, v in case.items() if k != "forms"}, sort_keys=True, default=str)


def derive(case, slots: dict) -> dict:
    """slot -> one of its options, as a deterministic function of the case content"""
    base = case_key(case)
    return {slot: opts[zlib.crc32((slot + "|" + base).encode()) % len(opts)] for slot, opts in slots.items()}


def assign(case, slots: dict) -> dict:
    """write the derived forms into the case (generation time); returns the case"""
    case["forms"] = derive(case, slots)
    return case


def forms_of(case, slots: dict) -> dict:
    """forms of a case: the recorded ones where they are present and still legal options, the derived ones otherwise"""
    rec = case.get("forms") or {}
    out = derive(case, slots)
    for k, v in rec.items():
        if k in slots and v in slots[k]:
            out[k] = v
    return out


def tags(forms: dict, prefix="form_") -> dict:
    return {prefix + k: v for k, v in forms.items()}


# --------------------------------------------------------------------------------------------- collections

def container(vs, form):
    """the values `vs` (a list) in the given concrete form.  `set`-like forms lose duplicates and order, which is what
    a caller passing a set does; one-shot forms can be consumed exactly once."""
    vs = list(vs)
    if form == "list":
        return list(vs)
    if form == "tuple":
        return tuple(vs)
    if form == "set":
        return set(vs)
    if form == "frozenset":
        return frozenset(vs)
    if form == "dict_keys":
        return dict.fromkeys(vs).keys()
    if form == "generator":
        return (v for v in vs)
    if form == "iterator":
        return iter(vs)
    if form == "map":
        return map(lambda v: v, vs)
    raise ValueError(form)


def varset(vs, form):
    """`Variable | Iterable[Variable]` parameters: `single` hands over the bare element of a one-element collection
    (falls back to a set when the collection does not have exactly one element, e.g. after shrinking)"""
    vs = list(vs)
    if form == SINGLE:
        return vs[0] if len(set(vs)) == 1 else set(vs)
    return container(vs, form)


def effective(vs, form):
    """the form actually used by `varset` (for tags)"""
    if form == SINGLE and len(set(vs)) != 1:
        return "set"
    return form


def is_consumed(x) -> bool:
    """True iff `x` is a one-shot iterable that has been exhausted (harmless) -- used to tell mutation of the caller's
    collection from normal consumption of an iterator"""
    return hasattr(x, "__next__")


def snapshot(x):
    """value of a caller-owned argument for the 'arguments are not modified' clause: re-iterable collections by content,
    one-shot iterables are exempt (consuming them is what iteration means)"""
    if x is None or is_consumed(x):
        return None
    if isinstance(x, (list, tuple)):
        return (type(x).__name__, [repr(v) for v in x])
    if isinstance(x, (set, frozenset)) or type(x).__name__ == "dict_keys":
        return (type(x).__name__, sorted(repr(v) for v in x))
    return (type(x).__name__, repr(x))


# --------------------------------------------------------------------------------------------- graphs

# public constructors of NxMixedGraph.  `*_same_order` constructors insert nodes and edges exactly in the order of the
# graph dict (what `from_edges(nodes=[..], directed=[..], undirected=[..])` does), so results that legitimately depend on
# the insertion order (topological_sort) stay comparable with the model; the others reach an EQUAL graph (`__eq__`) by
# another route and, in general, another insertion order.
CTORS_SAME_ORDER = ("from_edges", "from_edges_positional_tuples", "from_edges_generators", "from_edges_iterators",
                    "from_str_edges", "incremental", "incremental_str")
CTORS_ANY_ORDER = ("from_edges_sets", "from_adj", "from_adj_sets", "from_str_adj", "from_latent_variable_dag",
                   "from_latent_variable_dag_str_tag", "incremental_shuffled")
CTORS = CTORS_SAME_ORDER + CTORS_ANY_ORDER


def build_graph(g, ctor="from_edges", seed=0, name=G.vname):
    """NxMixedGraph of the graph dict {nodes, di, bi} (integer space) through the public constructor `ctor`.
    `seed` drives the shuffles of the order-free constructors."""
    import networkx as nx
    from y0.dsl import Variable
    from y0.graph import NxMixedGraph

    V = lambda i: Variable(name(i))  # noqa: E731
    nodes, di, bi = list(g["nodes"]), [tuple(e) for e in g["di"]], [tuple(e) for e in g["bi"]]
    rng = random.Random(crc("graph", seed, ctor))
    if ctor.startswith("from_latent_variable_dag") and any(u == v for u, v in bi):
        ctor = "from_edges"     # a bidirected self-loop has no latent-variable reading
    vn = [V(i) for i in nodes]
    vd = [(V(u), V(v)) for u, v in di]
    vb = [(V(u), V(v)) for u, v in bi]
    if ctor == "from_edges":
        return NxMixedGraph.from_edges(nodes=vn, directed=vd, undirected=vb)
    if ctor == "from_edges_positional_tuples":
        # at least one edge list must be given (documented ValueError otherwise): the other may be omitted when empty
        if not vd and vb:
            return NxMixedGraph.from_edges(tuple(vn) if vn else None, None, tuple(vb))
        if vd and not vb:
            return NxMixedGraph.from_edges(tuple(vn) if vn else None, tuple(vd))
        return NxMixedGraph.from_edges(tuple(vn), tuple(vd), tuple(vb))
    if ctor == "from_edges_generators":
        return NxMixedGraph.from_edges(nodes=(v for v in vn), directed=(e for e in vd), undirected=(e for e in vb))
    if ctor == "from_edges_iterators":
        return NxMixedGraph.from_edges(nodes=iter(vn), directed=map(lambda e: e, vd), undirected=iter(vb))
    if ctor == "from_edges_sets":
        return NxMixedGraph.from_edges(nodes=frozenset(vn), directed=set(vd), undirected=dict.fromkeys(vb).keys())
    if ctor == "from_str_edges":
        sd = [(name(u), name(v)) for u, v in di]
        sb = [(name(u), name(v)) for u, v in bi]
        if sd and not sb:
            return NxMixedGraph.from_str_edges(nodes=[name(i) for i in nodes], directed=sd)
        return NxMixedGraph.from_str_edges(nodes=tuple(name(i) for i in nodes), directed=sd, undirected=(e for e in sb))
    if ctor in ("incremental", "incremental_str"):
        rv = NxMixedGraph()
        conv = name if ctor == "incremental_str" else V
        for i in nodes:
            rv.add_node(conv(i))
        for u, v in di:
            rv.add_directed_edge(conv(u), conv(v))
        for u, v in bi:
            rv.add_undirected_edge(conv(u), conv(v))
        return rv
    if ctor == "incremental_shuffled":
        rv = NxMixedGraph()
        ops = [("n", i) for i in G.all_nodes(g)] + [("d", e) for e in di] + [("b", e) for e in bi]
        rng.shuffle(ops)
        for kind, x in ops:
            if kind == "n":
                rv.add_node(V(x) if rng.random() < 0.5 else name(x))
            elif kind == "d":
                rv.add_directed_edge(V(x[0]), name(x[1])) if rng.random() < 0.5 else rv.add_directed_edge(u=name(x[0]), v=V(x[1]))
            else:
                a, b = x if rng.random() < 0.5 else (x[1], x[0])
                rv.add_undirected_edge(V(a), V(b))
        return rv
    if ctor in ("from_adj", "from_adj_sets", "from_str_adj"):
        conv = name if ctor == "from_str_adj" else V
        coll = (lambda xs: frozenset(xs)) if ctor == "from_adj_sets" else ((lambda xs: tuple(xs)) if rng.random() < 0.5 else list)
        dadj, badj = {}, {}
        for u, v in di:
            dadj.setdefault(conv(u), []).append(conv(v))
        for u, v in bi:
            if rng.random() < 0.5:
                u, v = v, u
            badj.setdefault(conv(u), []).append(conv(v))
        touched = {x for e in di + bi for x in e}
        listed = []
        for i in G.all_nodes(g):
            # an isolated node is named by the `nodes` argument, by a key without neighbours, or both;
            # a node that an edge introduces anyway may be listed as well
            r = rng.random()
            if i in touched:
                if r < 0.4:
                    listed.append(conv(i))
            else:
                if r < 0.67:
                    listed.append(conv(i))
                if r > 0.33:
                    (dadj if rng.random() < 0.5 else badj).setdefault(conv(i), [])
        rng.shuffle(listed)
        dadj = {k: coll(vs) for k, vs in dadj.items()}
        badj = {k: coll(vs) for k, vs in badj.items()}
        f = NxMixedGraph.from_str_adj if ctor == "from_str_adj" else NxMixedGraph.from_adj
        kw = {"nodes": listed} if (listed or rng.random() < 0.5) else {}
        if dadj or rng.random() < 0.5:
            kw["directed"] = types.MappingProxyType(dadj) if rng.random() < 0.3 else dadj
        if badj or rng.random() < 0.5:
            kw["undirected"] = badj
        return f(**kw)
    if ctor in ("from_latent_variable_dag", "from_latent_variable_dag_str_tag"):
        tag = "hidden" if ctor == "from_latent_variable_dag" else "is_latent"
        dag = nx.DiGraph()
        obs = [V(i) for i in G.all_nodes(g)]
        rng.shuffle(obs)
        items = [("o", v) for v in obs] + [("l", k) for k in range(len(bi))]
        rng.shuffle(items)
        for kind, x in items:
            if kind == "o":
                dag.add_node(x, **{tag: False})
            else:
                dag.add_node(Variable(f"ZZL{x}"), **{tag: True})
        edges = list(vd) + [(Variable(f"ZZL{k}"), end) for k, e in enumerate(vb) for end in e]
        rng.shuffle(edges)
        dag.add_edges_from(edges)
        if ctor == "from_latent_variable_dag":
            return NxMixedGraph.from_latent_variable_dag(dag) if rng.random() < 0.5 else \
                NxMixedGraph.from_latent_variable_dag(dag, tag=None)
        return NxMixedGraph.from_latent_variable_dag(dag, tag) if rng.random() < 0.5 else \
            NxMixedGraph.from_latent_variable_dag(graph=dag, tag=tag)
    raise ValueError(ctor)


def constructor_fault(g, graph, ctor, name=G.vname):
    """None, or why the graph a constructor produced is not the graph that was asked for: every node a plain
    `Variable`, node set / directed edge set / bidirected edge set as in the graph dict, both component graphs
    holding every node"""
    from y0.dsl import Variable

    every = list(graph.directed.nodes()) + list(graph.undirected.nodes())
    alien = [n for n in every if type(n) is not Variable]
    if alien:
        return f"constructor {ctor}: node {alien[0]!r} of type {type(alien[0]).__name__} is not a Variable"
    got = (sorted(n.name for n in graph.nodes()),
           sorted((u.name, v.name) for u, v in graph.directed.edges()),
           sorted(tuple(sorted((u.name, v.name))) for u, v in graph.undirected.edges()))
    want = (sorted(name(i) for i in G.all_nodes(g)), sorted({(name(u), name(v)) for u, v in g["di"]}),
            sorted({tuple(sorted((name(u), name(v)))) for u, v in g["bi"]}))
    if got != want:
        return f"constructor {ctor} built {got} instead of {want}"
    if set(graph.directed.nodes()) != set(graph.undirected.nodes()):
        return f"constructor {ctor}: directed and undirected parts hold different node sets"
    return None


# --------------------------------------------------------------------------------------------- canonicalize(expr, ordering)

# canonicalize declares `Sequence[str | Variable] | None`; the consumer (dsl.ensure_ordering, OrderingHint) takes any
# `Iterable[str | Variable]` and re-sorts it, so the ordering only matters as a set of names
ORDERING_CONTAINERS = SEQUENCES + SEQUENCES + ("set", "frozenset", "dict_keys") + ONE_SHOT
ORDERING_CONTAINERS_ORDERED = SEQUENCES + SEQUENCES + ("dict_keys",) + ONE_SHOT     # forms that keep the caller's order
ORDERING_ELEMS = ("variable", "str", "mixed")
NO_ORDERING = ("omitted", "none", "none_keyword")


def canonicalize_slots(ordering, suffix="", ordered_only=False):
    """`ordered_only`: where two calls are compared 'under the same ordering', only forms that hand over the same
    SEQUENCE are the same ordering (that y0 re-sorts the ordering today is an implementation detail)"""
    if ordering is None:
        return {"ordering" + suffix: NO_ORDERING}
    return {"ordering" + suffix: ORDERING_CONTAINERS_ORDERED if ordered_only else ORDERING_CONTAINERS,
            "ordering_elems" + suffix: ORDERING_ELEMS,
            "call" + suffix: ("positional", "keyword")}


def ordering_arg(variables, cform, eform):
    """the ordering (a list of y0 Variables) with plain variables written as `str` names where `eform` says so"""
    from y0.dsl import Variable

    out = []
    for k, v in enumerate(variables):
        plain = type(v) is Variable and v.star is None
        if plain and (eform == "str" or (eform == "mixed" and k % 2 == 0)):
            out.append(v.name)
        else:
            out.append(v)
    return container(out, cform)


def call_canonicalize(canonicalize, e, variables, fm, suffix=""):
    """canonicalize(e, ordering) in the recorded form; `variables` is None or the list of Variables of the ordering"""
    o = fm["ordering" + suffix]
    if variables is None:
        if o == "none":
            return canonicalize(e, None)
        if o == "none_keyword":
            return canonicalize(expression=e, ordering=None)
        return canonicalize(e)
    arg = ordering_arg(variables, o, fm["ordering_elems" + suffix])
    if fm["call" + suffix] == "keyword":
        return canonicalize(expression=e, ordering=arg)
    return canonicalize(e, arg)
