"""Line coverage of the anchored source files of a property while the REAL code is driven by a check
(Python 3.12 `sys.monitoring`; each location reports once and is then disabled, so the overhead is negligible).

The numbers go into the evidence (`anchored_line_coverage`): which share of the executable lines of each anchored
file the run's inputs executed, and a sample of lines never reached — so a reader can see what the correspondence
and the oracle could not have observed.  Coverage is never a verdict.
"""
from __future__ import annotations

import sys
from pathlib import Path

_TOOL = 3  # a free tool id (0 debugger, 1 coverage, 2 profiler, 5 optimizer are conventional; 4 is used by oracles/id_run.py)
_seen: set[tuple[str, int]] = set()
_reported: set[tuple[str, int]] = set()
_files: dict[str, str] = {}  # absolute path -> relative name
_on = False


def start(repo: Path, rel_files: list[str]) -> None:
    global _on
    if _on or not hasattr(sys, "monitoring"):
        return
    for f in rel_files:
        _files[str((repo / f).resolve())] = f
    mon = sys.monitoring
    try:
        mon.use_tool_id(_TOOL, "y0verif-linecov")
    except ValueError:
        return

    def on_line(code, line):
        rel = _files.get(code.co_filename)
        if rel is not None:
            _seen.add((rel, line))
        return mon.DISABLE

    mon.register_callback(_TOOL, mon.events.LINE, on_line)
    mon.set_events(_TOOL, mon.events.LINE)
    _on = True


def delta() -> list[tuple[str, int]]:
    """lines seen in this process since the last call"""
    new = _seen - _reported
    _reported.update(new)
    return sorted(new)


def executable_lines(path: Path) -> set[int]:
    """line numbers inside function bodies that carry code according to the compiled module"""
    try:
        code = compile(path.read_text(), str(path), "exec")
    except Exception:
        return set()
    out: set[int] = set()
    todo = [code]
    while todo:
        c = todo.pop()
        if c.co_flags & 0x1:  # CO_OPTIMIZED: function bodies only (module and class bodies run at import time)
            out.update(l for _, _, l in c.co_lines() if l)
        todo.extend(k for k in c.co_consts if hasattr(k, "co_lines"))
    return out


def summarise(repo: Path, rel_files: list[str], seen: set[tuple[str, int]]) -> dict:
    res = {}
    for f in rel_files:
        ex = executable_lines(repo / f)
        hit = {l for (g, l) in seen if g == f} & ex
        missed = sorted(ex - hit)
        res[f] = {"executable_lines": len(ex), "executed": len(hit),
                  "share": round(len(hit) / len(ex), 3) if ex else None,
                  "never_executed_sample": missed[:40]}
    return res
