"""Codec between y0 DSL objects and the s-expression / JSON-list encoding shared with Y0.Model.Expr.

var  : ["v", name_int, star in {"n","m","p"}, "0"|"1" (Intervention class), [[name_int, "m"|"p"], ...]]
expr : ["P", [vars], [vars]] | ["PP", var, [vars], [vars]] | ["prod", e...] | ["sum", [vars], e]
       | ["frac", n, d] | "one" | "zero" | ["Q", [domain vars], [codomain vars]]
All set-valued fields (interventions, ranges, Q domain/codomain) are written sorted.
"""
from __future__ import annotations

from .gen_graph import name_to_int, vname

_STAR = {None: "n", False: "m", True: "p"}
_RSTAR = {v: k for k, v in _STAR.items()}


def var_key(v):
    """sort key on encoded vars mirroring Var.keyLt / _variable_sort_key"""
    return (int(v[1]), [(0 if s == "p" else 1, int(n)) for n, s in v[4]])


def enc_var(v):
    from y0.dsl import CounterfactualVariable, Intervention

    ivs = []
    if isinstance(v, CounterfactualVariable):
        ivs = sorted(([name_to_int(i.name), "p" if i.star else "m"] for i in v.interventions),
                     key=lambda p: (p[0], p[1] == "p"))
    return ["v", name_to_int(v.name), _STAR[v.star], "1" if isinstance(v, Intervention) else "0", ivs]


def enc_vars_sorted(vs):
    return sorted((enc_var(v) for v in vs), key=var_key)


def enc_expr(e):
    from y0.dsl import Fraction, One, PopulationProbability, Probability, Product, QFactor, Sum, Zero

    if isinstance(e, PopulationProbability):
        return ["PP", enc_var(e.population), [enc_var(v) for v in e.children], [enc_var(v) for v in e.parents]]
    if isinstance(e, Probability):
        return ["P", [enc_var(v) for v in e.children], [enc_var(v) for v in e.parents]]
    if isinstance(e, Product):
        return ["prod"] + [enc_expr(x) for x in e.expressions]
    if isinstance(e, Sum):
        return ["sum", enc_vars_sorted(e.ranges), enc_expr(e.expression)]
    if isinstance(e, Fraction):
        return ["frac", enc_expr(e.numerator), enc_expr(e.denominator)]
    if isinstance(e, One):
        return "one"
    if isinstance(e, Zero):
        return "zero"
    if isinstance(e, QFactor):
        return ["Q", enc_vars_sorted(e.domain), enc_vars_sorted(e.codomain)]
    raise TypeError(type(e))


def dec_var(s):
    from y0.dsl import CounterfactualVariable, Intervention, Variable

    _, n, star, isiv, ivs = s
    name = vname(int(n))
    st = _RSTAR[star]
    if ivs:
        return CounterfactualVariable(name=name, star=st,
                                      interventions=frozenset(Intervention(name=vname(int(a)), star=(b == "p")) for a, b in ivs))
    if str(isiv) == "1":
        return Intervention(name=name, star=st)
    return Variable(name=name, star=st)


def dec_expr(s):
    """build the raw dataclass instances (no normalising constructor is applied)"""
    from y0.dsl import Distribution, Fraction, One, PopulationProbability, Probability, Product, QFactor, Sum, Zero

    if s == "one":
        return One()
    if s == "zero":
        return Zero()
    tag = s[0]
    if tag == "P":
        return Probability(Distribution(children=tuple(dec_var(v) for v in s[1]), parents=tuple(dec_var(v) for v in s[2])))
    if tag == "PP":
        return PopulationProbability(population=dec_var(s[1]),
                                     distribution=Distribution(children=tuple(dec_var(v) for v in s[2]),
                                                               parents=tuple(dec_var(v) for v in s[3])))
    if tag == "prod":
        return Product(expressions=tuple(dec_expr(x) for x in s[1:]))
    if tag == "sum":
        return Sum(expression=dec_expr(s[2]), ranges=frozenset(dec_var(v) for v in s[1]))
    if tag == "frac":
        return Fraction(dec_expr(s[1]), dec_expr(s[2]))
    if tag == "Q":
        return QFactor(domain=frozenset(dec_var(v) for v in s[1]), codomain=frozenset(dec_var(v) for v in s[2]))
    raise ValueError(s)


def plain(i):
    return ["v", i, "n", "0", []]


def to_str_tree(x):
    """ints -> str everywhere (to compare with parsed model replies)"""
    if isinstance(x, (list, tuple)):
        return [to_str_tree(y) for y in x]
    return str(x)
