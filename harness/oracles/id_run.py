"""Shared by the checks of the `id` family (C01, C02, C03, C06): running the REAL ID / IDC with harness-side
instrumentation, canonical encodings, query generators.

Instrumentation (nothing is changed in the repo; everything is installed in this process at run time):
* line coverage of `identify` / `idc` through `sys.monitoring` LINE events on their code objects, mapped
  to algorithm lines by markers found in the *current* source text (a refactoring that removes a marker
  only degrades the coverage tag to "?").
* `NxMixedGraph.topological_sort` is wrapped to record the orders networkx returned (the graph inside an
  `Identification` is rebuilt from a Python set, so the order depends on the hash seed).  The orders are
  passed to the Lean model, which is parametric in them.
* `id_c.rule_2_of_do_calculus_applies` is wrapped to record which conditions were exchanged.
"""
from __future__ import annotations

import copy
import inspect
import itertools as itt
import json
import random
import sys

from .. import common as C
from .. import enc_expr as E
from .. import forms as F
from .. import gen_graph as G

_TOOL = 4
_state = {"installed": False, "lines": None, "topo": None, "rule2": None, "markers": {}, "pp": None}

_ID_MARKERS = [
    ("return line_1(", "1"), ("identify(line_2(", "2"), ("identify(line_3(", "3"),
    ("map(identify, line_4(", "4"), ("raise Unidentifiable", "5"),
    ("ranges = district_without_treatment - outcomes", "6"), ("identify(line_7(", "7"),
]


def install():
    if _state["installed"]:
        return
    C.use_repo()
    from y0.algorithm.identify import id_c, id_std
    from y0.graph import NxMixedGraph

    code = id_std.identify.__code__
    src, first = inspect.getsourcelines(id_std.identify)
    markers = {}
    for off, line in enumerate(src):
        for pat, tag in _ID_MARKERS:
            if pat in line:
                markers[first + off] = tag
    _state["markers"] = markers
    mon = sys.monitoring
    try:
        mon.use_tool_id(_TOOL, "y0verif")
    except ValueError:
        pass

    def on_line(c, lineno):
        if _state["lines"] is not None and c is code:
            t = markers.get(lineno)
            if t:
                _state["lines"].append(t)

    mon.register_callback(_TOOL, mon.events.LINE, on_line)
    mon.set_local_events(_TOOL, code, mon.events.LINE)

    orig_topo = NxMixedGraph.topological_sort

    def topo(self):
        r = orig_topo(self)
        if _state["topo"] is not None:
            _state["topo"].append(([G.vint(v) for v in self.nodes()], [G.vint(v) for v in r]))
        return r

    NxMixedGraph.topological_sort = topo

    orig_r2 = id_c.rule_2_of_do_calculus_applies

    def r2(identification, condition):
        r = orig_r2(identification=identification, condition=condition)
        if _state["rule2"] is not None:
            _state["rule2"].append((G.vint(condition), bool(r)))
        return r

    id_c.rule_2_of_do_calculus_applies = r2

    # p_parents(child, ordering, estimand): record, per call, the length of the ordering, the position of the
    # child and whether the estimand is the carried one of line 7 (not a marginal of the observational joint).
    # Calls on a carried estimand with a child that is NOT last are the ones whose numerator has to sum out the
    # later variables (distribution tag only; nothing is changed in the behaviour).
    orig_pp = getattr(id_std, "p_parents", None)
    if orig_pp is not None:
        def pp(child, ordering, estimand):
            if _state["pp"] is not None:
                try:
                    obs_fn = getattr(id_std, "_is_observational_marginal", None)
                    obs = bool(obs_fn(estimand)) if obs_fn is not None else None
                    order = list(ordering)
                    _state["pp"].append((len(order), order.index(child), obs))
                except Exception:  # noqa: BLE001 - instrumentation must never change the outcome
                    pass
            return orig_pp(child, ordering, estimand)

        id_std.p_parents = pp
    _state["installed"] = True


def snapshot_graph(graph):
    return (sorted(map(str, graph.directed.nodes())), sorted(map(str, graph.undirected.nodes())),
            sorted((str(u), str(v), json.dumps(d, sort_keys=True, default=str)) for u, v, d in graph.directed.edges(data=True)),
            sorted(tuple(sorted((str(u), str(v)))) + (json.dumps(d, sort_keys=True, default=str),)
                   for u, v, d in graph.undirected.edges(data=True)),
            list(map(str, graph.directed.nodes())), list(map(str, graph.undirected.nodes())))


def snapshot_query(q):
    return (sorted(map(repr, q.outcomes)), sorted(map(repr, q.treatments)), sorted(map(repr, q.conditions)),
            type(q.outcomes).__name__, type(q.treatments).__name__, type(q.conditions).__name__)


# ------------------------------------------------------------------------------------------ canonical forms


def canon_expr(enc):
    """canonical form of an encoded expression (string tree): factors of a product sorted structurally
    (Product.safe's own order depends on set iteration for equal keys), nested products kept as they are"""
    if not isinstance(enc, list):
        return enc
    tag = enc[0]
    if tag == "prod":
        fs = [canon_expr(x) for x in enc[1:]]
        fs.sort(key=lambda x: json.dumps(x))
        return ["prod"] + fs
    if tag == "sum":
        return ["sum", enc[1], canon_expr(enc[2])]
    if tag == "frac":
        return ["frac", canon_expr(enc[1]), canon_expr(enc[2])]
    return enc


def enc_result_expr(e):
    return canon_expr(E.to_str_tree(E.enc_expr(e)))


def tape_sexp(tape):
    """[(nodes, order)] -> s-expression list, first record per node set wins"""
    seen = {}
    conflict = False
    for nodes, order in tape:
        k = tuple(sorted(nodes))
        if k in seen:
            if seen[k] != list(order):
                conflict = True
            continue
        seen[k] = list(order)
    return [[list(k), v] for k, v in seen.items()], conflict


# ------------------------------------------------------------------------------------------ running the real code


VARSET_FORMS = F.CONTAINERS + (F.SINGLE, F.SINGLE)      # `Variable | set[Variable]`, normalised by _ensure_set


def id_slots(X, Y, Z=None, via="identify"):
    """legal argument forms of one ID / IDC call (read off identify/api.py and identify/utils.py).
    Z is None for ID.  `entry` is how the Identification is made (or how identify_outcomes is called);
    `from_expression` needs a query that can be written as an expression (pairwise disjoint sets, outcomes non-empty,
    conditions non-empty when given)."""
    Xs, Ys, Zs = set(X), set(Y), set(Z or [])
    sl = {"ctor": F.CTORS, "X": VARSET_FORMS, "Y": VARSET_FORMS}
    if Z is not None:
        sl["Z"] = VARSET_FORMS
    writable = bool(Ys) and not (Xs & Ys) and not (Xs & Zs) and not (Ys & Zs) and (Z is None or bool(Zs))
    if via == "identify_outcomes":
        sl["entry"] = ("positional", "keyword")
        if Z is None:
            # no conditions: the parameter omitted / None select ID; an EMPTY collection selects IDC with nothing to condition on
            sl["no_conditions"] = ("omitted", "none", "empty_set", "empty_list")
    else:
        sl["entry"] = ("direct", "direct_positional", "from_parts") + (("from_expression", "from_expression_at") if writable else ())
        if Z is None:
            sl["no_conditions"] = ("omitted", "none", "empty_set")
    return sl


def _make_identification(graph, Xl, Yl, Zl, fm):
    """the Identification through the constructor named by fm["entry"]; returns (identification, caller-owned arguments)"""
    from y0.algorithm.identify import Identification, Query
    from y0.dsl import Distribution, P

    entry = fm["entry"]
    if entry in ("from_expression", "from_expression_at"):
        dist = Distribution(children=tuple(Yl), parents=tuple(Zl or ()))
        if not Xl:
            expr = P(dist)
        elif entry == "from_expression":
            expr = P[F.container(Xl, "tuple")](dist)
        else:
            expr = P(dist.intervene(list(Xl)))
        return Identification.from_expression(query=expr, graph=graph), {}
    args = {"X": F.varset(Xl, fm["X"]), "Y": F.varset(Yl, fm["Y"])}
    if Zl is not None:
        args["Z"] = F.varset(Zl, fm["Z"])
    kw = {}
    if Zl is not None:
        kw["conditions"] = args["Z"]
    elif fm.get("no_conditions") == "none":
        kw["conditions"] = None
    elif fm.get("no_conditions") == "empty_set":
        kw["conditions"] = set()
    if entry == "from_parts":
        return Identification.from_parts(outcomes=args["Y"], treatments=args["X"], graph=graph, **kw), args
    if entry == "direct_positional":
        query = Query(args["Y"], args["X"], *([kw["conditions"]] if "conditions" in kw else []))
        return Identification(query, graph), args
    return Identification(query=Query(outcomes=args["Y"], treatments=args["X"], **kw), graph=graph), args


def run_identify(g, X, Y, *, via="identify", conditions=None, pref=None, forms=None):
    """run the real ID (or IDC when `conditions` is not None) on the integer-space query.
    `forms` (see id_slots; None = the historical single form: from_edges graph, Python sets, Query + Identification)
    selects how every argument is handed over.
    Returns dict(out=canonical outcome, expr=y0 expression or None, exc=class name or None, lines=[...],
    tape=[...], exchanged=[...], mutated=None|str)."""
    install()
    from y0.algorithm.identify import Unidentifiable, identify, identify_outcomes, idc

    fm = dict(forms or {})
    fm.setdefault("ctor", "from_edges")
    fm.setdefault("X", "set")
    fm.setdefault("Y", "set")
    fm.setdefault("Z", "set")
    fm.setdefault("entry", "positional" if via == "identify_outcomes" else "direct")
    fm.setdefault("no_conditions", "omitted")
    res = {"expr": None, "exc": None, "exc_msg": None}
    Xl = [G.V(i) for i in X]
    Yl = [G.V(i) for i in Y]
    Zl = None if conditions is None else [G.V(i) for i in conditions]
    try:
        graph = F.build_graph(g, fm["ctor"], seed=len(g["di"]) * 17 + len(g["bi"]) * 5 + len(X))
        fault = F.constructor_fault(g, graph, fm["ctor"])
    except Exception as e:  # noqa: BLE001 - every graph dict is a legal input of every constructor
        graph, fault = None, f"constructor {fm['ctor']} raised {type(e).__name__}: {str(e)[:100]}"
    if fault:
        res.update(out=["err", "other"], exc="ConstructorFault", exc_msg=fault, lines=[], tape=[], rule2=[], mutated=fault, pp=[])
        return res
    g_before = snapshot_graph(graph)
    _state["lines"], _state["topo"], _state["rule2"], _state["pp"] = [], [], [], []
    ident = None
    q_before = None
    args, args_before = {}, {}
    # non-termination guard (mutation campaign B, mutant g03): a run-away recursion of ID / IDC costs ~1000 graph
    # rebuilds per call before Python's own limit stops it, and shrinking repeats that hundreds of times.  The real
    # recursion is shallow (measured: at most 26 Python frames below this one for graphs with up to 8 nodes, one frame
    # per algorithm line), so the limit is lowered to this frame + 100 + 10 per node for the duration of the call.
    frame, depth = sys._getframe(), 0
    while frame is not None:
        depth += 1
        frame = frame.f_back
    old_limit = sys.getrecursionlimit()
    sys.setrecursionlimit(min(old_limit, depth + 100 + 10 * len(G.all_nodes(g))))
    try:
        if via == "identify_outcomes":
            args = {"X": F.varset(Xl, fm["X"]), "Y": F.varset(Yl, fm["Y"])}
            kw = {}
            if Zl is not None:
                args["Z"] = F.varset(Zl, fm["Z"])
                kw["conditions"] = args["Z"]
            elif fm["no_conditions"] != "omitted":
                kw["conditions"] = {"none": None, "empty_set": set(), "empty_list": []}[fm["no_conditions"]]
            args_before = {k: F.snapshot(v) for k, v in args.items()}
            if fm["entry"] == "keyword":
                r = identify_outcomes(graph=graph, treatments=args["X"], outcomes=args["Y"], **kw)
            elif "conditions" in kw and len(g["di"]) % 2:
                r = identify_outcomes(graph, args["X"], args["Y"], kw["conditions"])
            else:
                r = identify_outcomes(graph, args["X"], args["Y"], **kw)
            res["expr"] = r
            if r is None:
                res["exc"] = "Unidentifiable"
        else:
            ident, args = _make_identification(graph, Xl, Yl, Zl, fm)
            args_before = {k: F.snapshot(v) for k, v in args.items()}
            q_before = (snapshot_query(ident.query), snapshot_graph(ident.graph), repr(ident.estimand))
            res["expr"] = idc(ident) if Zl is not None else identify(ident)
    except Unidentifiable:
        res["exc"] = "Unidentifiable"
    except RecursionError as e:  # non-termination shows up as this
        res["exc"] = "RecursionError"
        res["exc_msg"] = str(e)[:200]
    except Exception as e:  # noqa: BLE001 - the property is about *any* other failure
        res["exc"] = type(e).__name__
        res["exc_msg"] = str(e)[:200]
    finally:
        sys.setrecursionlimit(old_limit)
        lines, tape, r2, pp = _state["lines"], _state["topo"], _state["rule2"], _state["pp"]
        _state["lines"], _state["topo"], _state["rule2"], _state["pp"] = None, None, None, None
    mutated = None
    if snapshot_graph(graph) != g_before:
        mutated = "the caller's graph object was modified"
    elif any(args_before.get(k) is not None and F.snapshot(v) != args_before[k] for k, v in args.items()):
        mutated = "the caller's treatment/outcome/condition collections were modified"
    elif ident is not None and q_before != (snapshot_query(ident.query), snapshot_graph(ident.graph), repr(ident.estimand)):
        mutated = "the caller's Identification/Query object was modified"
    if res["exc"] is None:
        out = ["ok", enc_result_expr(res["expr"])]
    elif res["exc"] == "Unidentifiable":
        out = ["err", "unidentifiable"]
    else:
        out = ["err", "other"]
    res.update(out=out, lines=lines, tape=tape, rule2=r2, mutated=mutated, pp=pp)
    return res


def id_form_tags(case, fm):
    """tags: the forms actually used (`single` only counts when the set has one element)"""
    t = dict(fm)
    for k in ("X", "Y", "Z"):
        if k in t and case.get(k) is not None:
            t[k] = F.effective(case[k], t[k])
    if str(t.get("entry", "")).startswith("from_expression"):
        for k in ("X", "Y", "Z"):
            t.pop(k, None)
    return F.tags(t)


def model_out(rep):
    """canonical outcome of a model reply (parsed s-expression)"""
    if rep[0] == "err":
        return ["err", "unidentifiable"] if rep[1] == "unidentifiable" else ["err", "other"]
    if rep[0] == "ok":
        body = rep[1]
        if body == "none":
            return ["err", "unidentifiable"]
        if isinstance(body, list) and body and body[0] == "some":
            body = body[1]
        return ["ok", canon_expr(body)]
    return ["bad-reply", rep]


def line_tags(lines):
    s = "".join(lines)
    tags = {"id_path": s if len(s) <= 10 else s[:10] + "+"}
    for k in "1234567":
        tags["line" + k] = k in lines
    tags["seq_7_then_6"] = any(a == "7" and "6" in lines[i + 1:i + 3] for i, a in enumerate(lines))
    tags["seq_7_2_6"] = "726" in s
    tags["seq_7_then_7"] = any(a == "7" and "7" in lines[i + 1:i + 3] for i, a in enumerate(lines))
    return tags


def pp_tags(pp):
    """distribution tags from the recorded p_parents calls [(len(ordering), index of child, observational?)]:
    `pp_carried_nonlast` = number of calls on a carried (line-7) estimand whose child is not last in the order,
    i.e. whose conditional Σ_later Q / Σ_{child,later} Q has a non-trivial numerator sum"""
    pp = pp or []
    carried = [(n, i) for n, i, obs in pp if obs is False]
    nonlast = [1 for n, i in carried if i < n - 1]
    return {"pp_calls": min(len(pp), 9), "pp_carried": min(len(carried), 9),
            "pp_carried_nonlast": min(len(nonlast), 9),
            "pp_carried_nonlast_any": bool(nonlast)}


# ------------------------------------------------------------------------------------------ generators


def rand_admg(rng: random.Random, nmin=2, nmax=7):
    """ADMG weighted towards the shapes that drive ID through all of its lines: sparse directed part with a
    long chain, a few bidirected edges, sometimes isolated / irrelevant nodes and several districts"""
    n = rng.randint(nmin, nmax)
    style = rng.random()
    if style < 0.55:
        pd = rng.choice([0.25, 0.4, 0.6])
        pb = rng.choice([0.15, 0.25, 0.4])
    elif style < 0.8:
        pd = rng.choice([0.5, 0.7])
        pb = rng.choice([0.1, 0.2])
    else:
        pd = rng.choice([0.15, 0.3])
        pb = rng.choice([0.0, 0.5, 0.7])
    g = G.rand_graph(rng, n, n, acyclic=True, pd=pd, pb=pb)
    nodes = G.all_nodes(g)
    for v in range(n):   # rand_graph may omit untouched nodes from the explicit list; keep every node
        if v not in nodes:
            g["nodes"].append(v)
    if rng.random() < 0.25 and n >= 3:
        # force a chain so that line 7 followed by lines 2/6 becomes likely (napkin-like shapes)
        perm = _topo_perm(g, rng)
        for a, b in zip(perm, perm[1:]):
            if [a, b] not in g["di"] and rng.random() < 0.8:
                g["di"].append([a, b])
    return g


SEEDS = [
    # napkin: W->R->X->Y, W<->X, W<->Y   (ID: 3,7,2,6)
    {"nodes": [0, 1, 2, 3], "di": [[0, 1], [1, 2], [2, 3]], "bi": [[0, 2], [0, 3]]},
    # front door
    {"nodes": [0, 1, 2], "di": [[0, 1], [1, 2]], "bi": [[0, 2]]},
    # Shpitser-Pearl figure 3 style: line 7 then 7
    {"nodes": [0, 1, 2, 3, 4], "di": [[0, 1], [1, 2], [2, 3], [3, 4]], "bi": [[0, 2], [0, 4], [1, 3]]},
    # Verma-like: A->B->C->D, B<->D
    {"nodes": [0, 1, 2, 3], "di": [[0, 1], [1, 2], [2, 3]], "bi": [[1, 3]]},
    # two districts with a treatment bridging them
    {"nodes": [0, 1, 2, 3], "di": [[0, 1], [1, 2], [1, 3]], "bi": [[0, 2], [2, 3]]},
    # bow arc (hedge)
    {"nodes": [0, 1], "di": [[0, 1]], "bi": [[0, 1]]},
    # Z->X->Y, Z<->X? plus X<->... : IV
    {"nodes": [0, 1, 2], "di": [[0, 1], [1, 2]], "bi": [[1, 2]]},
    # line 7 -> 2 -> 6 with an extra descendant
    {"nodes": [0, 1, 2, 3, 4], "di": [[0, 1], [1, 2], [2, 3], [2, 4]], "bi": [[0, 2], [0, 3], [3, 4]]},
]


def mutate_seed(rng: random.Random, nmax=7):
    """a graph obtained from a textbook seed by relabelling, adding up to three nodes and toggling a few
    edges; stays acyclic because directed edges only go forward in a fixed order"""
    seed = rng.choice([s for s in SEEDS if len(s["nodes"]) <= nmax])
    n0 = len(seed["nodes"])
    n = max(n0, min(nmax, n0 + rng.choice([0, 0, 1, 1, 2, 3])))
    # positions: seed node i keeps relative order; new nodes inserted at random ranks
    ranks = sorted(rng.sample(range(n), n0))
    pos = {i: ranks[i] for i in range(n0)}          # seed nodes are topologically numbered already
    di = {(pos[u], pos[v]) for u, v in seed["di"]}
    bi = {tuple(sorted((pos[u], pos[v]))) for u, v in seed["bi"]}
    new = [r for r in range(n) if r not in ranks]
    for w in new:
        for v in range(n):
            if v == w:
                continue
            if rng.random() < 0.3:
                di.add((min(v, w), max(v, w)))
            if rng.random() < 0.15:
                bi.add((min(v, w), max(v, w)))
    for _ in range(rng.choice([0, 0, 1, 2])):
        a, b = sorted(rng.sample(range(n), 2))
        e = (a, b)
        if rng.random() < 0.5:
            (di.discard if e in di else di.add)(e)
        else:
            (bi.discard if e in bi else bi.add)(e)
    # relabel: rank r -> label perm[r]; keep acyclicity (edges follow ranks, labels arbitrary)
    perm = list(range(n))
    rng.shuffle(perm)
    dil = [[perm[a], perm[b]] for a, b in di]
    bil = [[perm[a], perm[b]] if rng.random() < 0.5 else [perm[b], perm[a]] for a, b in bi]
    rng.shuffle(dil)
    rng.shuffle(bil)
    nodes = list(range(n))
    rng.shuffle(nodes)
    return {"nodes": nodes, "di": dil, "bi": bil}


def napkin_family(rng: random.Random, nmax=7):
    """structured generator for the deep paths of ID (line 7 followed by 6 / 2,6 / 7 on districts with several nodes):
    napkin-like graphs  W -> R -> X -> Y1 -> ... -> Ym,  W <-> X,  W <-> Yj,  the outcomes Y1..Ym (m >= 2 mostly)
    forming ONE district in which the first is not last in any topological order; optionally

      * an outer napkin layer  W0 -> R0 -> W,  W0 <-> W,  W0 <-> R   (line 7, line 2, line 7 again: the second line 7
        and the final line 6 read their conditionals off a carried estimand),
      * a mediator  X -> M -> Y1  in a district of its own (line 4 first, then 7),
      * an irrelevant node (child of the last outcome, or isolated), extra forward edges inside the outcome block,

    then relabelled at random (labels drive every sort in the DSL).  Returns (g, X, Y, kind)."""
    m = rng.choice([2, 2, 2, 3, 3, 1])
    outer = rng.random() < 0.45
    mediator = rng.random() < 0.3
    extra = rng.random() < 0.3
    if outer and nmax < 6:
        outer = False
    if outer:
        m = max(1, min(m, nmax - 5))

    def size():
        return 3 + m + (2 if outer else 0) + (1 if mediator else 0) + (1 if extra else 0)

    while size() > nmax:
        if extra:
            extra = False
        elif mediator:
            mediator = False
        elif m > 2:
            m -= 1
        elif outer:
            outer = False
        else:
            break
    names = []

    def new(tag):
        names.append(tag)
        return len(names) - 1

    di, bi = [], []
    if outer:
        w0, r0 = new("W0"), new("R0")
    w, r, x = new("W"), new("R"), new("X")
    di += [[w, r], [r, x]]
    bi += [[w, x]]
    if outer:
        di += [[w0, r0], [r0, w]]
        bi += [[w0, w], [w0, r]]
    med = new("M") if mediator else None
    ys = [new("Y%d" % i) for i in range(m)]
    if mediator:
        di += [[x, med], [med, ys[0]]]
        if rng.random() < 0.4:
            di.append([x, ys[0]])
    else:
        di.append([x, ys[0]])
    for a, b in zip(ys, ys[1:]):
        di.append([a, b])
        bi.append([a, b])
    if m >= 3 and rng.random() < 0.5:
        di.append([ys[0], ys[2]])
    if m >= 3 and rng.random() < 0.3:
        bi.append([ys[0], ys[2]])
    if m >= 2 and rng.random() < 0.25:
        di.append([x, ys[rng.randrange(1, m)]])
    j = rng.randrange(m)
    bi.append([w, ys[j]])
    if m >= 2 and rng.random() < 0.25:
        bi.append([w, ys[(j + 1) % m]])
    kind = "napkin%d" % m + ("+outer" if outer else "") + ("+med" if mediator else "")
    if extra:
        q = new("Q")
        t = rng.random()
        if t < 0.4:
            di.append([ys[-1], q])
        elif t < 0.7:
            pass                      # isolated
        else:
            di.append([q, ys[-1]])    # an extra observed parent of the last outcome
            kind += "+par"
    n = len(names)
    # query
    X = [x]
    t = rng.random()
    if t < 0.15:
        X.append(r)
    elif t < 0.25:
        X.append(w)
    t = rng.random()
    if t < 0.45:
        Y = [ys[-1]]
    elif t < 0.8:
        Y = list(ys)
    else:
        Y = sorted(rng.sample(ys, rng.randint(1, m)))
    perm = list(range(n))
    rng.shuffle(perm)
    dil = [[perm[a], perm[b]] for a, b in di]
    bil = [[perm[a], perm[b]] if rng.random() < 0.5 else [perm[b], perm[a]] for a, b in bi]
    rng.shuffle(dil)
    rng.shuffle(bil)
    nodes = list(range(n))
    rng.shuffle(nodes)
    return {"nodes": nodes, "di": dil, "bi": bil}, sorted(perm[v] for v in X), sorted(perm[v] for v in Y), kind


def collider_family(rng: random.Random, nmax=6):
    """structured generator for IDC's rule-2 test with SEVERAL conditions of which one is an opened collider (or a
    descendant of one) between the tested condition and the outcome, and not an ancestor of either:

        Z1 (<-> | <-A-> | <-A<->) T (<- | <-> | <-B->) Y,     T = Z2  or  T -> Z2,      query  P(Y | do(X), Z1, Z2)

    The edge at Z1 never leaves Z1 (the test removes those), so given Z2 the pair stays connected and the exchange of Z1
    must be refused; optional treatment X (parent of Y, Z1 or T), optional direct effect Z1 -> Y, optional third
    condition, random relabelling.  Returns (g, X, Y, Z, kind)."""
    names = []

    def new(tag):
        names.append(tag)
        return len(names) - 1

    budget = nmax - 3
    left = rng.choice(["bi", "bi", "fork", "latfork"])
    right = rng.choice(["di", "di", "bi", "fork"])
    via_c = rng.random() < 0.35
    has_x = rng.random() < 0.6
    third = rng.random() < 0.25
    # spend the node budget in this order of preference
    need = lambda: (left != "bi") + (right == "fork") + via_c + has_x + third  # noqa: E731
    while need() > budget:
        if third:
            third = False
        elif right == "fork":
            right = "di"
        elif left != "bi":
            left = "bi"
        elif via_c:
            via_c = False
        else:
            has_x = False
    a = new("A") if left != "bi" else None
    b = new("B") if right == "fork" else None
    x = new("X") if has_x else None
    z1, y = new("Z1"), new("Y")
    c = new("C") if via_c else None
    z2 = new("Z2")
    z3 = new("Z3") if third else None
    t = c if via_c else z2
    di, bi = [], []
    if via_c:
        di.append([c, z2])
    if left == "bi":
        bi.append([z1, t])
    elif left == "fork":
        di += [[a, z1], [a, t]]
    else:
        di.append([a, z1])
        bi.append([a, t])
    if right == "di":
        di.append([y, t])
    elif right == "bi":
        bi.append([y, t])
    else:
        di += [[b, y], [b, t]]
    if has_x:
        tx = rng.choice([y, y, z1, t])
        di.append([x, tx])
        if rng.random() < 0.3:
            bi.append([x, rng.choice([v for v in (y, z1) if v != tx] or [z2])])
    if rng.random() < 0.35:
        di.append([z1, y])
    if third:
        r = rng.random()
        if r < 0.4:
            di.append([z3, y])
        elif r < 0.7:
            di.append([z2, z3])
        else:
            bi.append([z3, z1])
    n = len(names)
    X = [x] if has_x and rng.random() < 0.75 else []
    Y = [y]
    Z = [z1, z2] + ([z3] if third else [])
    kind = "collider:%s-%s%s%s" % (left, right, "+desc" if via_c else "", "+x" if X else "")
    perm = list(range(n))
    rng.shuffle(perm)
    dil = [[perm[u], perm[v]] for u, v in di]
    bil = [[perm[u], perm[v]] if rng.random() < 0.5 else [perm[v], perm[u]] for u, v in bi]
    rng.shuffle(dil)
    rng.shuffle(bil)
    nodes = list(range(n))
    rng.shuffle(nodes)
    return ({"nodes": nodes, "di": dil, "bi": bil}, sorted(perm[v] for v in X), sorted(perm[v] for v in Y),
            sorted(perm[v] for v in Z), kind)



def _relabel(rng, n, di, bi, *sets):
    perm = list(range(n))
    rng.shuffle(perm)
    dil = [[perm[a], perm[b]] for a, b in di]
    bil = [[perm[a], perm[b]] if rng.random() < 0.5 else [perm[b], perm[a]] for a, b in bi]
    rng.shuffle(dil)
    rng.shuffle(bil)
    nodes = list(range(n))
    rng.shuffle(nodes)
    return ({"nodes": nodes, "di": dil, "bi": bil},) + tuple(sorted(perm[v] for v in s) for s in sets)


def napkin_tower(rng: random.Random, levels=3, refuse=False):
    """nested napkins (gap review round 5): W_k -> R_k -> W_{k-1} -> .. -> W -> R -> X -> Y with W_i <-> W_{i-1}, W_i <-> R_{i-1}
    (innermost: W <-> X, W <-> Y): ID takes line 7 once per level (3,7,2,7,2,7,2,6 for three levels, 8 nodes).  `refuse`: one
    extra bidirected edge at a random place, which mostly turns the run into a refusal AFTER one or more line 7s (7 -> .. -> 5).
    Returns (g, X, Y, kind)."""
    names = ["X", "Y"]
    di, bi = [[0, 1]], []
    prev_w, prev_r = None, None
    for lv in range(levels):
        w, r = len(names), len(names) + 1
        names += ["W%d" % lv, "R%d" % lv]
        di.append([w, r])
        if lv == 0:
            di.append([r, 0])
            bi += [[w, 0], [w, 1]]
        else:
            di.append([r, prev_w])
            bi += [[w, prev_w], [w, prev_r]]
        prev_w, prev_r = w, r
    n = len(names)
    kind = "tower%d" % levels
    if refuse:
        for _ in range(20):
            a, b = sorted(rng.sample(range(n), 2))
            if [a, b] not in bi and [b, a] not in bi:
                bi.append([a, b])
                break
        kind += "+bi"
    X = [0] + ([2 + 1] if rng.random() < 0.2 else [])          # X, sometimes also R0
    g, X, Y = _relabel(rng, n, di, bi, X, [1])
    return g, X, Y, kind


def multi_district_family(rng: random.Random, nmax=7):
    """line 4 splitting into SEVERAL MULTI-NODE districts, outcomes in 2-3 districts, |Y| up to 4 (gap review round 5):
    k = 2-3 districts of 2 nodes each (a_i <-> b_i, a_i -> b_i with probability 1/2), forward directed edges between the
    districts, 1-2 treatments that are parents (never confounded) of district nodes; Y = one or both nodes of every district.
    Returns (g, X, Y, kind)."""
    k = 3 if nmax >= 7 and rng.random() < 0.6 else 2
    nx_ = 1 if (k == 3 or rng.random() < 0.6) else 2
    while 2 * k + nx_ > nmax:
        nx_ -= 1
    nx_ = max(nx_, 1)
    xs = list(range(nx_))
    ds = [[nx_ + 2 * i, nx_ + 2 * i + 1] for i in range(k)]
    n = nx_ + 2 * k
    di, bi = [], []
    for a, b in ds:
        bi.append([a, b])
        if rng.random() < 0.5:
            di.append([a, b])
    for i in range(k):
        for j in range(i + 1, k):
            for u in ds[i]:
                for v in ds[j]:
                    if rng.random() < 0.3:
                        di.append([u, v])
    for x in xs:
        kids = rng.sample([v for d in ds for v in d], rng.choice([1, 2, 2, 3]))
        di += [[x, v] for v in kids]
    if nx_ == 2 and rng.random() < 0.4:
        di.append([0, 1])
    Y = []
    for a, b in ds:
        t = rng.random()
        Y += [b] if t < 0.45 else ([a, b] if t < 0.8 else [a])
    g, X, Y = _relabel(rng, n, di, bi, xs, Y)
    return g, X, Y, "mdist%d_y%d" % (k, len(Y))


def big_query(rng: random.Random, nodes):
    """|X| up to 4 and |Y| up to 4 on graphs with >= 6 nodes (rand_query stops at 3 / 2)"""
    nodes = list(nodes)
    rng.shuffle(nodes)
    n = len(nodes)
    ny = rng.choice([1, 2, 3, 3, 4])
    nx_ = rng.choice([1, 2, 3, 4, 4])
    ny = min(ny, n - 1)
    nx_ = max(1, min(nx_, n - ny))
    return sorted(nodes[:nx_]), sorted(nodes[nx_:nx_ + ny])


def gen_graph(rng, nmin=2, nmax=7):
    if rng.random() < 0.5:
        return mutate_seed(rng, nmax)
    return rand_admg(rng, nmin, nmax)


def is_acyclic(g):
    nodes = G.all_nodes(g)
    indeg = {v: 0 for v in nodes}
    for u, v in g["di"]:
        indeg[v] += 1
    ready = [v for v in nodes if indeg[v] == 0]
    seen = 0
    while ready:
        v = ready.pop()
        seen += 1
        for a, b in g["di"]:
            if a == v:
                indeg[b] -= 1
                if indeg[b] == 0:
                    ready.append(b)
    return seen == len(nodes)


def _topo_perm(g, rng):
    nodes = G.all_nodes(g)
    indeg = {v: 0 for v in nodes}
    for u, v in g["di"]:
        indeg[v] += 1
    order, ready = [], [v for v in nodes if indeg[v] == 0]
    while ready:
        v = ready.pop(rng.randrange(len(ready)))
        order.append(v)
        for a, b in g["di"]:
            if a == v:
                indeg[b] -= 1
                if indeg[b] == 0:
                    ready.append(b)
    return order


def rand_query(rng, nodes, *, with_z=False):
    nodes = list(nodes)
    rng.shuffle(nodes)
    n = len(nodes)
    if with_z:
        ny = 1 if rng.random() < 0.7 else 2
        nz = 1 if rng.random() < 0.7 else 2
        nx_ = rng.choice([0, 1, 1, 1, 2])
        if ny + nz + nx_ > n:
            nx_ = max(0, n - ny - nz)
        if ny + nz > n:
            return None
        Y = nodes[:ny]
        Z = nodes[ny:ny + nz]
        X = nodes[ny + nz:ny + nz + nx_]
        return sorted(X), sorted(Y), sorted(Z)
    ny = 1 if rng.random() < 0.65 else min(2, n - 1)
    nx_ = 1 if rng.random() < 0.6 else min(rng.choice([2, 2, 3]), n - ny)
    if nx_ < 1 or ny < 1:
        return None
    return sorted(nodes[:nx_]), sorted(nodes[nx_:nx_ + ny])


def malformed_query(rng, nodes):
    """queries outside the property's precondition, for the error taxonomy"""
    nodes = list(nodes)
    kind = rng.choice(["overlap", "outside_x", "outside_y", "empty_y", "empty_x", "all_x"])
    rng.shuffle(nodes)
    if kind == "overlap" and len(nodes) >= 1:
        return kind, sorted(nodes[:2]), sorted(nodes[1:3] or nodes[:1])
    if kind == "outside_x":
        return kind, sorted(nodes[:1] + [90]), sorted(nodes[1:2] or nodes[:1])
    if kind == "outside_y":
        return kind, sorted(nodes[:1]), [91] if rng.random() < 0.5 or len(nodes) < 2 else sorted(nodes[1:2] + [91])
    if kind == "empty_y":
        return kind, sorted(nodes[:1]), []
    if kind == "all_x":
        return kind, sorted(nodes), sorted(nodes[:1])
    return "empty_x", [], sorted(nodes[:1])


def graph_from_y0(graph):
    """y0 NxMixedGraph with single-letter/any names -> integer-space graph dict + name map"""
    names = sorted(str(n.name) for n in graph.nodes())
    idx = {nm: i for i, nm in enumerate(names)}
    return {"nodes": list(range(len(names))),
            "di": [[idx[u.name], idx[v.name]] for u, v in graph.directed.edges()],
            "bi": [[idx[u.name], idx[v.name]] for u, v in graph.undirected.edges()]}, idx


def example_corpus(max_nodes=8):
    """(name, g, X, Y) for every example of y0.examples that carries identification queries, plus the
    bare graphs with all single-treatment / single-outcome queries for the small ones"""
    C.use_repo()
    try:
        from y0 import examples as ex
    except Exception as e:  # noqa: BLE001 - mutation campaign B, mutant u09: y0.examples builds Identification objects at
        # import time, so a change in identify/utils.py can make the import itself raise.  That must not abort the check
        # before a single case ran (exit 1 without a VIOLATION line): the corpus part is skipped, loudly, and the
        # generated stream (which drives the same constructors inside run_identify's try block) names the failing input.
        if not _state.get("examples_error"):
            _state["examples_error"] = f"{type(e).__name__}: {str(e)[:200]}"
            print(f"NOTE: y0.examples cannot be imported on this tree ({_state['examples_error']}); the example corpus is skipped",
                  flush=True)
        return []

    out = []
    seen = set()
    for name in dir(ex):
        obj = getattr(ex, name)
        if not isinstance(obj, ex.Example):
            continue
        graph = obj.graph
        try:
            n = len(graph.nodes())
        except Exception:  # noqa: BLE001
            continue
        if n > max_nodes or n < 2:
            continue
        try:
            g, idx = graph_from_y0(graph)
        except Exception:  # noqa: BLE001
            continue
        key = json.dumps(g, sort_keys=True)
        if key in seen:
            continue
        seen.add(key)
        out.append((name, g, idx))
    return out
