"""Shared pieces of the cf family checks (C18, C07, C08): event codec, generators, world-order control,
canonical forms.  Events are JSON lists  [[var, value], ...]  with var as in enc_expr and value "m" | "p"
(the value of `V_S = v` always carries V's own name)."""
from __future__ import annotations

import contextlib
import itertools as itt
import random

from .. import common as C
from .. import enc_expr as E
from .. import gen_graph as G

# ------------------------------------------------------------------------------------------ codec


def mkvar(name, subs=()):
    return ["v", int(name), "n", "0", sorted(([int(n), s] for n, s in subs), key=lambda p: (p[0], p[1] == "p"))]


def dec_event(ev):
    from y0.dsl import Intervention

    out = {}
    for var, val in ev:
        v = E.dec_var(var)
        out[v] = Intervention(name=v.name, star=(val == "p"))
    return out


def enc_event(event):
    """y0 Event -> canonical JSON (sorted by variable); values keep their own name when it differs from the key's"""
    out = []
    for k, v in event.items():
        ek = E.enc_var(k)
        if v.name == k.name:
            out.append([ek, "p" if v.star else "m"])
        else:
            out.append([ek, [G.name_to_int(v.name), "p" if v.star else "m"]])
    return sort_event(out)


def var_sort_key(v):
    return (int(v[1]), [(int(n), s == "p") for n, s in v[4]], str(v[2]), str(v[3]))


def sort_event(ev):
    return sorted(ev, key=lambda p: (var_sort_key(p[0]), str(p[1])))


def str_event(ev):
    return E.to_str_tree(sort_event(ev))


def canon_var(v):
    """parsed/encoded var -> all-strings canonical var"""
    return ["v", str(v[1]), str(v[2]), str(v[3]), sorted(([str(n), str(s)] for n, s in v[4]), key=lambda p: (int(p[0]), p[1] == "p"))]


def canon_cf_graph(nodes, di, bi):
    """graph over encoded vars -> canonical (sets sorted by var key; bidirected edges with sorted endpoints)"""
    ns = sorted({_freeze(canon_var(n)) for n in nodes}, key=_fkey)
    ds = sorted({(_freeze(canon_var(u)), _freeze(canon_var(v))) for u, v in di}, key=lambda e: (_fkey(e[0]), _fkey(e[1])))
    bs = sorted({tuple(sorted((_freeze(canon_var(u)), _freeze(canon_var(v))), key=_fkey)) for u, v in bi},
                key=lambda e: (_fkey(e[0]), _fkey(e[1])))
    return ["cfgraph", [_thaw(n) for n in ns], [[_thaw(u), _thaw(v)] for u, v in ds], [[_thaw(u), _thaw(v)] for u, v in bs]]


def _freeze(x):
    return tuple(_freeze(y) for y in x) if isinstance(x, (list, tuple)) else x


def _thaw(x):
    return [_thaw(y) for y in x] if isinstance(x, tuple) else x


def _fkey(v):
    return (int(v[1]), [(int(n), s == "p") for n, s in v[4]], v[2], v[3])


def canon_event(ev):
    out = []
    for var, val in ev:
        if isinstance(val, (list, tuple)):
            val = [str(val[0]), str(val[1])]
        out.append([canon_var(var), val if isinstance(val, list) else str(val)])
    return sorted(out, key=lambda p: (_fkey(p[0]), str(p[1])))


def enc_nx_cf_graph(graph):
    return canon_cf_graph([E.enc_var(n) for n in graph.nodes()],
                          [(E.enc_var(u), E.enc_var(v)) for u, v in graph.directed.edges()],
                          [(E.enc_var(u), E.enc_var(v)) for u, v in graph.undirected.edges()])


def canon_expr(e):
    """canonical estimand: all atoms strings, children/parents/ranges sorted, product factors sorted structurally
    (Product.safe only sorts by a partial key; ties keep an order that depends on set iteration)"""
    if isinstance(e, str):
        return e
    t = e[0]
    if t == "P":
        return ["P", sorted((canon_var(v) for v in e[1]), key=_fkey), sorted((canon_var(v) for v in e[2]), key=_fkey)]
    if t == "PP":
        return ["PP", canon_var(e[1]), sorted((canon_var(v) for v in e[2]), key=_fkey), sorted((canon_var(v) for v in e[3]), key=_fkey)]
    if t == "prod":
        return ["prod"] + sorted((canon_expr(x) for x in e[1:]), key=repr)
    if t == "sum":
        return ["sum", sorted((canon_var(v) for v in e[1]), key=_fkey), canon_expr(e[2])]
    if t == "frac":
        return ["frac", canon_expr(e[1]), canon_expr(e[2])]
    if t == "Q":
        return ["Q", sorted((canon_var(v) for v in e[1]), key=_fkey), sorted((canon_var(v) for v in e[2]), key=_fkey)]
    raise ValueError(e)


# ------------------------------------------------------------------------------------------ world order

ORDERS = [(0, 0), (1, 0), (0, 1), (1, 1), (0, 2), (1, 2)]   # (reverse?, rotate-left by): all 6 permutations of <=3 worlds


def world_key(w):
    return sorted((G.name_to_int(i.name), bool(i.star)) for i in w)


def order_worlds(worlds, strategy):
    rev, rot = strategy
    ws = sorted(worlds, key=world_key)
    if rev:
        ws.reverse()
    if ws:
        r = rot % len(ws)
        ws = ws[r:] + ws[:r]
    return ws


@contextlib.contextmanager
def fixed_world_order(strategy):
    """Run the real code with `cg.extract_interventions` returning the worlds as a LIST in a chosen order instead of
    a `set` (whose iteration order depends on PYTHONHASHSEED).  Every use of `worlds` in cg.py (iteration, len,
    itertools.combinations) accepts a list.  strategy None = leave the code alone."""
    import importlib

    cg = importlib.import_module("y0.algorithm.identify.cg")

    if strategy is None:
        yield
        return
    orig = cg.extract_interventions

    def patched(variables):
        return order_worlds(orig(variables), strategy)
    cg.extract_interventions = patched
    try:
        yield
    finally:
        cg.extract_interventions = orig


def n_worlds(ev):
    return len({tuple(map(tuple, var[4])) for var, _ in ev if var[4]})


def strategies_for(ev, extra=0):
    """the distinct orders for an event with k worlds (k<=3: all permutations)"""
    k = n_worlds(ev) + extra
    if k <= 1:
        return [(0, 0)]
    if k == 2:
        return [(0, 0), (1, 0)]
    return list(ORDERS)


# ------------------------------------------------------------------------------------------ generators


def rand_admg(rng: random.Random, nmin=1, nmax=5):
    n = rng.randint(nmin, nmax)
    g = G.rand_graph(rng, n, n, acyclic=True, pd=rng.choice([0.3, 0.5, 0.7]), pb=rng.choice([0.0, 0.2, 0.4]))
    return {"nodes": G.all_nodes(g), "di": g["di"], "bi": g["bi"]}


def rand_world(rng, nodes, kmax=2):
    k = rng.choice([1, 1, 1, 2, 2, 3][: 2 + 2 * kmax]) if nodes else 0
    subs = rng.sample(nodes, min(k, len(nodes)))
    return tuple(sorted((s, "p" if rng.random() < 0.35 else "m") for s in subs))


def rand_event(rng: random.Random, g, max_worlds=3, max_items=4, p_self=None):
    """1..max_items conjuncts over <= max_worlds counterfactual worlds (+ the factual world), shared and distinct
    subscripts, self-interventions, repeated variables with equal/different values"""
    nodes = G.all_nodes(g)
    nw = rng.choice([0, 1, 1, 1, 2, 2, 3][: 4 + max_worlds]) if max_worlds else 0
    nw = min(nw, max_worlds)
    worlds = []
    for _ in range(nw):
        w = rand_world(rng, nodes)
        if rng.random() < 0.3 and worlds:   # same variables, other values
            w0 = rng.choice(worlds)
            w = tuple((n, "p" if rng.random() < 0.5 else "m") for n, _ in w0)
        if w and w not in worlds:
            worlds.append(w)
    pool = worlds + ([()] if (rng.random() < 0.7 or not worlds) else [])
    k = rng.randint(1, max_items)
    ev = {}
    p_self = rng.choice([0.0, 0.1, 0.3]) if p_self is None else p_self
    for _ in range(k):
        w = rng.choice(pool)
        cand = [v for v in nodes if v not in {n for n, _ in w}] or nodes
        v = rng.choice(nodes if rng.random() < p_self else cand)
        var = mkvar(v, w)
        ev[C.enc(var)] = [var, "p" if rng.random() < 0.35 else "m"]
    return sort_event(list(ev.values()))


def shrink_event_case(case, keys=("event",)):
    """smaller cases, most drastic first: drop a node (with its edges, conjuncts and subscripts), drop an edge,
    drop a conjunct, drop a subscript, turn a starred value / subscript into an unstarred one.
    Every event listed in `keys` must stay non-empty."""
    g = case["g"]
    nodes = G.all_nodes(g)

    def ok(c):
        return all(c.get(k) for k in keys)

    for v in nodes:
        c = dict(case)
        c["g"] = {"nodes": [x for x in nodes if x != v], "di": [e for e in g["di"] if v not in e],
                  "bi": [e for e in g["bi"] if v not in e]}
        for key in keys:
            ev2 = [[mkvar(var[1], [(n, s) for n, s in var[4] if int(n) != v]), val]
                   for var, val in case.get(key, []) if int(var[1]) != v]
            c[key] = _dedupe_event(ev2)
        if ok(c):
            yield c
    # bypass a node the events do not mention: parents -> children directly
    mentioned = {int(var[1]) for key in keys for var, _ in case.get(key, [])} | \
        {int(n) for key in keys for var, _ in case.get(key, []) for n, _ in var[4]}
    for v in nodes:
        pas = [e[0] for e in g["di"] if e[1] == v]
        chs = [e[1] for e in g["di"] if e[0] == v]
        if v in mentioned or not pas or not chs:
            continue
        c = dict(case)
        di = [e for e in g["di"] if v not in e]
        for p_ in pas:
            for ch in chs:
                if [p_, ch] not in di:
                    di.append([p_, ch])
        c["g"] = {"nodes": [x for x in nodes if x != v], "di": di, "bi": [e for e in g["bi"] if v not in e]}
        yield c
    for kind in ("bi", "di"):
        for k in range(len(g[kind])):
            c = dict(case)
            c["g"] = {"nodes": nodes, "di": list(g["di"]), "bi": list(g["bi"])}
            c["g"][kind] = g[kind][:k] + g[kind][k + 1:]
            yield c
    for key in keys:
        ev = case.get(key, [])
        for k in range(len(ev)):
            c = dict(case)
            c[key] = ev[:k] + ev[k + 1:]
            if ok(c):
                yield c
    for key in keys:
        ev = case.get(key, [])
        for k, (var, val) in enumerate(ev):
            for j in range(len(var[4])):
                c = dict(case)
                nv = mkvar(var[1], var[4][:j] + var[4][j + 1:])
                c[key] = _dedupe_event(ev[:k] + [[nv, val]] + ev[k + 1:])
                if len(c[key]) == len(ev):
                    yield c
    for key in keys:
        ev = case.get(key, [])
        for k, (var, val) in enumerate(ev):
            if val == "p":
                c = dict(case)
                c[key] = ev[:k] + [[var, "m"]] + ev[k + 1:]
                yield c
    starred = sorted({int(n) for key in keys for var, _ in case.get(key, []) for n, s in var[4] if s == "p"})
    for n0 in starred:
        c = dict(case)
        good = True
        for key in keys:
            ev = case.get(key, [])
            c[key] = _dedupe_event([[mkvar(var[1], [(n, "m" if int(n) == n0 else s) for n, s in var[4]]), val] for var, val in ev])
            good = good and len(c[key]) == len(ev)
        if good:
            yield c


def _dedupe_event(ev):
    seen = {}
    for var, val in ev:
        # a subscript set must stay consistent
        names = [int(n) for n, _ in var[4]]
        if len(names) != len(set(names)):
            subs = {}
            for n, s in var[4]:
                subs.setdefault(int(n), s)
            var = mkvar(var[1], list(subs.items()))
        seen.setdefault(C.enc(var), [var, val])
    return sort_event(list(seen.values()))


def relabel_canonical(case, keys=("event",)):
    """Canonical form of a (shrunk) case up to renaming of the variables: try every bijection of the used names onto
    0..k-1 and keep the lexicographically least encoding.  Graph as sorted edge sets."""
    g = case["g"]
    nodes = sorted(G.all_nodes(g))
    best = None
    for perm in itt.permutations(range(len(nodes))):
        m = dict(zip(nodes, perm))
        # only relabelings that keep a topological-order-compatible naming are NOT required: any bijection goes
        di = sorted([m[u], m[v]] for u, v in g["di"])
        bi = sorted(sorted([m[u], m[v]]) for u, v in g["bi"])
        evs = []
        for key in keys:
            evs.append(sort_event([[mkvar(m[int(var[1])], [(m[int(n)], s) for n, s in var[4]]), val] for var, val in case.get(key, [])]))
        cand = (len(nodes), di, bi, [[[v[1], v[4], val] for v, val in e] for e in evs])
        if best is None or cand < best[0]:
            best = (cand, m)
    return best[0]


# ------------------------------------------------------------------------------------------ corpus


def load_corpus(prop):
    """corpus/<prop>/*.json: one case (dict) or a list of cases per file, in file-name order"""
    import json

    out = []
    d = C.VERIF / "corpus" / prop
    if d.is_dir():
        for f in sorted(d.glob("*.json")):
            x = json.loads(f.read_text())
            out += x if isinstance(x, list) else [x]
    return out


# ------------------------------------------------------------------------------------------ ID* orders


def nx_var_key(v):
    """sort key of a y0 variable mirroring `_variable_sort_key` on the harness's fixed-width names (Var.keyLt)"""
    return E.var_key(E.enc_var(v))


@contextlib.contextmanager
def fixed_orders(strategy):
    """strategy = (rev, rot, drev) or None.  (rev, rot): iteration order of the worlds set in cg.py (see
    fixed_world_order); drev: iteration order of the nodes of a district (a frozenset) in the dict comprehension of
    id_star.get_events_of_district -- sorted by `_variable_sort_key`, reversed when drev.  Only the ORDER in which the
    unchanged real functions see their set-valued arguments is fixed."""
    if strategy is None:
        yield
        return
    import importlib

    ids = importlib.import_module("y0.algorithm.identify.id_star")

    rev, rot, drev = strategy
    orig = ids.get_events_of_district

    def patched(graph, district, event):
        return orig(graph, sorted(district, key=nx_var_key, reverse=bool(drev)), event)
    ids.get_events_of_district = patched
    try:
        with fixed_world_order((rev, rot)):
            yield
    finally:
        ids.get_events_of_district = orig


def id_strategies(ev, extra_worlds=0):
    return [(r, k, d) for (r, k) in strategies_for(ev, extra_worlds) for d in (0, 1)]


@contextlib.contextmanager
def fixed_orders_idc(strategy):
    """as fixed_orders.  (Until `fix:` "IDC* re-associates the merged keys in sorted order" the keys that
    get_new_outcomes_and_conditions adds from the set `set(new_event) - set(outcomes) - set(conditions)` were inserted in the
    iteration order of that set and this context manager forced them into sorted / reversed order; the code now sorts them
    itself by `_variable_sort_key`, so there is no order left to drive: the model uses `orderDistrict false` for `kordf`.)"""
    with fixed_orders(strategy):
        yield


def rand_event_pair(rng: random.Random, g, max_worlds=2):
    """(outcomes, conditions): both non-empty, disjoint keys, drawn from one pool of worlds"""
    for _ in range(20):
        ev = rand_event(rng, g, max_worlds=max_worlds, max_items=rng.choice([2, 2, 3, 3, 4]))
        if len(ev) >= 2:
            break
    else:
        return None
    idx = list(range(len(ev)))
    rng.shuffle(idx)
    k = rng.randint(1, len(ev) - 1)
    outs = [ev[i] for i in sorted(idx[:k])]
    conds = [ev[i] for i in sorted(idx[k:])]
    rng.shuffle(outs)
    rng.shuffle(conds)
    return outs, conds


# ------------------------------------------------------------------------------------------ shrinking to finding keys


class Shrinker:
    """Greedy, failure-kind preserving shrinking of a failing case and the finding key of the result.

    evaluate(case, n_models, with_unpatched) -> {"fail": str | None, "kind": str | None, ...}
    The key of a shrunk case is (kind, graph + events up to renaming of the variables)."""

    def __init__(self, prop, keys, evaluate, fields):
        self.prop, self.keys, self.evaluate, self.fields = prop, tuple(keys), evaluate, tuple(fields)
        self._known = None

    def key_of(self, case, kind):
        import json

        return json.dumps([kind, relabel_canonical(case, keys=self.keys)], sort_keys=True)

    def still_fails(self, cand, kind):
        """same failure kind on the candidate: tried with two different model samples before giving up (a wrong
        estimand can coincide with the right value on degenerate models)"""
        for ds in (0, 7919):
            c = dict(cand, seed=cand.get("seed", 0) + ds)
            r = self.evaluate(c, n_models=8, with_unpatched=False)
            if r["fail"] and r["kind"] == kind:
                return True
        return False

    def shrink_fully(self, case, kind, budget=400, order_seed=None):
        cur = {k: case[k] for k in self.fields if k in case}
        cur["g"] = {"nodes": G.all_nodes(cur["g"]), "di": cur["g"]["di"], "bi": cur["g"]["bi"]}
        rng = random.Random(order_seed) if order_seed is not None else None
        improved = True
        while improved and budget > 0:
            improved = False
            cands = list(shrink_event_case(cur, keys=self.keys))
            if rng is not None:
                rng.shuffle(cands)
            for cand in cands:
                budget -= 1
                if budget <= 0:
                    break
                try:
                    ok = self.still_fails(cand, kind)
                except Exception:
                    continue
                if ok:
                    cur = cand
                    improved = True
                    break
        return cur

    def known_keys(self):
        if self._known is None:
            self._known = {f["key"] for f in C.load_known(self.prop)}
        return self._known

    greedy_only = False

    def shrink_to_key(self, case, kind):
        """(shrunk case, key).  The greedy local minimum first; if its key is not a listed finding, a few other shrink
        orders are tried and a listed key is preferred (one defect has several local minima)."""
        small = self.shrink_fully(case, kind)
        key = self.key_of(small, kind)
        if key not in self.known_keys() and not self.greedy_only:
            for t in range(6):
                alt = self.shrink_fully(case, kind, order_seed=case.get("seed", 0) * 31 + t)
                k2 = self.key_of(alt, kind)
                if k2 in self.known_keys():
                    return alt, k2
        return small, key


# ------------------------------------------------------------------------------------------ small-scope exhaustive slice


def exhaustive_event_cases(max_nodes=2, max_items=2):
    """every acyclic mixed graph on <= max_nodes labelled nodes (edges u->v only for u<v or v<u, optional u<->v) x every
    event with <= max_items conjuncts V_S = v (S any consistent assignment to a subset of the nodes, v in {x, x'})"""
    out = []
    for n in range(1, max_nodes + 1):
        nodes = list(range(n))
        prs = list(itt.combinations(nodes, 2))
        graphs = []
        for dsel in itt.product((0, 1, 2), repeat=len(prs)):
            di = [[u, w] if s == 1 else [w, u] for (u, w), s in zip(prs, dsel) if s]
            try:
                from . import cf_fscm as _S

                _S.topo_order(nodes, [tuple(e) for e in di])
            except ValueError:
                continue
            for bsel in itt.product((0, 1), repeat=len(prs)):
                graphs.append({"nodes": nodes, "di": di, "bi": [[u, w] for (u, w), s in zip(prs, bsel) if s]})
        worlds = []
        for sel in itt.product((None, "m", "p"), repeat=n):
            worlds.append(tuple((i, s) for i, s in enumerate(sel) if s))
        conj = [[mkvar(vv, w), val] for vv in nodes for w in worlds for val in ("m", "p")]
        events = [[c] for c in conj]
        for k in range(2, max_items + 1):
            for combo in itt.combinations(conj, k):
                if len({C.enc(c[0]) for c in combo}) == k:
                    events.append(list(combo))
        for g in graphs:
            for ev in events:
                out.append({"g": g, "event": sort_event(ev), "seed": 7})
    return out
