"""C12 plumbing that is independent of the Lean model and of y0's parser:

* NAMES / name_to_int / vname : the variable names the parser's table knows (A..Z without P and Q, Pi, π, each
  bare, with a digit, with `_digit`), plus the name "pi*" of y0.dsl.TARGET_DOMAIN, in Python string order, so that int
  order == string order.
  (The generic table of gen_graph uses names such as `A07`, which `parse_y0` cannot read.)
* enc_var / enc_expr / dec_var / dec_expr : the codec of harness/enc_expr.py over this name table.
* tokens_of(text)     : Python's own `tokenize` -> the driver's token atoms
* ast_of(text)        : Python's own `ast.parse(mode="eval")` -> the driver's AST encoding
* to_source(ast)      : a construction AST -> fully parenthesised Python source
* build(ast)          : evaluates the source with the REAL public builders/operators of y0.dsl
* norm_products(enc)  : encoding with the factors of every product put in a canonical order
"""
from __future__ import annotations

import ast as pyast
import io
import string
import tokenize

KW = ("P", "PP", "Sum", "Q", "One", "Zero", "TARGET_DOMAIN")

# the population name of y0.dsl.TARGET_DOMAIN: not an identifier, never written in a text; it has a place in the table
# so that objects carrying it can be encoded (Lean: `Print.targetName`)
TARGET_NAME = "pi*"


def _all_names():
    out = []
    for letter in list(string.ascii_uppercase) + ["Pi", "π"]:
        if letter in {"P", "Q"}:
            continue
        out.append(letter)
        for i in range(10):
            out.append(f"{letter}{i}")
            out.append(f"{letter}_{i}")
    out.append(TARGET_NAME)
    return sorted(out)


NAMES = _all_names()
_INDEX = {n: i for i, n in enumerate(NAMES)}
TARGET_INDEX = 525          # = Print.targetName in lean/Y0/Model/Print.lean
assert _INDEX[TARGET_NAME] == TARGET_INDEX, "name table and Print.targetName disagree"


def vname(i: int) -> str:
    return NAMES[int(i)]


def name_to_int(name: str) -> int:
    return _INDEX[name]


# ------------------------------------------------------------------------------------------ object codec

_STAR = {None: "n", False: "m", True: "p"}
_RSTAR = {v: k for k, v in _STAR.items()}


def var_key(v):
    return (int(v[1]), [(0 if s == "p" else 1, int(n)) for n, s in v[4]])


def enc_var(v):
    from y0.dsl import CounterfactualVariable, Intervention

    ivs = []
    if isinstance(v, CounterfactualVariable):
        ivs = sorted(([name_to_int(i.name), "p" if i.star else "m"] for i in v.interventions),
                     key=lambda p: (p[0], p[1] == "p"))
    return ["v", name_to_int(v.name), _STAR[v.star], "1" if isinstance(v, Intervention) else "0", ivs]


def enc_vars_sorted(vs):
    return sorted((enc_var(v) for v in vs), key=var_key)


def enc_expr(e):
    from y0.dsl import Fraction, One, PopulationProbability, Probability, Product, QFactor, Sum, Zero

    if isinstance(e, PopulationProbability):
        return ["PP", enc_var(e.population), [enc_var(v) for v in e.children], [enc_var(v) for v in e.parents]]
    if isinstance(e, Probability):
        return ["P", [enc_var(v) for v in e.children], [enc_var(v) for v in e.parents]]
    if isinstance(e, Product):
        return ["prod"] + [enc_expr(x) for x in e.expressions]
    if isinstance(e, Sum):
        return ["sum", enc_vars_sorted(e.ranges), enc_expr(e.expression)]
    if isinstance(e, Fraction):
        return ["frac", enc_expr(e.numerator), enc_expr(e.denominator)]
    if isinstance(e, One):
        return "one"
    if isinstance(e, Zero):
        return "zero"
    if isinstance(e, QFactor):
        return ["Q", enc_vars_sorted(e.domain), enc_vars_sorted(e.codomain)]
    raise TypeError(type(e))


def dec_var(s):
    from y0.dsl import CounterfactualVariable, Intervention, Variable

    _, n, star, isiv, ivs = s
    name = vname(int(n))
    st = _RSTAR[star]
    if ivs:
        return CounterfactualVariable(name=name, star=st, interventions=frozenset(
            Intervention(name=vname(int(a)), star=(b == "p")) for a, b in ivs))
    if str(isiv) == "1":
        return Intervention(name=name, star=st)
    return Variable(name=name, star=st)


def dec_expr(s):
    """raw dataclass instances, no normalising constructor"""
    from y0.dsl import Distribution, Fraction, One, PopulationProbability, Probability, Product, QFactor, Sum, Zero

    if s == "one":
        return One()
    if s == "zero":
        return Zero()
    tag = s[0]
    if tag == "P":
        return Probability(Distribution(children=tuple(dec_var(v) for v in s[1]), parents=tuple(dec_var(v) for v in s[2])))
    if tag == "PP":
        return PopulationProbability(population=dec_var(s[1]), distribution=Distribution(
            children=tuple(dec_var(v) for v in s[2]), parents=tuple(dec_var(v) for v in s[3])))
    if tag == "prod":
        return Product(expressions=tuple(dec_expr(x) for x in s[1:]))
    if tag == "sum":
        return Sum(expression=dec_expr(s[2]), ranges=frozenset(dec_var(v) for v in s[1]))
    if tag == "frac":
        return Fraction(dec_expr(s[1]), dec_expr(s[2]))
    if tag == "Q":
        return QFactor(domain=frozenset(dec_var(v) for v in s[1]), codomain=frozenset(dec_var(v) for v in s[2]))
    raise ValueError(s)


def to_str_tree(x):
    if isinstance(x, (list, tuple)):
        return [to_str_tree(y) for y in x]
    return str(x)


def norm_products(x):
    """canonical order of the factors of every product (used only where the order of equal-key factors is
    not what is being compared)"""
    if isinstance(x, list):
        ys = [norm_products(y) for y in x]
        if ys and ys[0] == "prod":
            return ["prod"] + sorted(ys[1:], key=repr)
        return ys
    return x


# ------------------------------------------------------------------------------------------ Python's tokenizer / parser

_OPS = {"(": "lp", ")": "rp", "[": "lb", "]": "rb", ",": "cm", "+": "pl", "-": "mi", "~": "ti", "@": "at",
        "*": "st", "/": "sl", "|": "ba", "&": "am"}
_ROPS = {v: k for k, v in _OPS.items()}


def tokens_of(text: str):
    """Python's `tokenize` on `text` -> token atoms of the driver protocol (strings)"""
    out = []
    for t in tokenize.generate_tokens(io.StringIO(text).readline):
        if t.type in (tokenize.NEWLINE, tokenize.NL, tokenize.ENDMARKER):
            continue
        if t.type == tokenize.NAME:
            out.append(t.string if t.string in KW else str(name_to_int(t.string)))
        elif t.type == tokenize.OP and t.string in _OPS:
            out.append(_OPS[t.string])
        else:
            raise ValueError(f"token outside the modelled alphabet: {tokenize.tok_name[t.type]} {t.string!r}")
    return out


def text_of_tokens(toks):
    """driver token atoms -> source text (space separated)"""
    return " ".join(_ROPS[t] if t in _ROPS else (t if t in KW else vname(int(t))) for t in toks)


_UN = {pyast.UAdd: "pos", pyast.USub: "neg", pyast.Invert: "inv"}
_BIN = {pyast.BitOr: "bor", pyast.BitAnd: "band", pyast.Add: "add", pyast.Sub: "sub", pyast.Mult: "mul",
        pyast.Div: "div", pyast.MatMult: "matmul"}


class OutsideFragment(Exception):
    pass


def _conv(node):
    if isinstance(node, pyast.Name):
        return ["k", node.id] if node.id in KW else ["n", str(name_to_int(node.id))]
    if isinstance(node, pyast.Call):
        if node.keywords or any(isinstance(a, pyast.Starred) for a in node.args):
            raise OutsideFragment("keywords/starred")
        return ["call", _conv(node.func)] + [_conv(a) for a in node.args]
    if isinstance(node, pyast.Subscript):
        return ["sub", _conv(node.value), _conv(node.slice)]
    if isinstance(node, pyast.Tuple):
        if len(node.elts) < 2:
            raise OutsideFragment("tuple with fewer than two elements")
        return ["tup"] + [_conv(x) for x in node.elts]
    if isinstance(node, pyast.UnaryOp) and type(node.op) in _UN:
        return ["un", _UN[type(node.op)], _conv(node.operand)]
    if isinstance(node, pyast.BinOp) and type(node.op) in _BIN:
        return ["bin", _BIN[type(node.op)], _conv(node.left), _conv(node.right)]
    raise OutsideFragment(type(node).__name__)


def ast_of(text: str):
    """Python's own parser -> the driver's AST encoding; raises SyntaxError / OutsideFragment"""
    return _conv(pyast.parse(text, mode="eval").body)


def to_source(a) -> str:
    """construction AST -> fully parenthesised Python source"""
    tag = a[0]
    if tag == "n":
        return vname(int(a[1]))
    if tag == "k":
        return a[1]
    if tag == "call":
        return _primary(a[1]) + "(" + ", ".join(to_source(x) for x in a[2:]) + ")"
    if tag == "sub":
        idx = a[2]
        inner = ", ".join(to_source(x) for x in idx[1:]) if idx[0] == "tup" else to_source(idx)
        return _primary(a[1]) + "[" + inner + "]"
    if tag == "tup":
        return "(" + ", ".join(to_source(x) for x in a[1:]) + ")"
    if tag == "un":
        return "(" + {"pos": "+", "neg": "-", "inv": "~"}[a[1]] + to_source(a[2]) + ")"
    if tag == "bin":
        op = {"bor": "|", "band": "&", "add": "+", "sub": "-", "mul": "*", "div": "/", "matmul": "@"}[a[1]]
        return "(" + to_source(a[2]) + " " + op + " " + to_source(a[3]) + ")"
    raise ValueError(a)


def _primary(a):
    s = to_source(a)
    return s if a[0] in ("n", "k", "call", "sub") else "(" + s + ")"


# ---- the same construction written with another legal ARGUMENT FORM of the builders (harness/forms.py) -------------
#
# dsl.py documents that the builders take `str | Variable | Iterable[str | Variable]` (VariableHint): P('A') == P(A),
# P([A, B]) == P((A, B)) == P(v for v in (A, B)), Y @ 'X' == Y @ X, P[X](Y) == P(Y, interventions=X).  `to_source_alt`
# renders a construction tree in one of these styles; only positions that take a VariableHint are rewritten
# (arguments of P / PP[..] / Q[..] calls, the right operand of `@`, `|`, `&`, the subscripts of P / Sum / Q).

ALT_STYLES = ("baseline", "str_names", "lists", "generators", "interventions_keyword")


def _builder_kind(f):
    """'P' / 'PP' / 'Sum' / 'Q' for the callee of a builder call (with any subscripts), else None"""
    while isinstance(f, list) and f[0] == "sub":
        f = f[1]
    return f[1] if isinstance(f, list) and f[0] == "k" and f[1] in ("P", "PP", "Sum", "Q") else None


def to_source_alt(a, style, hint=False) -> str:
    """`hint`: this position takes a VariableHint (a plain name may be a str, a tuple may be any iterable)"""
    if style == "baseline":
        return to_source(a)
    tag = a[0]
    rec = lambda x, h=False: to_source_alt(x, style, h)  # noqa: E731
    if tag == "n":
        return repr(vname(int(a[1]))) if (hint and style == "str_names") else vname(int(a[1]))
    if tag == "k":
        return a[1]
    if tag == "tup":
        inner = ", ".join(rec(x, hint) for x in a[1:])
        if hint and style == "lists":
            return "[" + inner + "]"
        if hint and style == "generators":
            return "(v_ for v_ in (" + inner + ",))"
        return "(" + inner + ")"
    if tag == "call":
        kind = _builder_kind(a[1])
        f = a[1]
        args = [rec(x, kind in ("P", "PP", "Q")) for x in a[2:]]
        if style == "interventions_keyword" and kind in ("P", "PP") and f[0] == "sub" and \
                (f[1] == ["k", "P"] or (f[1][0] == "sub" and f[1][1] == ["k", "PP"])):
            idx = f[2]
            inner = "(" + ", ".join(rec(x) for x in idx[1:]) + ")" if idx[0] == "tup" else rec(idx)
            return _primary_alt(f[1], style) + "(" + ", ".join(args + ["interventions=" + inner]) + ")"
        return _primary_alt(f, style) + "(" + ", ".join(args) + ")"
    if tag == "sub":
        idx = a[2]
        takes_hint = a[1] in (["k", "P"], ["k", "Sum"], ["k", "Q"]) or (a[1][0] == "sub" and a[1][1] == ["k", "PP"])
        if idx[0] == "tup":
            inner = ", ".join(rec(x, takes_hint) for x in idx[1:])
            if takes_hint and style == "lists":
                inner = "[" + inner + "]"
            elif takes_hint and style == "generators":
                inner = "(v_ for v_ in (" + inner + ",))"
        else:
            inner = rec(idx, takes_hint)
        return _primary_alt(a[1], style) + "[" + inner + "]"
    if tag == "un":
        return "(" + {"pos": "+", "neg": "-", "inv": "~"}[a[1]] + rec(a[2]) + ")"
    if tag == "bin":
        op = {"bor": "|", "band": "&", "add": "+", "sub": "-", "mul": "*", "div": "/", "matmul": "@"}[a[1]]
        return "(" + rec(a[2]) + " " + op + " " + rec(a[3], a[1] in ("bor", "band", "matmul")) + ")"
    raise ValueError(a)


def _primary_alt(a, style):
    s = to_source_alt(a, style)
    return s if a[0] in ("n", "k", "call", "sub") else "(" + s + ")"


def build_alt(a, style):
    return eval(to_source_alt(a, style), {"__builtins__": {}}, namespace())  # noqa: S307


_NS = None


def namespace():
    """the public builders of y0.dsl and one Variable per table name (NOT the parser's LOCALS)"""
    global _NS
    if _NS is None:
        from y0 import dsl

        _NS = {n: dsl.Variable(n) for n in NAMES}
        _NS.pop(TARGET_NAME)
        _NS.update({"P": dsl.P, "PP": dsl.PP, "Sum": dsl.Sum, "Q": dsl.Q, "One": dsl.One, "Zero": dsl.Zero,
                    "TARGET_DOMAIN": dsl.TARGET_DOMAIN})
    return _NS


def build(a):
    """evaluate the construction AST with the real public builders and operators"""
    return eval(to_source(a), {"__builtins__": {}}, namespace())  # noqa: S307
