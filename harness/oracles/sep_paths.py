"""Independent executable statement of d-separation for properties C04 / C15 / C20.

Written from the property statement, not from the model or the code under test:

  "a and b are d-separated given C in the directed acyclic graph obtained by replacing every
   bidirected edge with an unobserved common parent"

* `canonical_dag(g)`        : the DAG  (observed nodes i, one latent ("L", k) per bidirected edge k)
* `d_connected_paths(...)`  : brute-force enumeration of the simple paths of the DAG's skeleton between a and b;
                              a path is d-connecting given C iff every collider on it has a descendant
                              (inclusive) in C and every non-collider is outside C   (Pearl's definition)
* `d_separated_nx(...)`     : networkx.is_d_separator on the same DAG, the second opinion
* `d_separated(...)`        : both; raises OracleDisagreement if they differ (a harness problem, never a verdict)
* `ci_holds(...)`           : exact-rational check that a ⟂ b | C holds in a random discrete SCM compatible with g
                              (used for the "consequently every reported separation is a conditional independence
                              of every compatible model" clause on small graphs)

Graphs are the integer dicts of harness/gen_graph.py: {"nodes": [...], "di": [[u, v]...], "bi": [[u, v]...]}.
"""
from __future__ import annotations

import itertools as itt
from fractions import Fraction


class OracleDisagreement(Exception):
    pass


def all_nodes(g):
    seen = []
    for v in itt.chain(g["nodes"], *g["di"], *g["bi"]):
        if v not in seen:
            seen.append(v)
    return seen


def is_acyclic(g) -> bool:
    nodes = all_nodes(g)
    ch = {v: set() for v in nodes}
    for u, v in g["di"]:
        ch[u].add(v)
    state = {}

    def visit(v):
        if state.get(v) == 1:
            return False
        if state.get(v) == 2:
            return True
        state[v] = 1
        for w in ch[v]:
            if not visit(w):
                return False
        state[v] = 2
        return True

    return all(visit(v) for v in nodes)


def canonical_dag(g):
    """returns (nodes, parents dict, children dict) of the DAG with one latent per bidirected edge"""
    nodes = list(all_nodes(g))
    pa = {v: set() for v in nodes}
    ch = {v: set() for v in nodes}
    for u, v in g["di"]:
        pa[v].add(u)
        ch[u].add(v)
    seen = set()
    k = 0
    for u, v in g["bi"]:
        key = frozenset((u, v))
        if key in seen or u == v:
            continue  # a mixed graph stores an undirected edge once; a self-loop is not a confounder of two nodes
        seen.add(key)
        lat = ("L", k)
        k += 1
        nodes.append(lat)
        pa[lat] = set()
        ch[lat] = {u, v}
        pa[u].add(lat)
        pa[v].add(lat)
    return nodes, pa, ch


def _descendants_inclusive(ch, v):
    seen = {v}
    todo = [v]
    while todo:
        x = todo.pop()
        for w in ch[x]:
            if w not in seen:
                seen.add(w)
                todo.append(w)
    return seen


def d_connecting_path(g, a, b, C):
    """a d-connecting simple path between a and b given C in the canonical DAG, or None.
    Exhaustive depth-first enumeration of simple paths; a prefix is abandoned as soon as one of its inner
    nodes is blocked (which does not change which complete paths are found open)."""
    nodes, pa, ch = canonical_dag(g)
    Cs = set(C)
    has_desc_in_C = {v: bool(_descendants_inclusive(ch, v) & Cs) for v in nodes}
    nbrs = {v: [(w, "out") for w in sorted(ch[v], key=str)] + [(w, "in") for w in sorted(pa[v], key=str)] for v in nodes}
    # "out": edge v -> w (arrowhead at w, tail at v);  "in": edge w -> v (arrowhead at v, tail at w)

    def open_at(v, arrived_with_head, leaves_with_head):
        collider = arrived_with_head and leaves_with_head
        if collider:
            return has_desc_in_C[v]
        return v not in Cs

    def dfs(path, arrived_with_head):
        cur = path[-1]
        for w, kind in nbrs[cur]:
            if w in path:
                continue
            leaves_with_head = kind == "in"        # mark of this edge at cur
            if len(path) > 1 and not open_at(cur, arrived_with_head, leaves_with_head):
                continue
            head_at_w = kind == "out"
            if w == b:
                return path + [w]
            r = dfs(path + [w], head_at_w)
            if r is not None:
                return r
        return None

    if a == b:
        return [a]
    return dfs([a], False)


def d_separated_paths(g, a, b, C) -> bool:
    return d_connecting_path(g, a, b, C) is None


def d_separated_nx(g, a, b, C) -> bool:
    import networkx as nx

    nodes, pa, ch = canonical_dag(g)
    D = nx.DiGraph()
    D.add_nodes_from(nodes)
    for v in nodes:
        for w in ch[v]:
            D.add_edge(v, w)
    return bool(nx.is_d_separator(D, {a}, {b}, set(C)))


def d_separated(g, a, b, C) -> bool:
    """requires: g acyclic, a != b, a, b not in C, C subset of nodes"""
    p = d_separated_paths(g, a, b, C)
    q = d_separated_nx(g, a, b, C)
    if p != q:
        raise OracleDisagreement(f"path enumeration says {p}, networkx says {q} on {g} {a} {b} {C}")
    return p


def in_scope(g, a, b, C) -> bool:
    """the quantifier of C04 / C20 (agreement clause): ADMG, distinct nodes, C subset of V minus {a, b}"""
    V = set(all_nodes(g))
    return (a in V and b in V and a != b and set(C) <= V - {a, b} and is_acyclic(g)
            and all(u != v for u, v in g["di"]) and all(u != v for u, v in g["bi"]))


# ------------------------------------------------------------------ exact conditional independence in a random SCM


def ci_holds(g, a, b, C, rng, card=2) -> bool:
    """a ⟂ b | C in a random positive discrete SCM compatible with g (every bidirected edge an independent
    binary latent root), computed with exact rationals.  Only for small graphs (<= 5 observed nodes)."""
    nodes = sorted(all_nodes(g))
    par = {v: sorted({u for u, w in g["di"] if w == v}) for v in nodes}
    lat = []
    lat_of = {v: [] for v in nodes}
    seen = set()
    for u, v in g["bi"]:
        key = frozenset((u, v))
        if key in seen:
            continue
        seen.add(key)
        k = len(lat)
        lat.append(k)
        lat_of[u].append(k)
        lat_of[v].append(k)
    pu = []
    for _ in lat:
        w = [rng.randint(1, 5) for _ in range(2)]
        pu.append([Fraction(x, sum(w)) for x in w])
    kern = {}

    def kernel(v, key):
        if (v, key) not in kern:
            w = [rng.randint(1, 6) for _ in range(card)]
            kern[(v, key)] = [Fraction(x, sum(w)) for x in w]
        return kern[(v, key)]

    joint = {}
    for vals in itt.product(range(card), repeat=len(nodes)):
        asg = dict(zip(nodes, vals))
        tot = Fraction(0)
        for lv in itt.product(range(2), repeat=len(lat)):
            p = Fraction(1)
            for k in lat:
                p *= pu[k][lv[k]]
            for v in nodes:
                key = tuple(asg[q] for q in par[v]) + tuple(lv[k] for k in lat_of[v])
                p *= kernel(v, key)[asg[v]]
            tot += p
        joint[vals] = tot
    idx = {v: i for i, v in enumerate(nodes)}

    def marg(assign):
        return sum((p for vals, p in joint.items() if all(vals[idx[v]] == x for v, x in assign.items())), Fraction(0))

    Cl = sorted(set(C))
    for cv in itt.product(range(card), repeat=len(Cl)):
        base = dict(zip(Cl, cv))
        pc = marg(base)
        for x in range(card):
            for y in range(card):
                pab = marg({**base, a: x, b: y})
                pa_ = marg({**base, a: x})
                pb_ = marg({**base, b: y})
                if pab * pc != pa_ * pb_:
                    return False
    return True
