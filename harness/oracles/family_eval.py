"""Multi-domain exact-rational evaluator: the oracle of C05 (and the value part of C09).

Independent of y0: everything here works in integer name space on the JSON encoding of expressions
(harness/enc_expr.py), so the same code evaluates what the real code returned and what the Lean model returned.

Model class (DESIGN.md 3.3 / lean/Y0/Spec/Scm.lean + Spec/FamilySpec.lean):
  * target model M*: discrete semi-Markovian SCM compatible with the ADMG G: one independent root latent per bidirected
    edge (plus, sometimes, one shared by a bidirected triangle), positive rational priors, for every observed v a positive
    kernel P(v | pa_G(v), latents of v);
  * source model M_i: equal to M* except for FRESH random kernels at exactly the nodes where domain i may differ
    (`nodes_may_differ`, re-implemented here from the rule of Tikka & Karvanen: a transportability node points at
    every member of (De_G(Z_i) - W_i) u (C_G(W_i) - An_{G[bar Z_i]}(W_i)));
  * a leaf tagged with population pi and whose variables all carry the subscript set Z' is read from M_pi under do(Z'),
    the do-values being the current values of the names in Z' (so a subscript bound by an enclosing Sum denotes the
    bound value, as in Spec/Sem.lean).

Arithmetic: kernels and priors are integer weights over a fixed denominator, the joint under an intervention is one integer
einsum (cached per (domain, intervention set)); marginals become arrays of `fractions.Fraction` with one axis per graph
variable, so an expression is evaluated at EVERY value assignment at once.
"""
from __future__ import annotations

import itertools as itt
import random
from fractions import Fraction as F

import numpy as np

TARGET = 1000


class EvalError(Exception):
    """the expression cannot be read in the model class (mixed worlds, starred values, unknown population, 0/0)"""


# ------------------------------------------------------------------------------------------------ graph helpers (own code)

def _closure(start, step):
    seen = set(start)
    todo = list(start)
    while todo:
        v = todo.pop()
        for w in step(v):
            if w not in seen:
                seen.add(w)
                todo.append(w)
    return seen


def nodes_of(g):
    seen = []
    for v in itt.chain(g["nodes"], *g["di"], *g["bi"]):
        if v not in seen:
            seen.append(v)
    return seen


def ancestors(di, S, removed_in=()):
    rem = set(removed_in)
    return _closure(S, lambda v: {u for (u, w) in di if w == v and w not in rem})


def descendants(di, S):
    return _closure(S, lambda v: {w for (u, w) in di if u == v})


def districts(nodes, bi):
    out = []
    seen = set()
    for v in nodes:
        if v in seen:
            continue
        d = _closure({v}, lambda x: {b for (a, b) in bi if a == x} | {a for (a, b) in bi if b == x})
        seen |= d
        out.append(frozenset(d))
    return out


def nodes_may_differ(g, Z, W):
    """where the source domain with experiments on Z and surrogate outcomes W may differ from the target"""
    V = nodes_of(g)
    di = [tuple(e) for e in g["di"]]
    bi = [tuple(e) for e in g["bi"]]
    Z, W = set(Z), set(W)
    cW = set()
    for d in districts(V, bi):
        if d & W:
            cW |= d
    anW = ancestors(di, W, removed_in=Z)
    return (descendants(di, Z) - W) | (cW - anW)


# ------------------------------------------------------------------------------------------------ models

def _weights(rng, k, total):
    """k positive integers summing to `total` (a random positive pmf with denominator `total`)"""
    cuts = sorted(rng.sample(range(1, total), k - 1))
    return [b - a for a, b in zip([0] + cuts, cuts + [total])]


class Family:
    """target + source models over one ADMG; `marks[pop]` = nodes where population `pop` has its own mechanism"""

    DEN = 12
    MAX_LATENTS = 10   # 6^14 * 12^7 < 2^62: the integer einsum cannot overflow

    def __init__(self, g, marks: dict[int, set[int]], rng: random.Random, cards=None, tri_latents=True, cut=None, den=None):
        """`cut[pop]`: variables whose incoming edges (directed and bidirected) are removed in population `pop`
        (an atomic / randomised policy); they get a fresh parentless kernel there"""
        if den is not None:
            self.DEN = den
        self.nodes = sorted(nodes_of(g))
        self.idx = {v: i for i, v in enumerate(self.nodes)}
        self.n = len(self.nodes)
        self.card = {v: (cards or {}).get(v, 2) for v in self.nodes}
        di = sorted({tuple(e) for e in g["di"]})
        bi = sorted({tuple(sorted(e)) for e in g["bi"] if e[0] != e[1]})
        self.pa = {v: sorted(u for (u, w) in di if w == v) for v in self.nodes}
        # latents: one per bidirected edge; sometimes one more for a bidirected triangle
        self.lat_scope = [set(e) for e in bi]
        if tri_latents:
            bs = {frozenset(e) for e in bi}
            for a, b, c in itt.combinations(self.nodes, 3):
                if len(self.lat_scope) < self.MAX_LATENTS and rng.random() < 0.5 and \
                        {frozenset((a, b)), frozenset((a, c)), frozenset((b, c))} <= bs:
                    self.lat_scope.append({a, b, c})
        if len(self.lat_scope) > self.MAX_LATENTS + 4 or len(self.nodes) > 7:
            raise EvalError("graph too large for the exact evaluator")
        self.m = len(self.lat_scope)
        self.lcard = [2 if rng.random() < 0.85 else 3 for _ in range(self.m)]
        self.prior = [_weights(rng, k, 6) for k in self.lcard]
        self.lat_of = {v: [j for j, s in enumerate(self.lat_scope) if v in s] for v in self.nodes}
        self.struct = {TARGET: {v: (self.pa[v], self.lat_of[v]) for v in self.nodes}}
        self.kern = {TARGET: {v: self._rand_kernel(rng, v) for v in self.nodes}}
        self.marks = {TARGET: set()}
        for pop, mk in sorted(marks.items()):
            if pop == TARGET:
                continue
            self.marks[pop] = set(mk)
            cutp = set((cut or {}).get(pop, ()))
            self.struct[pop] = {v: (([], []) if v in cutp else (self.pa[v], self.lat_of[v])) for v in self.nodes}
            self.kern[pop] = {v: (self._rand_kernel(rng, v, *self.struct[pop][v]) if (v in mk or v in cutp)
                                  else self.kern[TARGET][v]) for v in self.nodes}
        self._joint = {}
        self._marg = {}

    def _rand_kernel(self, rng, v, pa=None, lats=None):
        pa = self.pa[v] if pa is None else pa
        lats = self.lat_of[v] if lats is None else lats
        shape = [self.card[v]] + [self.card[p] for p in pa] + [self.lcard[j] for j in lats]
        t = np.zeros(shape, dtype=np.int64)
        for key in itt.product(*[range(s) for s in shape[1:]]):
            t[(slice(None),) + key] = _weights(rng, self.card[v], self.DEN)
        return t

    def joint(self, pop, do: frozenset):
        """(numerators: int array with one axis per observed variable, denominator).  Entry [a] is
        P^{pop}_{do(Z = a_Z)}(V-Z = a_{V-Z})."""
        key = (pop, do)
        if key in self._joint:
            return self._joint[key]
        if pop not in self.kern:
            raise EvalError(f"unknown population {pop}")
        ops = []
        den = 1
        for j in range(self.m):
            ops += [np.array(self.prior[j], dtype=np.int64), [self.n + j]]
            den *= sum(self.prior[j])
        for v in self.nodes:
            if v in do:
                ops += [np.ones(self.card[v], dtype=np.int64), [self.idx[v]]]
            else:
                pa, lats = self.struct[pop][v]
                ops += [self.kern[pop][v], [self.idx[v]] + [self.idx[p] for p in pa] + [self.n + j for j in lats]]
                den *= self.DEN
        assert den < 2 ** 62
        arr = np.einsum(*ops, list(range(self.n)), optimize="greedy") if self.n else np.array(1, dtype=np.int64)
        self._joint[key] = (arr, den)
        return self._joint[key]

    def marginal(self, pop, do: frozenset, keep: frozenset):
        """array of Fractions, axes of `keep u do` kept, all others summed (size-1 axes)"""
        key = (pop, do, keep)
        if key not in self._marg:
            arr, den = self.joint(pop, do)
            axes = tuple(self.idx[v] for v in self.nodes if v not in keep and v not in do)
            s = arr.sum(axis=axes, keepdims=True) if axes else arr
            out = np.empty(s.shape, dtype=object)
            flat_in, flat_out = s.reshape(-1), out.reshape(-1)
            for i in range(flat_in.size):
                flat_out[i] = F(int(flat_in[i]), den)
            self._marg[key] = out
        return self._marg[key]

    def effect(self, X, Y, pop=TARGET):
        """P^{pop}(Y | do(X)) as an array over the axes X u Y"""
        return self.marginal(pop, frozenset(X), frozenset(Y))

    # ---------------------------------------------------------------- expressions (JSON encoding of enc_expr)
    def _const(self, q):
        a = np.empty((1,) * self.n, dtype=object)
        a.reshape(-1)[0] = F(q)
        return a

    def _var(self, v):
        _, name, star, _isiv, ivs = v
        name = int(name)
        if star == "p":
            raise EvalError("starred value")
        do = set()
        for a, b in ivs:
            if b == "p":
                raise EvalError("starred subscript")
            do.add(int(a))
        if name not in self.idx or any(z not in self.idx for z in do):
            raise EvalError(f"variable {name} / subscript not a variable of the graph")
        return name, frozenset(do)

    def ev(self, e):
        if e == "one":
            return self._const(1)
        if e == "zero":
            return self._const(0)
        tag = e[0]
        if tag in ("P", "PP"):
            if tag == "PP":
                pop, ch, pa = int(e[1][1]), e[2], e[3]
            else:
                pop, ch, pa = TARGET, e[1], e[2]
            cs = [self._var(v) for v in ch]
            ps = [self._var(v) for v in pa]
            worlds = {d for _, d in cs + ps}
            if len(worlds) > 1:
                raise EvalError("leaf mixes worlds")
            do = next(iter(worlds)) if worlds else frozenset()
            keep_p = frozenset(n for n, _ in ps)
            keep_c = frozenset(n for n, _ in cs) | keep_p
            num = self.marginal(pop, do, keep_c)
            if not ps:
                return num
            den = self.marginal(pop, do, keep_p)
            return self._div(num, den)
        if tag == "prod":
            r = self._const(1)
            for x in e[1:]:
                r = r * self.ev(x)
            return r
        if tag == "sum":
            r = self.ev(e[2])
            for v in e[1]:
                name = int(v[1])
                if name not in self.idx:
                    raise EvalError(f"range {name} is not a variable of the graph")
                ax = self.idx[name]
                if r.shape[ax] == 1:
                    r = r * self.card[name]
                else:
                    r = r.sum(axis=ax, keepdims=True)
            return r
        if tag == "frac":
            return self._div(self.ev(e[1]), self.ev(e[2]))
        raise EvalError(f"cannot evaluate {tag}")

    @staticmethod
    def _div(a, b):
        if any(x == 0 for x in b.reshape(-1)):
            raise EvalError("division by zero")
        return a / b

    def equal_everywhere(self, a, b):
        a2, b2 = np.broadcast_arrays(a, b)
        return bool(np.all(a2 == b2))

    def first_difference(self, a, b):
        a2, b2 = np.broadcast_arrays(a, b)
        for pos in itt.product(*[range(s) for s in a2.shape]):
            if a2[pos] != b2[pos]:
                return {"assignment": {str(self.nodes[i]): int(k) for i, k in enumerate(pos) if a2.shape[i] > 1},
                        "estimand": str(a2[pos]), "expected": str(b2[pos])}
        return None

    def describe(self):
        return {"cards": {str(v): self.card[v] for v in self.nodes}, "latents": [sorted(s) for s in self.lat_scope],
                "own_mechanisms": {str(p): sorted(m) for p, m in self.marks.items() if p != TARGET}}


class FunctionalTarget:
    """the target model of a `Family` as a FUNCTIONAL SCM: every observed variable gets a private noise, uniform on
    `range(DEN)`, and `v := f_v(pa(v), latents(v), noise_v)` is the inverse-cdf of its kernel row; so counterfactual
    (cross-world) events have a probability: the mass of the noise points on which every world agrees with the event."""

    def __init__(self, fam: Family):
        self.fam = fam
        f = fam
        order = []
        seen = set()
        while len(order) < f.n:
            for v in f.nodes:
                if v not in seen and all(p in seen for p in f.pa[v]):
                    order.append(v)
                    seen.add(v)
        self.order = order
        self.F = {}
        for v in f.nodes:
            k = f.kern[TARGET][v]                        # axes: value, parents..., latents...
            cum = np.cumsum(k, axis=0)                   # cum[val, ...] = #noise points mapped to a value <= val
            eps = np.arange(f.DEN).reshape((1,) * (k.ndim - 1) + (f.DEN,))
            self.F[v] = (cum[..., None] <= eps[None, ...]).sum(axis=0)   # axes: parents..., latents..., noise -> value
        shape = list(f.lcard) + [f.DEN] * f.n
        grids = np.indices(shape).reshape(len(shape), -1)
        self.lat = grids[:f.m]
        self.eps = {v: grids[f.m + i] for i, v in enumerate(f.nodes)}
        w = np.ones(grids.shape[1], dtype=object)
        for j in range(f.m):
            w = w * np.array(f.prior[j], dtype=object)[self.lat[j]]
        self.w = w
        self.total = int(np.prod([sum(p) for p in f.prior], dtype=object)) * (f.DEN ** f.n) if True else 0
        self._worlds = {}

    def world(self, do: frozenset):
        """values of every variable at every noise point under do(`do` = frozenset of (name, value))"""
        if do not in self._worlds:
            f = self.fam
            dod = dict(do)
            vals = {}
            for v in self.order:
                if v in dod:
                    vals[v] = np.full(self.w.shape[0], dod[v], dtype=np.int64)
                else:
                    idx = tuple(vals[p] for p in f.pa[v]) + tuple(self.lat[j] for j in f.lat_of[v]) + (self.eps[v],)
                    vals[v] = self.F[v][idx]
            self._worlds[do] = vals
        return self._worlds[do]

    def prob(self, atoms):
        """P*(AND of atoms); an atom is (name, frozenset of (name, value)) -> value"""
        mask = np.ones(self.w.shape[0], dtype=bool)
        for (name, do, val) in atoms:
            mask &= (self.world(do)[name] == val)
        return F(int(self.w[mask].sum()) if mask.any() else 0, self.total)


def make_family(g, domains, seed, cards=None):
    """domains: list of [Z_i, W_i]; population of domain k is TARGET+1+k"""
    rng = random.Random(seed)
    marks = {TARGET + 1 + k: nodes_may_differ(g, Z, W) for k, (Z, W) in enumerate(domains)}
    return Family(g, marks, rng, cards=cards)


def free_names(e, bound=frozenset()):
    """names the value of the encoded expression may depend on (event variables and subscripts not bound by a Sum)"""
    if e in ("one", "zero"):
        return set()
    tag = e[0]
    if tag in ("P", "PP"):
        vs = (e[2] + e[3]) if tag == "PP" else (e[1] + e[2])
        out = set()
        for v in vs:
            out.add(int(v[1]))
            out |= {int(a) for a, _ in v[4]}
        return out - bound
    if tag == "prod":
        return set().union(*[free_names(x, bound) for x in e[1:]]) if len(e) > 1 else set()
    if tag == "sum":
        return free_names(e[2], bound | {int(v[1]) for v in e[1]})
    if tag == "frac":
        return free_names(e[1], bound) | free_names(e[2], bound)
    return set()


def leaves(e):
    if e in ("one", "zero"):
        return
    tag = e[0]
    if tag in ("P", "PP"):
        yield e
    elif tag == "prod":
        for x in e[1:]:
            yield from leaves(x)
    elif tag == "sum":
        yield from leaves(e[2])
    elif tag == "frac":
        yield from leaves(e[1])
        yield from leaves(e[2])


def ranges_of(e):
    if e in ("one", "zero"):
        return
    tag = e[0]
    if tag == "prod":
        for x in e[1:]:
            yield from ranges_of(x)
    elif tag == "sum":
        yield from (int(v[1]) for v in e[1])
        yield from ranges_of(e[2])
    elif tag == "frac":
        yield from ranges_of(e[1])
        yield from ranges_of(e[2])


def vocabulary_violation(e, graph_nodes, domains):
    """C06 (transport part): every leaf is a term of the target observational distribution or of a declared source
    domain under a subset of that domain's experimental variables; no selection node, no starred value, no plain P."""
    V = set(graph_nodes)
    for r in ranges_of(e):
        if r not in V:
            return f"Sum range {r} is not a node of the user's graph"
    for lf in leaves(e):
        if lf[0] == "P":
            return "leaf without a population tag"
        pop, vs = int(lf[1][1]), lf[2] + lf[3]
        worlds = set()
        for v in vs:
            if int(v[1]) not in V:
                return f"leaf mentions {v[1]}, not a node of the user's graph (selection node?)"
            if v[2] != "n" or str(v[3]) == "1":
                return "leaf mentions a starred value / bare intervention"
            if any(b == "p" for _, b in v[4]):
                return "leaf has a starred subscript"
            worlds.add(frozenset(int(a) for a, _ in v[4]))
        if len(worlds) > 1:
            return "leaf mixes worlds"
        do = next(iter(worlds)) if worlds else frozenset()
        if pop == TARGET:
            if do:
                return f"target-domain term under an intervention on {sorted(do)}"
        elif TARGET < pop <= TARGET + len(domains):
            Z = set(domains[pop - TARGET - 1][0])
            if not do <= Z:
                return f"term of domain {pop} under do({sorted(do)}), not a subset of its experiments {sorted(Z)}"
        else:
            return f"term of an undeclared population {pop}"
    return None
