"""Independent executable specification for property C16 (written from the property statement, not from
the Lean model and not from y0's code).  Plain Python over hashable node names; no networkx, no y0.

* latent projection of a DAG with a latent subset onto its observed nodes, by PATH ENUMERATION:
    u -> v   iff there is a directed path u -> l1 -> ... -> lk -> v (k >= 0) whose inner nodes are all latent
    u <-> v  iff u != v and some latent l has latent-only directed paths to both u and v
* d-connection in a DAG by enumeration of the simple paths of the skeleton (a collider is open iff it or a
  descendant is in Z, a non-collider is open iff it is not in Z)
* the canonical DAG of an ADMG (one fresh exogenous parent per bidirected edge), used to read m-separation
  in a projection as d-separation
"""
from __future__ import annotations

import itertools as itt


def _succ(edges):
    s = {}
    for u, v in edges:
        s.setdefault(u, []).append(v)
    return s


def latent_only_paths(start, edges, latent):
    """all directed paths start -> l1 -> ... -> lk -> end with every inner node latent and `end` observed
    (paths as tuples; a path never repeats a node, so cyclic input terminates too)"""
    succ = _succ(edges)
    out = []

    def go(path):
        for w in succ.get(path[-1], ()):
            if w in path:
                continue
            if w in latent:
                go(path + (w,))
            else:
                out.append(path + (w,))
    go((start,))
    return out


def projection(nodes, edges, latent):
    """returns (observed: set, di: set of (u, v), bi: set of frozenset({u, v}))"""
    latent = set(latent) & set(nodes)
    observed = set(nodes) - latent
    di = set()
    for u in observed:
        for p in latent_only_paths(u, edges, latent):
            if p[-1] != u:
                di.add((u, p[-1]))
    bi = set()
    for l in latent:
        reach = {p[-1] for p in latent_only_paths(l, edges, latent)}
        for a, b in itt.combinations(sorted(reach, key=str), 2):
            bi.add(frozenset((a, b)))
    return observed, di, bi


def descendants(edges):
    succ = _succ(edges)
    memo = {}

    def d(v):
        if v not in memo:
            memo[v] = {v}
            acc = {v}
            for w in succ.get(v, ()):
                acc |= d(w)
            memo[v] = acc
        return memo[v]
    return d


class DSep:
    """d-connection among the nodes of a DAG by enumeration of skeleton paths (cached per pair)"""

    def __init__(self, nodes, edges):
        self.nodes = list(nodes)
        self.edges = {(u, v) for u, v in edges}
        self.nb = {}
        for u, v in self.edges:
            self.nb.setdefault(u, set()).add(v)
            self.nb.setdefault(v, set()).add(u)
        d = descendants(self.edges)
        self.desc = {v: frozenset(d(v)) for v in self.nodes}
        self._paths = {}

    def paths(self, a, b):
        """list of (noncolliders: frozenset, colliders: tuple of descendant-sets) for every simple path a..b"""
        key = (a, b)
        if key in self._paths:
            return self._paths[key]
        res = []

        def go(path):
            cur = path[-1]
            if cur == b:
                non, col = set(), []
                for i in range(1, len(path) - 1):
                    x, m, y = path[i - 1], path[i], path[i + 1]
                    if (x, m) in self.edges and (y, m) in self.edges:
                        col.append(self.desc[m])
                    else:
                        non.add(m)
                res.append((frozenset(non), tuple(col)))
                return
            for w in self.nb.get(cur, ()):
                if w not in path:
                    go(path + (w,))
        go((a,))
        self._paths[key] = res
        return res

    def connected(self, a, b, Z):
        Z = frozenset(Z)
        for non, col in self.paths(a, b):
            if non & Z:
                continue
            if all(c & Z for c in col):
                return True
        return False


class WalkSep:
    """d-connection in the WALK formulation used by lean/Y0/Spec/LatentSpec.lean (`Reach` / `DConn`):
    states (node, arrived-along-an-edge-into-the-node?), colliders need a descendant-or-self in Z, other inner
    nodes must be outside Z.  Used to cross-check the specification against the path formulation."""

    def __init__(self, nodes, edges):
        self.nodes = list(nodes)
        es = {(u, v) for u, v in edges}
        self.ch, self.pa = {}, {}
        for u, v in es:
            self.ch.setdefault(u, []).append(v)
            self.pa.setdefault(v, []).append(u)
        d = descendants(es)
        self.desc = {v: frozenset(d(v)) for v in self.nodes}

    def connected(self, a, b, Z):
        Z = frozenset(Z)
        ch, pa = self.ch, self.pa
        seen = set()
        todo = [(c, True) for c in ch.get(a, ())] + [(p, False) for p in pa.get(a, ())]
        while todo:
            st = todo.pop()
            if st in seen:
                continue
            seen.add(st)
            x, down = st
            if down:
                if x not in Z:
                    todo += [(c, True) for c in ch.get(x, ())]
                if self.desc[x] & Z:
                    todo += [(p, False) for p in pa.get(x, ())]
            elif x not in Z:
                todo += [(p, False) for p in pa.get(x, ())] + [(c, True) for c in ch.get(x, ())]
        return (b, True) in seen or (b, False) in seen


class MixedWalkSep:
    """m-connection in a mixed graph in the WALK formulation of lean/Y0/Spec/LatentSpec.lean (`MixedReach`):
    state (node, arrowhead-at-node?); collider (two arrowheads) needs a descendant-or-self in Z along directed
    edges, any other inner node must be outside Z."""

    def __init__(self, nodes, di, bi):
        self.nodes = list(nodes)
        self.ch, self.pa, self.sp = {}, {}, {}
        for u, v in di:
            self.ch.setdefault(u, []).append(v)
            self.pa.setdefault(v, []).append(u)
        for e in bi:
            u, v = tuple(e)
            self.sp.setdefault(u, []).append(v)
            self.sp.setdefault(v, []).append(u)
        d = descendants({(u, v) for u, v in di})
        self.desc = {v: frozenset(d(v)) for v in self.nodes}

    def connected(self, a, b, Z):
        Z = frozenset(Z)
        ch, pa, sp = self.ch, self.pa, self.sp
        seen = set()
        todo = [(c, True) for c in ch.get(a, ())] + [(p, False) for p in pa.get(a, ())] + [(y, True) for y in sp.get(a, ())]
        while todo:
            st = todo.pop()
            if st in seen:
                continue
            seen.add(st)
            x, head = st
            if head:
                if x not in Z:
                    todo += [(c, True) for c in ch.get(x, ())]
                if self.desc[x] & Z:
                    todo += [(p, False) for p in pa.get(x, ())] + [(y, True) for y in sp.get(x, ())]
            elif x not in Z:
                todo += [(p, False) for p in pa.get(x, ())] + [(c, True) for c in ch.get(x, ())] + [(y, True) for y in sp.get(x, ())]
        return (b, True) in seen or (b, False) in seen


def canonical_dag(observed, di, bi):
    """ADMG -> DAG with one fresh exogenous latent per bidirected edge; returns (nodes, edges, latent)"""
    nodes = list(observed)
    edges = list(di)
    latent = []
    for k, e in enumerate(sorted(bi, key=lambda e: sorted(map(str, e)))):
        a, b = sorted(e, key=str)
        l = ("__lat__", k)
        nodes.append(l)
        latent.append(l)
        edges += [(l, a), (l, b)]
    return nodes, edges, latent


def sep_relation(nodes, edges, observed, triples):
    """verdicts (True = d-connected) on the given (a, b, Z) triples over observed nodes"""
    ds = DSep(nodes, edges)
    return [ds.connected(a, b, Z) for a, b, Z in triples]


def all_triples(observed, rng=None, limit=None):
    obs = sorted(observed, key=str)
    out = []
    for a, b in itt.combinations(obs, 2):
        rest = [x for x in obs if x != a and x != b]
        for r in range(len(rest) + 1):
            for Z in itt.combinations(rest, r):
                out.append((a, b, Z))
    if limit is not None and len(out) > limit and rng is not None:
        out = rng.sample(out, limit)
    return out


def is_acyclic(nodes, edges):
    succ = _succ(edges)
    state = {}

    def visit(v):
        if state.get(v) == 1:
            return False
        if state.get(v) == 2:
            return True
        state[v] = 1
        for w in succ.get(v, ()):
            if not visit(w):
                return False
        state[v] = 2
        return True
    return all(visit(v) for v in nodes)
