"""Exact-rational semi-Markovian SCMs compatible with an ADMG, and exact evaluation of y0 estimands.

Independent executable specification behind C01 / C03 (and reusable for C05 / C17):

* `random_scm(rng, g, ...)`   a random *positive* model compatible with the mixed graph `g` (integer node
                              space, see gen_graph): cardinalities 2-3, independent root latents (one or
                              several per bidirected edge, or one per bidirected clique), kernels
                              P(v | pa(v), latents(v)) with random positive rational entries.
* `Scm.q_table(S)`            Tian's c-factor Q[S] = sum_u prod_u P(u) prod_{v in S} P(v | pa, u)  as a Table
* `Scm.joint()`               observational joint  P(v) = Q[V]
* `Scm.do_table(X, Y)`        P(y | do(x)) as a Table over X ∪ Y  (truncated factorisation)
* `eval_expr(expr, scm)`      a y0 expression evaluated on the observational joint, as a Table over its
                              free variables (every sub-expression is evaluated once, as a table)

A `Table` is (vars, dict assignment-tuple -> Fraction).  Exact arithmetic only.  Written from the textbook
definitions (Tian & Pearl 2002; Pearl 2009 eq. 3.10), not from the Lean model.
"""
from __future__ import annotations

import itertools as itt
import math
import random
from fractions import Fraction as F


class Table:
    __slots__ = ("vars", "t")

    def __init__(self, vars_, t):
        self.vars = tuple(vars_)
        self.t = t

    def at(self, env):
        return self.t[tuple(env[v] for v in self.vars)]


def _assignments(vars_, card):
    return itt.product(*[range(card[v]) for v in vars_])


def t_const(c):
    return Table((), {(): F(c)})


def t_binop(a: Table, b: Table, card, op):
    vs = tuple(sorted(set(a.vars) | set(b.vars)))
    ia = [vs.index(v) for v in a.vars]
    ib = [vs.index(v) for v in b.vars]
    out = {}
    for asg in _assignments(vs, card):
        out[asg] = op(a.t[tuple(asg[i] for i in ia)], b.t[tuple(asg[i] for i in ib)])
    return Table(vs, out)


def t_mul(a, b, card):
    return t_binop(a, b, card, lambda x, y: x * y)


def t_div(a, b, card):
    def dv(x, y):
        if y == 0:
            raise ZeroDivisionError("division by zero while evaluating an estimand")
        return x / y
    return t_binop(a, b, card, dv)


def t_sum_out(a: Table, ranges, card):
    """sum over the values of the variables in `ranges`; a range variable that does not occur free multiplies
    by its cardinality (that is what the expression denotes)"""
    ranges = set(ranges)
    keep = tuple(v for v in a.vars if v not in ranges)
    idx = [a.vars.index(v) for v in keep]
    out = {}
    for asg, p in a.t.items():
        k = tuple(asg[i] for i in idx)
        out[k] = out.get(k, F(0)) + p
    mult = 1
    for r in ranges:
        if r not in a.vars:
            mult *= card[r]
    if mult != 1:
        out = {k: v * mult for k, v in out.items()}
    return Table(keep, out)


class Scm:
    """nodes: sorted ints; pa[v]: list; lat_of[v]: list of latent ids; latents: list of ids; lcard, card;
    prior[u]: list of Fractions; kern[v][(pa values..., latent values...)] : list of Fractions over v's values"""

    def __init__(self, nodes, pa, card, latents, lcard, lat_of, prior, kern, desc):
        self.nodes = list(nodes)
        self.pa = pa
        self.card = card
        self.latents = latents
        self.lcard = lcard
        self.lat_of = lat_of
        self.prior = prior
        self.kern = kern
        self.desc = desc
        self._q = {}
        self._marg = {}

    # -- c-factors -----------------------------------------------------------------------------
    def _classes(self, S):
        """partition S by shared latents (restricted to S)"""
        S = list(S)
        parent = {v: v for v in S}

        def find(x):
            while parent[x] != x:
                parent[x] = parent[parent[x]]
                x = parent[x]
            return x
        for u in self.latents:
            us = [v for v in S if u in self.lat_of[v]]
            for a, b in zip(us, us[1:]):
                parent[find(a)] = find(b)
        cl = {}
        for v in S:
            cl.setdefault(find(v), []).append(v)
        return list(cl.values())

    def _q_class_slow(self, C):
        """reference implementation of `_q_class` with Fractions throughout (kept for the self-test)"""
        C = sorted(C)
        scope = tuple(sorted(set(C) | {p for v in C for p in self.pa[v]}))
        lats = sorted({u for v in C for u in self.lat_of[v]})
        out = {}
        lat_asgs = list(itt.product(*[range(self.lcard[u]) for u in lats]))
        lat_w = []
        for la in lat_asgs:
            w = F(1)
            for u, k in zip(lats, la):
                w *= self.prior[u][k]
            lat_w.append(w)
        pos = {v: i for i, v in enumerate(scope)}
        lpos = {u: i for i, u in enumerate(lats)}
        for asg in _assignments(scope, self.card):
            tot = F(0)
            for la, w in zip(lat_asgs, lat_w):
                p = w
                for v in C:
                    key = tuple(asg[pos[q]] for q in self.pa[v]) + tuple(la[lpos[u]] for u in self.lat_of[v])
                    p *= self.kern[v][key][asg[pos[v]]]
                tot += p
            out[asg] = tot
        return Table(scope, out)

    def _int_kern(self, v):
        """the kernel of v as integers over one common denominator: (denominator, {key: [numerators]})"""
        cache = self.__dict__.setdefault("_kint", {})
        if v not in cache:
            d = 1
            for row in self.kern[v].values():
                for f in row:
                    d = math.lcm(d, f.denominator)
            cache[v] = (d, {key: [int(f * d) for f in row] for key, row in self.kern[v].items()})
        return cache[v]

    def _q_class(self, C):
        """Q[C] for a latent-connected class: table over C ∪ pa(C).  Same sum as `_q_class_slow`, computed with
        integer numerators over common denominators (exact; one Fraction per table entry)."""
        C = sorted(C)
        scope = tuple(sorted(set(C) | {p for v in C for p in self.pa[v]}))
        lats = sorted({u for v in C for u in self.lat_of[v]})
        out = {}
        lat_asgs = list(itt.product(*[range(self.lcard[u]) for u in lats]))
        den = 1
        pint = {}
        for u in lats:
            d = 1
            for f in self.prior[u]:
                d = math.lcm(d, f.denominator)
            pint[u] = [int(f * d) for f in self.prior[u]]
            den *= d
        lat_w = []
        for la in lat_asgs:
            w = 1
            for u, k in zip(lats, la):
                w *= pint[u][k]
            lat_w.append(w)
        pos = {v: i for i, v in enumerate(scope)}
        lpos = {u: i for i, u in enumerate(lats)}
        kint = {}
        for v in C:
            d, tab = self._int_kern(v)
            den *= d
            kint[v] = tab
        # per variable: positions of its parents in the scope, of its latents in the latent tuple, of itself
        plan = [(kint[v], [pos[q] for q in self.pa[v]], [lpos[u] for u in self.lat_of[v]], pos[v]) for v in C]
        for asg in _assignments(scope, self.card):
            tot = 0
            for la, w in zip(lat_asgs, lat_w):
                p = w
                for tab, pp, lp, pv in plan:
                    p *= tab[tuple([asg[i] for i in pp] + [la[i] for i in lp])][asg[pv]]
                tot += p
            out[asg] = F(tot, den)
        return Table(scope, out)

    def q_table(self, S):
        """Q[S] as a Table over S ∪ pa(S)"""
        key = tuple(sorted(S))
        if key in self._q:
            return self._q[key]
        t = t_const(1)
        for C in self._classes(key):
            t = t_mul(t, self._q_class(C), self.card)
        self._q[key] = t
        return t

    def joint(self):
        return self.q_table(self.nodes)

    def marginal(self, vs):
        """observational marginal P(vs) as a Table over sorted vs"""
        key = tuple(sorted(set(vs)))
        if key not in self._marg:
            j = self.joint()
            self._marg[key] = t_sum_out(j, [v for v in j.vars if v not in key], self.card)
        return self._marg[key]

    def do_table(self, X, Y):
        """P(Y | do(X)) : Table over X ∪ Y, by truncated factorisation  sum_{V - X - Y} Q[V - X]"""
        X = set(X)
        Y = set(Y)
        q = self.q_table([v for v in self.nodes if v not in X])
        t = t_sum_out(q, [v for v in self.nodes if v not in X and v not in Y], self.card)
        # make sure the table ranges over all of X ∪ Y (a treatment may not occur in Q[V - X])
        full = tuple(sorted(X | Y))
        if t.vars != full:
            one = Table(full, {a: F(1) for a in _assignments(full, self.card)})
            t = t_mul(t, one, self.card)
        return t

    def cond_do_table(self, X, Y, Z):
        """P(Y | do(X), Z) = P(Y, Z | do X) / P(Z | do X) : Table over X ∪ Y ∪ Z"""
        num = self.do_table(X, set(Y) | set(Z))
        den = self.do_table(X, Z)
        return t_div(num, den, self.card)

    def describe(self):
        return self.desc


def _rand_dist(rng, k, hi=6):
    w = [rng.randint(1, hi) for _ in range(k)]
    s = sum(w)
    return [F(x, s) for x in w]


def _bidirected_cliques(nodes, bi):
    import networkx as nx

    g = nx.Graph()
    g.add_nodes_from(nodes)
    g.add_edges_from(bi)
    return [sorted(c) for c in nx.find_cliques(g) if len(c) >= 2]


def random_scm(rng: random.Random, g, *, mode=None, max_states=400, cards=(2, 3), drop_parent=0.0):
    """random positive SCM compatible with the mixed graph dict g = {nodes, di, bi} (integer nodes)"""
    from .. import gen_graph as G

    nodes = sorted(G.all_nodes(g))
    di = sorted({(u, v) for u, v in g["di"]})
    bi = sorted({tuple(sorted(e)) for e in g["bi"] if e[0] != e[1]})
    mode = mode or rng.choice(["edge", "edge", "multi", "clique"])
    card = {}
    states = 1
    for v in nodes:
        c = rng.choice(cards)
        if states * c > max_states:
            c = 2
        card[v] = c
        states *= c
    pa = {v: sorted(u for (u, w) in di if w == v) for v in nodes}
    if drop_parent:
        # a compatible model may ignore an edge of the graph
        pa = {v: [p for p in ps if rng.random() >= drop_parent] for v, ps in pa.items()}
    def build(mode):
        groups = []
        if mode == "clique":
            groups = _bidirected_cliques(nodes, bi)
        else:
            for e in bi:
                groups.append(list(e))
                if mode == "multi" and rng.random() < 0.4:
                    groups.append(list(e))
        latents, lcard, lat_of, prior = [], {}, {v: [] for v in nodes}, {}
        for i, grp in enumerate(groups):
            u = ("U", i)
            latents.append(u)
            lcard[u] = 2 if (mode == "multi" or len(groups) > 4) else rng.choice([2, 2, 3])
            prior[u] = _rand_dist(rng, lcard[u], 5)
            for v in grp:
                lat_of[v].append(u)
        return latents, lcard, lat_of, prior

    latents, lcard, lat_of, prior = build(mode)
    total = 1
    for u in latents:
        total *= lcard[u]
    if total > 128 and mode != "clique":   # keep the latent state space of a district small
        mode = "clique"
        latents, lcard, lat_of, prior = build(mode)
    kern = {}
    for v in nodes:
        doms = [range(card[p]) for p in pa[v]] + [range(lcard[u]) for u in lat_of[v]]
        kern[v] = {key: _rand_dist(rng, card[v]) for key in itt.product(*doms)}
    desc = {"mode": mode, "card": {str(k): v for k, v in card.items()},
            "latents": [[str(u[1]), lcard[u], [v for v in nodes if u in lat_of[v]]] for u in latents]}
    return Scm(nodes, pa, card, latents, lcard, lat_of, prior, kern, desc)


# ------------------------------------------------------------------------------------------ expressions


def eval_expr(e, scm: Scm, name_of=None):
    """Table (over the free variables, as ints) of a y0 expression on the observational joint of `scm`.
    Only observational terms are interpretable here; anything else raises ValueError."""
    from y0.dsl import (CounterfactualVariable, Fraction, One, PopulationProbability, Probability, Product, Sum, Zero)

    from ..gen_graph import name_to_int

    to_int = name_of or (lambda v: name_to_int(v.name))
    card = scm.card
    memo = {}

    def go(x):
        k = id(x)
        if k in memo:
            return memo[k]
        if isinstance(x, PopulationProbability):
            raise ValueError("population probability in an observational estimand")
        if isinstance(x, Probability):
            for v in itt.chain(x.children, x.parents):
                if isinstance(v, CounterfactualVariable) or v.star is not None:
                    raise ValueError(f"non-observational variable {v!r}")
            ch = [to_int(v) for v in x.children]
            pa = [to_int(v) for v in x.parents]
            for v in ch + pa:
                if v not in card:
                    raise ValueError(f"variable {v} not in the model")
            num = scm.marginal(ch + pa)
            r = num if not pa else t_div(num, scm.marginal(pa), card)
        elif isinstance(x, Product):
            r = t_const(1)
            for f in x.expressions:
                r = t_mul(r, go(f), card)
        elif isinstance(x, Sum):
            rs = [to_int(v) for v in x.ranges]
            for v in rs:
                if v not in card:
                    raise ValueError(f"range variable {v} not in the model")
            r = t_sum_out(go(x.expression), rs, card)
        elif isinstance(x, Fraction):
            r = t_div(go(x.numerator), go(x.denominator), card)
        elif isinstance(x, One):
            r = t_const(1)
        elif isinstance(x, Zero):
            r = t_const(0)
        else:
            raise ValueError(f"cannot evaluate {type(x).__name__}")
        memo[k] = r
        return r

    return go(e)


def tables_differ(a: Table, b: Table, card):
    """first assignment (dict) of vars(a) ∪ vars(b) on which the two tables differ, else None.
    Every assignment is checked, in particular different values of variables that occur in only one table."""
    vs = tuple(sorted(set(a.vars) | set(b.vars)))
    ia = [vs.index(v) for v in a.vars]
    ib = [vs.index(v) for v in b.vars]
    for asg in _assignments(vs, card):
        x = a.t[tuple(asg[i] for i in ia)]
        y = b.t[tuple(asg[i] for i in ib)]
        if x != y:
            return {"assignment": {str(v): k for v, k in zip(vs, asg)}, "estimand": str(x), "expected": str(y)}
    return None
