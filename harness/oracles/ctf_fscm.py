"""Exact functional structural causal models with shared noise across worlds (oracle of property C19).

A model compatible with an ADMG G: one latent per bidirected edge (shared by its two endpoints), one private noise
per observed variable, a deterministic mechanism f_v(pa_v, latents_v, noise_v) given by a random table.  A *world*
is an intervention assignment; `world(do)` solves every variable for every noise point (cached per world).
Probabilities are exact (integer weights over a common denominator -> fractions.Fraction).

Reading of y0's value symbols: for each variable N two DISTINCT values nu[N] = (value of "-N", value of "+N").
  counterfactual variable  Y @ (-X, +Z)   -> Y in the world do(X = nu[X][0], Z = nu[Z][1])
  event item               (Y_x, -Y)      -> Y_x = nu[Y][0];   (Y_x, None) -> no constraint

Nothing here imports y0 or the Lean model.
"""
from __future__ import annotations

import itertools as itt
import random
from fractions import Fraction

from . import ctf_sets as S


class FSCM:
    def __init__(self, g, rng: random.Random, card=2, noise_card=2):
        self.nodes = sorted(S.all_nodes(g))
        di = [tuple(e) for e in g["di"]]
        self.pa = {v: sorted(u for (u, w) in di if w == v) for v in self.nodes}
        # topological order (graph must be acyclic)
        order, placed = [], set()
        while len(order) < len(self.nodes):
            progressed = False
            for v in self.nodes:
                if v not in placed and all(p in placed for p in self.pa[v]):
                    order.append(v)
                    placed.add(v)
                    progressed = True
            if not progressed:
                raise ValueError("cyclic graph")
        self.order = order
        self.card = {v: (card[v] if isinstance(card, dict) else card) for v in self.nodes}
        self.exo = []
        self.exo_card = []
        self.lat_of = {v: [] for v in self.nodes}
        for i, (a, b) in enumerate(tuple(e) for e in g["bi"]):
            if a == b:
                continue
            self.lat_of[a].append(len(self.exo))
            self.lat_of[b].append(len(self.exo))
            self.exo.append(("U", i))
            self.exo_card.append(2)
        for v in self.nodes:
            self.lat_of[v].append(len(self.exo))
            self.exo.append(("E", v))
            self.exo_card.append(noise_card)
        self.weights = [[rng.randint(1, 4) for _ in range(c)] for c in self.exo_card]
        self.f = {}
        for v in self.nodes:
            dims = [self.card[p] for p in self.pa[v]] + [self.exo_card[k] for k in self.lat_of[v]]
            self.f[v] = {key: rng.randrange(self.card[v]) for key in itt.product(*[range(d) for d in dims])}
        self.points = list(itt.product(*[range(c) for c in self.exo_card]))
        self.pw = []
        for pt in self.points:
            w = 1
            for k, x in enumerate(pt):
                w *= self.weights[k][x]
            self.pw.append(w)
        self.total = sum(self.pw)
        self._worlds = {}
        self.idx = {v: i for i, v in enumerate(self.nodes)}

    def world(self, do: dict):
        key = tuple(sorted(do.items()))
        w = self._worlds.get(key)
        if w is None:
            w = []
            for pt in self.points:
                a = {}
                for v in self.order:
                    if v in do:
                        a[v] = do[v]
                    else:
                        a[v] = self.f[v][tuple(a[p] for p in self.pa[v]) + tuple(pt[k] for k in self.lat_of[v])]
                w.append(tuple(a[v] for v in self.nodes))
            self._worlds[key] = w
        return w

    def prob(self, items) -> Fraction:
        """items: [(variable, do-dict, value)] -> probability of the conjunction across worlds"""
        cols = []
        for var, do, val in items:
            cols.append((self.world(do), self.idx[var], val))
        tot = 0
        for k, w in enumerate(self.pw):
            if all(wd[k][i] == val for wd, i, val in cols):
                tot += w
        return Fraction(tot, self.total)

    def same_rv(self, var, do1, do2):
        """the two counterfactual variables agree at every noise point; returns None or a differing noise point"""
        w1, w2, i = self.world(do1), self.world(do2), self.idx[var]
        for k in range(len(self.points)):
            if w1[k][i] != w2[k][i]:
                return self.points[k]
        return None


def rand_nu(rng, m: FSCM):
    nu = {}
    for v in m.nodes:
        a, b = rng.sample(range(m.card[v]), 2)
        nu[v] = (a, b)
    return nu


def do_of(var, nu, bound=None):
    """world of a counterfactual variable.  `bound`: values of names bound by an enclosing Sum — a "-N" subscript
    whose name is bound denotes the bound value, every other subscript the literal value nu[N][star]."""
    do = {}
    for a, s in S.ivs(var):
        if bound is not None and s == "m" and a in bound:
            do[a] = bound[a]
        else:
            do[a] = nu[a][1 if s == "p" else 0]
    return do


def value_of(val, nu):
    return nu[int(val[0])][1 if val[1] == "p" else 0]


def consistent_subscripts(var):
    names = [a for a, _ in S.ivs(var)]
    return len(names) == len(set(names))


def readable_event(g, event):
    """the event has a reading in the semantics above: all names are nodes, no variable intervenes twice on one name,
    event variables carry no value mark, each value is None or a value of the variable itself"""
    V = set(S.all_nodes(g))
    for var, val in event:
        if var[2] != "n" or str(var[3]) == "1":
            return False
        if not S.in_graph(g, var) or not consistent_subscripts(var):
            return False
        if val != "n" and int(val[0]) != S.name(var):
            return False
    return True


def event_items(event, nu):
    return [(S.name(var), do_of(var, nu), value_of(val, nu)) for var, val in event if val != "n"]


def prob_event(m: FSCM, event, nu) -> Fraction:
    return m.prob(event_items(event, nu))


def eval_factorised(m: FSCM, nu, ranges, factors, revent) -> Fraction:
    """value of  Sum[ranges] Prod_j P(factor_j)  where a factor variable W_s takes the bound value of W when W is a
    range variable and otherwise the value(s) the returned event gives to W_s (no entry / None: unconstrained)"""
    ev = {}
    for var, val in revent:
        ev.setdefault(S.vkey(var), []).append(val)
    ranges = [int(r) for r in ranges]
    total = Fraction(0)
    for assignment in itt.product(*[range(m.card[r]) for r in ranges]):
        r = dict(zip(ranges, assignment))
        p = Fraction(1)
        for F in factors:
            items = []
            for w in F:
                do = do_of(w, nu, bound=r)
                if S.name(w) in r:
                    items.append((S.name(w), do, r[S.name(w)]))
                else:
                    for val in ev.get(S.vkey(w), []):
                        if val != "n":
                            items.append((S.name(w), do, value_of(val, nu)))
            p *= m.prob(items)
            if p == 0:
                break
        total += p
    return total
