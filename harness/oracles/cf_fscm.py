"""Functional SCMs with shared exogenous noise, exact rationals -- the semantic oracle of C18 / C07 / C08.

Independent of y0 and of the Lean model: everything works on the JSON encoding of harness/enc_expr.py
(var = ["v", name, star, isIv, [[name, "m"|"p"], ...]], expressions as in enc_expr).

A model (`Fscm`) for an ADMG G = (nodes, di, bi):
  * one latent per bidirected edge (shared by its two endpoints) and (usually) one private noise per node,
    each with a random positive rational pmf; all independent;
  * every node v has a cardinality card[v] in {2, 3} and a random table
    f_v : values(pa_G(v)) x values(latents of v) -> value of v.
  Hence pa_M(v) is a subset of pa_G(v) and two nodes share a latent only if they are joined by a bidirected edge:
  the model is compatible with (induces a sub-diagram of) G.
A world is an intervention assignment do = {name: value}; `solve` evaluates every node in topological order.
The probability of a conjunction of counterfactual events is the mass of the noise points at which every
conjunct (V, do, v) satisfies solve(noise, do)[V] == v  (the noise is shared by all worlds).

A base value assignment nu gives every variable two distinct values nu[v] = (x, x'): an `Intervention(V, star=False)`
("-V") denotes x, star=True ("+V") denotes x'.
"""
from __future__ import annotations

import itertools as itt
import random
from fractions import Fraction as F

MAX_NOISE_POINTS = 1536


def topo_order(nodes, di):
    nodes = list(nodes)
    indeg = {v: 0 for v in nodes}
    for u, v in di:
        indeg[v] += 1
    out, todo = [], [v for v in nodes if indeg[v] == 0]
    while todo:
        v = todo.pop()
        out.append(v)
        for a, b in di:
            if a == v:
                indeg[b] -= 1
                if indeg[b] == 0:
                    todo.append(b)
    if len(out) != len(nodes):
        raise ValueError("cyclic graph")
    return out


def _relevant(tab, keys, j):
    """does argument j influence the table?"""
    seen = {}
    for k in keys:
        r = k[:j] + k[j + 1:]
        if r in seen and seen[r] != tab[k]:
            return True
        seen.setdefault(r, tab[k])
    return False


class Fscm:
    def __init__(self, nodes, di, bi, rng: random.Random, max_card=3):
        self.nodes = sorted(set(nodes) | {x for e in di for x in e} | {x for e in bi for x in e})
        self.di = sorted({(u, v) for u, v in di})
        self.bi = sorted({tuple(sorted(e)) for e in bi if e[0] != e[1]})
        self.order = topo_order(self.nodes, self.di)
        self.idx = {v: i for i, v in enumerate(self.nodes)}
        self.card = {v: rng.randint(2, max_card) for v in self.nodes}
        self.pa = {v: sorted(u for (u, w) in self.di if w == v) for v in self.nodes}
        # exogenous variables
        exo = []   # (key, card)
        self.lat_of = {v: [] for v in self.nodes}
        for e in self.bi:
            k = ("U",) + e
            exo.append([k, rng.choice([2, 2, 3])])
            self.lat_of[e[0]].append(k)
            self.lat_of[e[1]].append(k)
        for v in self.nodes:
            if rng.random() < 0.9 or not self.lat_of[v] and not self.pa[v]:
                k = ("E", v)
                exo.append([k, rng.choice([2, 2, 3]) if self.card[v] == 3 else 2])
                self.lat_of[v].append(k)

        def size():
            n = 1
            for _, c in exo:
                n *= c
            return n
        # keep the noise space small: first lower cardinalities, then drop private noises of non-root nodes
        while size() > MAX_NOISE_POINTS:
            big = [e for e in exo if e[1] > 2]
            if big:
                rng.choice(big)[1] = 2
                continue
            priv = [e for e in exo if e[0][0] == "E" and len(self.lat_of[e[0][1]]) + len(self.pa[e[0][1]]) > 1]
            if not priv:
                break
            e = rng.choice(priv)
            exo.remove(e)
            self.lat_of[e[0][1]].remove(e[0])
        self.exo = [k for k, _ in exo]
        self.exo_card = {k: c for k, c in exo}
        self.pexo = {}
        for k, c in exo:
            w = [rng.randint(1, 4) for _ in range(c)]
            s = sum(w)
            self.pexo[k] = [F(x, s) for x in w]
        self.f = {}
        for v in self.nodes:
            dims = [range(self.card[p]) for p in self.pa[v]] + [range(self.exo_card[k]) for k in self.lat_of[v]]
            keys = list(itt.product(*dims))
            tab = None
            for _ in range(6):   # prefer generic mechanisms: every argument matters (still a compatible model either way)
                tab = {key: rng.randrange(self.card[v]) for key in keys}
                if all(_relevant(tab, keys, j) for j in range(len(dims))):
                    break
            self.f[v] = tab
        self.space = list(itt.product(*[range(self.exo_card[k]) for k in self.exo]))
        self.weight = []
        for pt in self.space:
            p = F(1)
            for k, x in zip(self.exo, pt):
                p *= self.pexo[k][x]
            self.weight.append(p)
        self._sol = {}

    def solutions(self, do: tuple):
        """do: sorted tuple of (name, value).  Returns list over noise points of value tuples (indexed by self.idx)."""
        s = self._sol.get(do)
        if s is not None:
            return s
        dod = dict(do)
        exo_pos = {k: i for i, k in enumerate(self.exo)}
        plan = []
        for v in self.order:
            if v in dod:
                plan.append((self.idx[v], None, None, None, dod[v]))
            else:
                plan.append((self.idx[v], [self.idx[p] for p in self.pa[v]], [exo_pos[k] for k in self.lat_of[v]], self.f[v], None))
        out = []
        n = len(self.nodes)
        for pt in self.space:
            a = [0] * n
            for i, pas, lats, tab, fixed in plan:
                if pas is None:
                    a[i] = fixed
                else:
                    a[i] = tab[tuple(a[p] for p in pas) + tuple(pt[j] for j in lats)]
            out.append(tuple(a))
        self._sol[do] = out
        return out

    def prob(self, items):
        """items: iterable of (var, do_tuple, value).  Exact probability of the conjunction."""
        items = [(self.idx[v], self.solutions(do), val) for v, do, val in items]
        tot = F(0)
        for i, w in enumerate(self.weight):
            for vi, sol, val in items:
                if sol[i][vi] != val:
                    break
            else:
                tot += w
        return tot


def rand_nu(model: Fscm, rng: random.Random):
    nu = {}
    for v in model.nodes:
        x = rng.randrange(model.card[v])
        xp = rng.choice([k for k in range(model.card[v]) if k != x])
        nu[v] = (x, xp)
    return nu


def _star(s):
    return 1 if s in ("p", True, "True", "true") else 0


def event_items(event, nu):
    """event: list of [var_enc, value] with value "m"|"p" (or [name, "m"|"p"]).  -> items for Fscm.prob"""
    items = []
    for var, val in event:
        name = int(var[1])
        do = tuple(sorted((int(n), nu[int(n)][_star(s)]) for n, s in var[4]))
        if isinstance(val, (list, tuple)):
            vname, vs = int(val[0]), val[1]
        else:
            vname, vs = name, val
        items.append((name, do, nu[vname][_star(vs)]))
    return items


def consistent_subscripts(event):
    """every subscript set assigns at most one value per variable"""
    for var, _ in event:
        names = [int(n) for n, _ in var[4]]
        if len(names) != len(set(names)):
            return False
    return True


# ------------------------------------------------------------------------------------------ expressions


class Undefined(Exception):
    """a division by zero / a conditional on a null event: the model lies outside the positivity assumption"""


class FreeVariable(Exception):
    def __init__(self, name):
        self.name = name


def leaves(e, acc=None):
    acc = [] if acc is None else acc
    if isinstance(e, str):
        return acc
    t = e[0]
    if t in ("P", "PP"):
        acc.append(e)
    elif t == "prod":
        for x in e[1:]:
            leaves(x, acc)
    elif t in ("sum", "osum"):
        leaves(e[2], acc)
    elif t == "frac":
        leaves(e[1], acc)
        leaves(e[2], acc)
    return acc


class Reading:
    """How symbols of an estimand are read.

    values : {name: star}   value of a free outcome variable (from the event); `choice[(leaf_no, name)]` overrides
             it for variables to which the event gives both values (ambiguous reading)
    bind   : True  -> an unstarred subscript whose name is bound by an enclosing Sum denotes the bound value
             False -> every subscript is literal (x or x')
    free   : {name: value}  values tried for variables that the event does not mention and no Sum binds
    """

    def __init__(self, values, choice, bind, free):
        self.values, self.choice, self.bind, self.free = values, choice, bind, free


def eval_expr(e, model: Fscm, nu, rd: Reading, env=None, counter=None):
    env = {} if env is None else env
    counter = [0] if counter is None else counter
    if e == "one":
        return F(1)
    if e == "zero":
        return F(0)
    t = e[0]
    if t == "prod":
        r = F(1)
        for x in e[1:]:
            r *= eval_expr(x, model, nu, rd, env, counter)
        return r
    if t == "frac":
        n = eval_expr(e[1], model, nu, rd, env, counter)
        d = eval_expr(e[2], model, nu, rd, env, counter)
        if d == 0:
            raise Undefined()
        return n / d
    if t == "osum":
        # marginalisation over OUTCOME occurrences only (what conditioning means): the bound value is used for children /
        # parents named so, never for subscripts
        names = [int(v[1]) for v in e[1]]
        tot = F(0)
        start = counter[0]
        for vals in itt.product(*[range(model.card[n]) for n in names]):
            env2 = dict(env)
            oenv = dict(env.get("__outcome_only__", {}))
            oenv.update(zip(names, vals))
            env2["__outcome_only__"] = oenv
            counter[0] = start
            tot += eval_expr(e[2], model, nu, rd, env2, counter)
        return tot
    if t == "sum":
        names = [int(v[1]) for v in e[1]]
        tot = F(0)
        start = counter[0]
        for vals in itt.product(*[range(model.card[n]) for n in names]):
            env2 = dict(env)
            env2.update(zip(names, vals))
            counter[0] = start
            tot += eval_expr(e[2], model, nu, rd, env2, counter)
        return tot
    if t in ("P", "PP"):
        leaf_no = counter[0]
        counter[0] += 1
        ch, pa = (e[1], e[2]) if t == "P" else (e[2], e[3])

        def item(v):
            name = int(v[1])
            do = []
            for n, s in v[4]:
                n = int(n)
                if rd.bind and not _star(s) and n in env:
                    do.append((n, env[n]))
                else:
                    do.append((n, nu[n][_star(s)]))
            if len({n for n, _ in do}) != len(do):
                raise Undefined()   # x and x' in the same subscript: not a distribution the reading defines
            if v[2] != "n":
                val = nu[name][_star(v[2])]
            elif name in env.get("__outcome_only__", ()):
                val = env["__outcome_only__"][name]
            elif name in env:
                val = env[name]
            elif (leaf_no, name) in rd.choice:
                val = nu[name][rd.choice[(leaf_no, name)]]
            elif name in rd.values:
                val = nu[name][rd.values[name]]
            elif name in rd.free:
                val = rd.free[name]
            else:
                raise FreeVariable(name)
            return (name, tuple(sorted(do)), val)
        ci = [item(v) for v in ch]
        pi = [item(v) for v in pa]
        num = model.prob(ci + pi)
        if not pi:
            return num
        den = model.prob(pi)
        if den == 0:
            raise Undefined()
        return num / den
    raise ValueError(f"cannot evaluate {e!r}")


def free_names(e, bound=frozenset()):
    """names of unstarred children/parents not bound by a Sum (per leaf number)"""
    out = []

    def walk(x, bound):
        if isinstance(x, str):
            return
        t = x[0]
        if t in ("P", "PP"):
            ch, pa = (x[1], x[2]) if t == "P" else (x[2], x[3])
            out.append({int(v[1]) for v in ch + pa if v[2] == "n" and int(v[1]) not in bound})
        elif t == "prod":
            for y in x[1:]:
                walk(y, bound)
        elif t in ("sum", "osum"):
            walk(x[2], bound | {int(v[1]) for v in x[1]})
        elif t == "frac":
            walk(x[1], bound)
            walk(x[2], bound)
    walk(e, bound)
    return out


def readings(expr, event, max_choices=256):
    """The finite family of admissible readings of `expr` for `event` (see Reading).  Yields Reading objects without
    `free` filled in (the caller quantifies universally over free values)."""
    stars = {}
    for var, val in event:
        name = int(var[1]) if not isinstance(val, (list, tuple)) else int(val[0])
        vs = val if not isinstance(val, (list, tuple)) else val[1]
        stars.setdefault(name, set()).add(_star(vs))
    values = {n: next(iter(s)) for n, s in stars.items() if len(s) == 1}
    amb = sorted(n for n, s in stars.items() if len(s) == 2)
    occ = [(i, n) for i, fn in enumerate(free_names(expr)) for n in sorted(fn) if n in amb]
    if 2 ** len(occ) > max_choices:
        # too many: only global (per name) choices
        for bind in (True, False):
            for combo in itt.product((0, 1), repeat=len(amb)):
                v = dict(values)
                v.update(zip(amb, combo))
                yield Reading(v, {}, bind, {})
        return
    for bind in (True, False):
        for combo in itt.product((0, 1), repeat=len(occ)):
            yield Reading(values, dict(zip(occ, combo)), bind, {})


def unvalued_free(expr, event):
    names = {int(var[1]) for var, _ in event}
    out = set()
    for fn in free_names(expr):
        out |= {n for n in fn if n not in names}
    return sorted(out)


def check_estimand(graph, event, expr, seed, n_models=8, max_card=3, cond=None):
    """Does `expr` equal P(event) (or P(event) / P(cond) when `cond` is given: then `event` is the JOINT event and
    models with P(cond) = 0 are skipped) in every sampled model, under at least one admissible reading?

    returns None (holds on all samples) or a dict describing a counterexample for the most successful reading."""
    rng = random.Random(seed)
    nodes = graph["nodes"]
    models = []
    for k in range(n_models):
        m = Fscm(nodes, graph["di"], graph["bi"], rng, max_card=2 if k < n_models // 2 else max_card)
        nu = rand_nu(m, rng)
        want = m.prob(event_items(event, nu))
        if cond is not None:
            pc = m.prob(event_items(cond, nu))
            if pc == 0:
                continue
            want = want / pc
        models.append((m, nu, want))
    free = unvalued_free(expr, event)
    best = None
    for rd in readings(expr, event):
        bad = None
        n_ok = 0
        for m, nu, want in models:
            try:
                for fv in itt.product(*[range(m.card[n]) for n in free]):
                    rd.free = dict(zip(free, fv))
                    got = eval_expr(expr, m, nu, rd)
                    if got != want:
                        bad = {"want": str(want), "got": str(got), "free_values": {str(k): v for k, v in rd.free.items()},
                               "bind_subscripts": rd.bind, "choice": {f"{a}:{b}": c for (a, b), c in rd.choice.items()},
                               "cards": {str(k): v for k, v in m.card.items()}, "nu": {str(k): list(v) for k, v in nu.items()}}
                        break
                if bad:
                    break
                n_ok += 1
            except Undefined:
                n_ok += 1   # outside positivity: no opinion
                continue
        if bad is None:
            return None
        if best is None or n_ok > best[0]:
            best = (n_ok, bad)
    if best is None:
        return None
    d = dict(best[1])
    d["models_agreeing_before_failure"] = best[0]
    return d


def check_zero(graph, event, seed, n_models=8, max_card=3):
    """`event` claimed impossible: returns None if P(event) = 0 in every sampled model, else a witness"""
    rng = random.Random(seed)
    for k in range(n_models):
        m = Fscm(graph["nodes"], graph["di"], graph["bi"], rng, max_card=2 if k < n_models // 2 else max_card)
        nu = rand_nu(m, rng)
        p = m.prob(event_items(event, nu))
        if p != 0:
            return {"want": str(p), "got": "0", "cards": {str(k): v for k, v in m.card.items()},
                    "nu": {str(k): list(v) for k, v in nu.items()}}
    return None


def check_same_probability(graph, event, event2, seed, n_models=8, max_card=3):
    """two conjunctions of counterfactual events must have the same probability in every sampled model"""
    rng = random.Random(seed)
    for k in range(n_models):
        m = Fscm(graph["nodes"], graph["di"], graph["bi"], rng, max_card=2 if k < n_models // 2 else max_card)
        nu = rand_nu(m, rng)
        p1 = m.prob(event_items(event, nu))
        p2 = m.prob(event_items(event2, nu))
        if p1 != p2:
            return {"want": str(p1), "got": str(p2), "cards": {str(k): v for k, v in m.card.items()},
                    "nu": {str(k): list(v) for k, v in nu.items()}}
    return None


def check_parents_represented(graph, event, nodes, di, seed, n_models=4, max_card=3):
    """The clause "the produced graph contains exactly the ancestors of the relabelled event", read from the property
    statement and NOT from the produced graph's own edges: a node V_w of the produced graph that its own world does not fix
    must have, for every parent P of V in the causal diagram, exactly one parent node that is a copy of P, and that copy must
    be -- on the event -- the same random variable as P_w in every sampled functional SCM; it has no other parents; a node
    fixed by its world has no parents.  (With this, "ancestors inside the produced graph" are the ancestors in the models.)

    nodes / di: the produced graph (encoded variables).  Returns None or a description of the first violation."""
    import json as _json

    key = _json.dumps
    pa_g = {v: sorted({int(u) for u, w in graph["di"] if int(w) == v}) for v in graph["nodes"]}
    parents = {}
    for u, w in di:
        parents.setdefault(key(w), []).append(u)
    copies = []
    for x in nodes:
        name = int(x[1])
        world = {int(n) for n, _ in x[4]}
        ps = parents.get(key(x), [])
        if name in world:
            if ps:
                return f"node {x} is fixed by its own world but has the parents {ps}"
            continue
        for p_name in pa_g.get(name, []):
            cands = [p_ for p_ in ps if int(p_[1]) == p_name]
            if len(cands) != 1:
                return (f"node {x}: the parent {p_name} of {name} in the causal diagram is represented by {len(cands)} parent "
                        "nodes of the produced graph (exactly one is required): the graph does not contain the ancestors of "
                        "the relabelled event")
            copies.append((x, p_name, cands[0]))
        extra = [p_ for p_ in ps if int(p_[1]) not in pa_g.get(name, [])]
        if extra:
            return f"node {x} has the parents {extra}, which are not copies of parents of {name} in the causal diagram"
    if not copies:
        return None
    rng = random.Random(seed)
    for k in range(n_models):
        m = Fscm(graph["nodes"], graph["di"], graph["bi"], rng, max_card=2 if k < n_models // 2 else max_card)
        nu = rand_nu(m, rng)
        items = [(m.idx[v], m.solutions(do), val) for v, do, val in event_items(event, nu)]
        support = [i for i in range(len(m.space)) if all(sol[i][vi] == val for vi, sol, val in items)]
        if not support:
            continue
        for x, p_name, cp in copies:
            do_x = tuple(sorted((int(n), nu[int(n)][_star(s_)]) for n, s_ in x[4]))
            do_p = tuple(sorted((int(n), nu[int(n)][_star(s_)]) for n, s_ in cp[4]))
            if do_x == do_p:
                continue
            sx, sp, j = m.solutions(do_x), m.solutions(do_p), m.idx[p_name]
            for i in support:
                if sx[i][j] != sp[i][j]:
                    return (f"node {x}: its parent node {cp} is not the same random variable as {p_name} in the world of {x} on "
                            f"the event (noise point {i}: {sp[i][j]} vs {sx[i][j]}); cards {m.card}, nu {nu}")
    return None


def model_sexp(m: Fscm):
    """the model in the line-protocol encoding of the `cf fscm_prob` driver op (Y0/Spec/Fscm.lean evaluates it)"""
    exo_pos = {k: i for i, k in enumerate(m.exo)}
    pmfs = [[[p.numerator, p.denominator] for p in m.pexo[k]] for k in m.exo]
    mechs = []
    for v in m.nodes:
        rows = [[list(key), val] for key, val in m.f[v].items()]
        mechs.append([v, list(m.pa[v]), [exo_pos[k] for k in m.lat_of[v]], rows])
    return ["model", list(m.order), pmfs, mechs]


def nu_sexp(nu):
    return [[v, x, xp] for v, (x, xp) in sorted(nu.items())]
