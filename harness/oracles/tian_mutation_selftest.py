"""Mutation self-test of the C17 check (not part of ./check): one-line mutants of tian_id.py, applied one at a time to
the y0 worktree named by $Y0_REPO, each followed by the PLAIN quick tier (VERIF_NO_ESCALATE=1).

    Y0_REPO=/work/<me>/repo /venv/bin/python -m harness.oracles.tian_mutation_selftest [name-prefix ...]

Prints one table row per mutant: does it violate C17 (by reading the paper), was it caught (VIOLATION line), the
number of oracle failures / correspondence disagreements / cases.  The worktree is restored with `git checkout`
after every mutant.  `violates`: "yes" (the returned expression no longer denotes Q[C], or an exception on a valid
input), "no:FAIL" (reports failure more often - allowed by the property), "no:precondition" (only inputs outside the
property's preconditions behave differently), "no:equivalent" (same behaviour; must NOT raise an alarm), "no:single-domain" (wrong population tag: invisible to
an oracle whose populations all read one model; the correspondence with the Lean model must catch it).
"""
from __future__ import annotations

import json
import os
import re
import subprocess
import sys
import time
from pathlib import Path

VERIF = Path(__file__).resolve().parents[2]
REPO = Path(os.environ.get("Y0_REPO", "/repo"))
SRC = REPO / "src" / "y0" / "algorithm" / "tian_id.py"

# (name, violates, old, new, occurrence index of `old` to replace)
MUTANTS = [
    ("M01_AeqC_lemma3_sums_nothing", "yes",
     "            subgraph_variables=input_district,\n            subgraph_probability=district_probability,\n            graph_topo=topo,\n        )\n        logger.debug(\"   Returning",
     "            subgraph_variables=ancestral_set,\n            subgraph_probability=district_probability,\n            graph_topo=topo,\n        )\n        logger.debug(\"   Returning", 0),
    ("M02_AeqCeqT_reports_FAIL", "no:FAIL",
     "    if ancestral_set == input_variables:\n", "    if ancestral_set == input_variables and ancestral_set != input_district:\n", 0),
    ("M03_Tprime_from_districts_of_G_T", "yes",
     "ancestral_set_subgraph_districts = list(ancestral_set_subgraph.districts())",
     "ancestral_set_subgraph_districts = list(district_subgraph.districts())", 0),
    ("M04_recursive_lemma3_sums_nothing", "yes",
     "                subgraph_variables=input_district,\n                subgraph_probability=district_probability,  # Q[T]",
     "                subgraph_variables=ancestral_set,\n                subgraph_probability=district_probability,  # Q[T]", 0),
    ("M05_PP_recursion_drops_parents", "yes",
     "                    distribution=ancestral_set_children[0].joint(ancestral_set_children[1:])\n                    | district_probability.parents,",
     "                    distribution=ancestral_set_children[0].joint(ancestral_set_children[1:]),", 0),
    ("M06_recursion_drops_world", "yes",
     "ancestral_set_children = [world.get(a, a) for a in ordered_ancestral_set]",
     "ancestral_set_children = [a for a in ordered_ancestral_set]", 0),
    ("M07_cfactor_on_T_instead_of_A", "yes",
     "            subgraph_variables=ancestral_set,\n            subgraph_probability=ancestral_set_probability,",
     "            subgraph_variables=input_district,\n            subgraph_probability=ancestral_set_probability,", 0),
    ("M08_recursion_passes_QA_as_QTprime", "yes",
     "            district_probability=targeted_ancestral_set_subgraph_district_probability,",
     "            district_probability=ancestral_set_probability,", 0),
    ("M09_lemma1_plain_drops_given_parents", "yes",
     "            conditioned_variables = graph_probability_parents.union(preceding_variables)  # V^(i-1)",
     "            conditioned_variables = set(preceding_variables)  # V^(i-1)", 1),
    ("M10_lemma1_PP_drops_given_parents", "yes",
     "            conditioned_variables = graph_probability_parents.union(preceding_variables)  # V^(i-1)",
     "            conditioned_variables = set(preceding_variables)  # V^(i-1)", 0),
    ("M11_lemma1_plain_drops_world_of_child", "yes",
     "probability = P(world.get(variable, variable) | conditioned_variables)",
     "probability = P(variable | conditioned_variables)", 0),
    ("M12_lowindex_sums_the_vertex_too", "yes",
     "    ranges = topo[topo.index(vertex) + 1 :]", "    ranges = topo[topo.index(vertex) :]", 0),
    ("M13_lemma4_ratio_inverted", "yes",
     "rv = Fraction(current_index_expr, previous_index_expr)", "rv = Fraction(previous_index_expr, current_index_expr)", 0),
    ("M14_lemma4_index1_not_divided", "yes",
     "        if index == 0:\n            return current_index_expr", "        if index <= 1:\n            return current_index_expr", 0),
    ("M15_cfactor_dispatch_forgets_Sum", "yes",
     "    if isinstance(subgraph_probability, Fraction | Product | Sum):", "    if isinstance(subgraph_probability, Fraction | Product):", 0),
    ("M16_lemma3_empty_marginalisation", "yes",
     "    marginalization_set = subgraph_variables - ancestral_set", "    marginalization_set = ancestral_set - subgraph_variables", 0),
    ("M17_validation_accepts_two_districts", "no:precondition",
     "    if len(district_subgraph.districts()) > 1:", "    if len(district_subgraph.districts()) > 2:", 0),
    ("M18_validation_C_subset_T_removed", "no:precondition",
     "    if not input_variables.intersection(input_district) == input_variables:", "    if False:", 0),
    ("M19_equivalent_topo_of_A", "no:equivalent",
     "            subgraph_probability=ancestral_set_probability,\n            graph_topo=topo,",
     "            subgraph_probability=ancestral_set_probability,\n            graph_topo=ordered_ancestral_set,", 0),
    ("M20_cfactor_topo_not_restricted_to_H", "yes",
     "    subgraph_topo = [v for v in graph_topo if v in subgraph_variables]", "    subgraph_topo = list(graph_topo)", 0),
    ("M21_lemma1_plain_drops_first_predecessor", "yes",
     "            preceding_variables = [world.get(v, v) for v in topo[: topo.index(variable)]]",
     "            preceding_variables = [world.get(v, v) for v in topo[: topo.index(variable)][1:]]", 1),
    ("M22_identify_dispatch_forgets_Fraction", "yes",
     "        if isinstance(district_probability, Fraction | Product | Sum):  # Compute Q[A] from Lemma 3",
     "        if isinstance(district_probability, Product | Sum):  # Compute Q[A] from Lemma 3", 0),
    ("M23_identify_dispatch_forgets_Sum", "yes",
     "        if isinstance(district_probability, Fraction | Product | Sum):  # Compute Q[A] from Lemma 3",
     "        if isinstance(district_probability, Fraction | Product):  # Compute Q[A] from Lemma 3", 0),
    ("M24_cfactor_dispatch_forgets_Fraction", "yes",
     "    if isinstance(subgraph_probability, Fraction | Product | Sum):", "    if isinstance(subgraph_probability, Product | Sum):", 0),
    ("M25_lemma4_previous_index_off_by_one", "yes",
     "            vertex=topo[index - 1], graph_probability=graph_probability, topo=topo",
     "            vertex=topo[max(index - 2, 0)], graph_probability=graph_probability, topo=topo", 0),
    ("M26_lemma1_PP_drops_world_of_child", "yes",
     "                    children=(world.get(variable, variable),),", "                    children=(variable,),", 0),
    ("M27_AeqT_test_compares_C_with_T", "yes",
     "    elif ancestral_set == input_district:\n", "    elif input_variables == input_district:\n", 0),
    ("M28_PP_recursion_drops_population", "no:single-domain",
     "                ancestral_set_probability = PopulationProbability(\n                    population=district_probability.population,\n                    distribution=ancestral_set_children[0].joint(ancestral_set_children[1:])\n                    | district_probability.parents,\n                )",
     "                ancestral_set_probability = P(\n                    ancestral_set_children[0].joint(ancestral_set_children[1:])\n                    | district_probability.parents\n                )", 0),
]


def apply(text, old, new, k):
    pos = -1
    for _ in range(k + 1):
        pos = text.index(old, pos + 1)
    return text[:pos] + new + text[pos + len(old):]


def main(argv):
    pristine = SRC.read_text()
    rows = []
    try:
        for name, violates, old, new, k in MUTANTS:
            if argv and not any(name.startswith(a) for a in argv):
                continue
            SRC.write_text(apply(pristine, old, new, k))
            t0 = time.time()
            env = dict(os.environ, VERIF_NO_ESCALATE="1", Y0_REPO=str(REPO))
            p = subprocess.run(["timeout", "900", "./check", "C17"], cwd=VERIF, env=env, capture_output=True, text=True)
            out = p.stdout + p.stderr
            m = re.search(r"cases=(\d+) compared=\d+ disagreements=(\d+) oracle_failures=(\d+)", out)
            viol = [ln for ln in out.splitlines() if ln.startswith("VIOLATION")]
            kinds = "none"
            if viol:
                kinds = "no-failing-input-found" if all("no-failing-input-found" in v for v in viol) else "failing-input"
            row = {"mutant": name, "violates_C17": violates, "exit": p.returncode, "caught": bool(viol), "kind": kinds,
                   "cases": int(m.group(1)) if m else None, "disagreements": int(m.group(2)) if m else None,
                   "oracle_failures": int(m.group(3)) if m else None, "wall_s": round(time.time() - t0, 1)}
            rows.append(row)
            print(json.dumps(row), flush=True)
            SRC.write_text(pristine)
    finally:
        SRC.write_text(pristine)
        subprocess.run(["git", "-C", str(REPO), "checkout", "--", "src/y0/algorithm/tian_id.py"])
    return 0


if __name__ == "__main__":
    sys.exit(main(sys.argv[1:]))
