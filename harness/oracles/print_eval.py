"""Exact-rational evaluation of y0 expressions on random positive distributions (identity testing).

    value(e, env, sigma) -> Fraction | None

`env` supplies, for every population and every intervention assignment ("world"), a strictly positive joint
distribution over all variable names (cardinalities 2..3), generated lazily and deterministically from the seed;
`sigma` assigns a value to every name (the free variables of the expression).

Semantics (the one of DESIGN.md 3.3, executable):
  * a variable `X` denotes sigma(X); `-X` denotes the same value symbol x = sigma(X); `+X` denotes the other
    value symbol x' = sigma(X)+1 (mod card X);
  * `P(C | R)` with all variables in ONE world w (the same intervention set on every variable, possibly empty)
    is  marg_w(C ∪ R) / marg_w(R)  in the joint of world w, an intervention `-Z` / `+Z` in the subscript fixing
    Z := z / z';  a distribution whose variables live in several worlds is evaluated in a joint over
    (name, world) pairs generated for exactly that set of pairs (no cross-world consistency is claimed or needed:
    the oracle only compares expressions that have the same leaves);
  * `PP[pop]` uses the family of population `pop`;
  * `Sum[R](e)` sums e over all values of the names in R;  Product, Fraction, One, Zero are arithmetic;
    a division by zero makes the value undefined (None) — positivity makes that impossible unless `Zero()` occurs;
  * `Q[cod](dom)` is an unknown positive function of the values of its (co)domain variables, one per (cod, dom).

Two expressions that are equal as terms of the field of fractions over their leaves evaluate to the same number
for every env/sigma, so a reported difference is a real difference in meaning.
"""
from __future__ import annotations

import hashlib
import itertools as itt
import random
from fractions import Fraction as F


def _rng(*key) -> random.Random:
    h = hashlib.sha256(repr(key).encode()).digest()
    return random.Random(int.from_bytes(h[:8], "big"))


class Env:
    def __init__(self, seed: int, names, max_card: int = 3):
        self.seed = seed
        self.names = sorted(names)
        r = _rng("card", seed)
        self.card = {n: r.choice([2, 2, max_card]) for n in self.names}
        self._joint = {}
        self._q = {}

    def joint(self, pop, slots):
        """positive joint over `slots` (a sorted tuple of hashable slot ids; a slot's cardinality is the one of its name)"""
        key = (pop, slots)
        t = self._joint.get(key)
        if t is None:
            r = _rng("joint", self.seed, key)
            cards = [self.card[s[0]] for s in slots]
            w = {a: r.randint(1, 9) for a in itt.product(*[range(c) for c in cards])}
            tot = sum(w.values())
            t = {a: F(x, tot) for a, x in w.items()}
            self._joint[key] = t
        return t

    def marg(self, pop, slots, events):
        """P(slot = value for (slot, value) in events) in the joint over `slots`"""
        t = self.joint(pop, slots)
        idx = [(slots.index(s), v) for s, v in events.items()]
        return sum((p for a, p in t.items() if all(a[i] == v for i, v in idx)), F(0))

    def q(self, cod, dom):
        key = (cod, dom)
        v = self._q.get(key)
        if v is None:
            r = _rng("q", self.seed, key)
            v = F(r.randint(1, 9), r.randint(1, 9))
            self._q[key] = v
        return v

    def random_sigma(self, rng: random.Random):
        return {n: rng.randrange(self.card[n]) for n in self.names}


def _var_names(v) -> set:
    out = {v.name}
    for i in getattr(v, "interventions", ()) or ():
        out.add(i.name)
    return out


def names_of(e) -> set:
    """every variable name occurring anywhere in the expression (children, parents, subscripts, ranges, populations,
    Q-factor domains and codomains)"""
    out = set()
    stack = [e]
    while stack:
        x = stack.pop()
        for attr in ("children", "parents", "ranges", "domain", "codomain"):
            for v in getattr(x, attr, ()) or ():
                out |= _var_names(v)
        pop = getattr(x, "population", None)
        if pop is not None:
            out |= _var_names(pop)
        stack.extend(getattr(x, "expressions", ()) or ())
        for attr in ("expression", "numerator", "denominator"):
            y = getattr(x, attr, None)
            if y is not None:
                stack.append(y)
    return out


def _val(env: Env, sigma, name, star):
    v = sigma[name]
    return (v + 1) % env.card[name] if star else v


def _world(env, sigma, v):
    from y0.dsl import CounterfactualVariable

    if isinstance(v, CounterfactualVariable):
        return tuple(sorted((i.name, _val(env, sigma, i.name, i.star)) for i in v.interventions))
    return ()


def _pop_key(env, sigma, pop):
    if pop is None:
        return None
    return (pop.name, pop.star, _world(env, sigma, pop))


def _prob(e, env: Env, sigma, pop):
    ch = list(e.children)
    pa = list(e.parents)
    worlds = {_world(env, sigma, v) for v in ch + pa}
    if len(worlds) == 1:
        w = next(iter(worlds))
        slots = tuple((n,) for n in env.names)
        key = (pop, w)
        ev_all, ev_pa = {}, {}
        for v in ch + pa:
            val = _val(env, sigma, v.name, v.star)
            if ev_all.get((v.name,), val) != val:
                return F(0)
            ev_all[(v.name,)] = val
        for v in pa:
            ev_pa[(v.name,)] = _val(env, sigma, v.name, v.star)
        num = env.marg(key, slots, ev_all)
        den = env.marg(key, slots, ev_pa) if pa else F(1)
    else:
        slot_of = lambda v: (v.name, _world(env, sigma, v))  # noqa: E731
        slots = tuple(sorted({slot_of(v) for v in ch + pa}))
        key = (pop, "multi-world")
        ev_all, ev_pa = {}, {}
        for v in ch + pa:
            val = _val(env, sigma, v.name, v.star)
            if ev_all.get(slot_of(v), val) != val:
                return F(0)
            ev_all[slot_of(v)] = val
        for v in pa:
            ev_pa[slot_of(v)] = _val(env, sigma, v.name, v.star)
        num = env.marg(key, slots, ev_all)
        den = env.marg(key, slots, ev_pa) if pa else F(1)
    if den == 0:
        return None
    return num / den


def value(e, env: Env, sigma):
    from y0.dsl import Fraction, One, PopulationProbability, Probability, Product, QFactor, Sum, Zero

    if isinstance(e, PopulationProbability):
        return _prob(e, env, sigma, _pop_key(env, sigma, e.population))
    if isinstance(e, Probability):
        return _prob(e, env, sigma, None)
    if isinstance(e, Product):
        out = F(1)
        for x in e.expressions:
            v = value(x, env, sigma)
            if v is None:
                return None
            out *= v
        return out
    if isinstance(e, Sum):
        rs = sorted(r.name for r in e.ranges)
        total = F(0)
        for vals in itt.product(*[range(env.card[r]) for r in rs]):
            s2 = dict(sigma)
            s2.update(zip(rs, vals))
            v = value(e.expression, env, s2)
            if v is None:
                return None
            total += v
        return total
    if isinstance(e, Fraction):
        n = value(e.numerator, env, sigma)
        d = value(e.denominator, env, sigma)
        if n is None or d is None or d == 0:
            return None
        return n / d
    if isinstance(e, One):
        return F(1)
    if isinstance(e, Zero):
        return F(0)
    if isinstance(e, QFactor):
        def k(vs):
            return tuple(sorted((v.name, _val(env, sigma, v.name, v.star), _world(env, sigma, v)) for v in vs))
        return env.q(k(e.codomain), k(e.domain))
    raise TypeError(type(e))


def same_meaning(a, b, seed: int, trials: int = 3):
    """None if `a` and `b` evaluate identically on `trials` random (env, sigma); else a description of the witness"""
    names = names_of(a) | names_of(b)
    for t in range(trials):
        env = Env(seed * 7919 + t, names, max_card=3 if len(names) <= 4 else 2)
        sigma = env.random_sigma(_rng("sigma", seed, t))
        va, vb = value(a, env, sigma), value(b, env, sigma)
        if va is None or vb is None:
            continue  # a division by zero on this draw: no opinion (sound)
        if va != vb:
            return f"values differ on env seed {env.seed}, sigma {sigma}: {va} vs {vb}"
    return None
