"""Naive re-statements of the set-valued definitions of Correa, Lee, Bareinboim (ICML 2022) used by property C19.

Everything is in integer space: a graph is {"nodes", "di", "bi"}; a counterfactual variable is the encoded list
["v", name, star, isIv, [[name, "m"|"p"], ...]] of harness/enc_expr.py.  Nothing here imports y0 or the Lean model.

  minimise   ||Y_x|| = Y_t,  T = X ∩ An(Y)_{G_{bar X}},  t = x ∩ T                      (Section 4, last paragraph)
  Def. 2.1   An(Y_x) = { W_z : W ∈ An(Y)_{G_{underline X}},  z = x ∩ An(W)_{G_{bar X}} }
  Def. 4.2   ancestral components: finest partition of the union of the ancestral sets
             An(W_t)_{G_{underline X_*(W_t)}}, X_*(W_t) = V(||X_*|| ∩ An(W_t)), such that two sets that are not disjoint
             (share a graph vertex) or are joined by a bidirected arrow between variables IN those sets are together
  Def. 3.4   ctf-factor: every variable is W_{pa_W}
"""
from __future__ import annotations


def all_nodes(g):
    seen = []
    for v in list(g["nodes"]) + [x for e in g["di"] for x in e] + [x for e in g["bi"] for x in e]:
        if v not in seen:
            seen.append(v)
    return seen


def closure(start, step):
    seen = set(start)
    todo = list(start)
    while todo:
        v = todo.pop()
        for w in step(v):
            if w not in seen:
                seen.add(w)
                todo.append(w)
    return seen


def is_acyclic(g):
    di = [tuple(e) for e in g["di"]]
    for v in all_nodes(g):
        ch = {w for (u, w) in di if u == v}
        if v in closure(ch, lambda x: {w for (u, w) in di if u == x}):
            return False
    return True


def anc(g, sources, no_in=(), no_out=()):
    """ancestors (inclusive) of `sources` in G with the edges INTO `no_in` and OUT OF `no_out` removed"""
    di = [(u, w) for (u, w) in map(tuple, g["di"]) if w not in no_in and u not in no_out]
    return closure(sources, lambda x: {u for (u, w) in di if w == x})


def parents(g, v):
    return {u for (u, w) in map(tuple, g["di"]) if w == v}


# ---------------------------------------------------------------------------------------------- variables

def name(v):
    return int(v[1])


def ivs(v):
    return [(int(a), b) for a, b in v[4]]


def mk(n, star, iv):
    iv = sorted(set((int(a), b) for a, b in iv), key=lambda p: (p[0], p[1] == "p"))
    return ["v", int(n), star, "0", [[a, b] for a, b in iv]]


def is_cf(v):
    return bool(v[4])


def vkey(v):
    return (int(v[1]), v[2], str(v[3]), tuple((int(a), b) for a, b in v[4]))


def in_graph(g, v):
    V = set(all_nodes(g))
    return name(v) in V and all(a in V for a, _ in ivs(v))


# ---------------------------------------------------------------------------------------------- definitions

def minimise(g, v):
    """||Y_x||"""
    if not is_cf(v):
        return v
    X = {a for a, _ in ivs(v)}
    T = X & anc(g, {name(v)}, no_in=X)
    t = [(a, b) for a, b in ivs(v) if a in T]
    if not t:
        return ["v", name(v), v[2], "0", []]
    return mk(name(v), v[2], t)


def ctf_ancestors(g, v):
    """Def. 2.1 (a variable without subscripts: its graph ancestors)"""
    if not is_cf(v):
        return [mk(a, "n", []) for a in anc(g, {name(v)})]
    X = {a for a, _ in ivs(v)}
    out = []
    for w in anc(g, {name(v)}, no_out=X):
        aw = anc(g, {w}, no_in=X)
        out.append(mk(w, "n", [(a, b) for a, b in ivs(v) if a in aw]))
    return out


def cond_in_ancestral_set(g, cond, root):
    """X_*(W_t) = V(||X_*|| ∩ An(W_t)): the vertices of the minimised conditioned variables that are members of An(W_t)"""
    mcond = {vkey(minimise(g, x)) for x in cond}
    an_w = {vkey(a) for a in ctf_ancestors(g, root)}
    return {k[0] for k in mcond if k in an_w}


def ancestral_set_after(g, cond, root):
    """An(W_t) in G with the edges out of X_*(W_t) removed"""
    xw = cond_in_ancestral_set(g, cond, root)
    g2 = {"nodes": all_nodes(g), "di": [e for e in g["di"] if e[0] not in xw], "bi": g["bi"]}
    return ctf_ancestors(g2, root)


def ancestral_components(g, cond, roots):
    """Def. 4.2; returns a list of lists of variables"""
    return components_from_sets(g, [ancestral_set_after(g, cond, w) for w in roots])


def _partition(sets, linked):
    """finest partition of the input sets closed under `linked(i, j)`; returns the unions"""
    n = len(sets)
    par = list(range(n))

    def find(i):
        while par[i] != i:
            par[i] = par[par[i]]
            i = par[i]
        return i

    for i in range(n):
        for j in range(i + 1, n):
            if linked(i, j):
                par[find(i)] = find(j)
    comps = {}
    for i in range(n):
        comps.setdefault(find(i), {}).update({vkey(v): v for v in sets[i]})
    return [list(c.values()) for c in comps.values()]


def merge_common(sets):
    """first pass of Def. 4.2: sets that share a graph vertex end up together; an empty set is dropped"""
    sets = [list(s) for s in sets if s]
    bases = [{name(v) for v in s} for s in sets]
    return _partition(sets, lambda i, j: bool(bases[i] & bases[j]))


def merge_bidirected(g, sets):
    """second pass of Def. 4.2, for input sets that are pairwise disjoint on graph vertices: sets joined by a bidirected
    edge between two of their vertices end up together (equal sets are one set)"""
    uniq = {}
    for s in sets:
        uniq.setdefault(frozenset(vkey(v) for v in s), list(s))
    sets = list(uniq.values())
    bases = [{name(v) for v in s} for s in sets]
    bi = [tuple(e) for e in g["bi"]]
    return _partition(sets, lambda i, j: any(
        (a in bases[i] and b in bases[j]) or (b in bases[i] and a in bases[j]) for a, b in bi))


def components_from_sets(g, sets):
    """finest partition: union-find over the input sets"""
    sets = [list(s) for s in sets if s]
    n = len(sets)
    par = list(range(n))

    def find(i):
        while par[i] != i:
            par[i] = par[par[i]]
            i = par[i]
        return i

    bases = [{name(v) for v in s} for s in sets]
    bi = [tuple(e) for e in g["bi"]]
    for i in range(n):
        for j in range(i + 1, n):
            link = bool(bases[i] & bases[j]) or any(
                (a in bases[i] and b in bases[j]) or (b in bases[i] and a in bases[j]) for a, b in bi)
            if link:
                par[find(i)] = find(j)
    comps = {}
    for i in range(n):
        comps.setdefault(find(i), {}).update({vkey(v): v for v in sets[i]})
    return [list(c.values()) for c in comps.values()]


def factor_form_exact(g, v):
    """Def. 3.4: the subscript set of W is exactly pa_W (and W itself is not intervened on)"""
    pa = parents(g, name(v))
    sub = {a for a, _ in ivs(v)}
    return sub == pa and len(sub) == len(ivs(v))


def factor_form_loose(g, v):
    """every parent is intervened on and the variable itself is not (what is needed for W_s = W_{pa_W} as random variables)"""
    pa = parents(g, name(v))
    sub = {a for a, _ in ivs(v)}
    return pa <= sub and name(v) not in sub


def districts(g, nodes):
    nodes = set(nodes)
    bi = [tuple(e) for e in g["bi"] if e[0] in nodes and e[1] in nodes]
    out = []
    seen = set()
    for v in sorted(nodes):
        if v in seen:
            continue
        d = closure({v}, lambda x: {b for a, b in bi if a == x} | {a for a, b in bi if b == x})
        seen |= d
        out.append(d)
    return out
