"""Helpers to render shrunk failing cases of the cf family as known-findings lines (used offline when the list in
known_findings.jsonl is (re)generated; not used by the checks)."""
from __future__ import annotations

import json

LETTERS = "ABCDEFGH"


def var_str(v):
    s = LETTERS[int(v[1])]
    if v[4]:
        s += "_{" + ",".join(LETTERS[int(n)].lower() + ("'" if st == "p" else "") for n, st in v[4]) + "}"
    return s


def event_str(ev):
    return " & ".join(f"{var_str(var)}={LETTERS[int(var[1])].lower()}{chr(39) if val == 'p' else ''}" for var, val in ev)


def graph_str(g):
    parts = [f"{LETTERS[u]}->{LETTERS[v]}" for u, v in g["di"]] + [f"{LETTERS[u]}<->{LETTERS[v]}" for u, v in g["bi"]]
    used = {x for e in g["di"] + g["bi"] for x in e}
    parts += [LETTERS[v] for v in g["nodes"] if v not in used]
    return ", ".join(parts) if parts else "(empty)"


def normalise_case(case, keys):
    """rename variables of a shrunk case to 0..k-1 in the canonical way of relabel_canonical"""
    from . import cf_common as K

    canon = K.relabel_canonical(case, keys=keys)
    n, di, bi, evs = canon
    out = {"g": {"nodes": list(range(n)), "di": di, "bi": bi}, "seed": case.get("seed", 0)}
    for key, ev in zip(keys, evs):
        out[key] = [[K.mkvar(name, subs), val] for name, subs, val in ev]
    return out


def mechanism_c07(case, kind, est):
    ev = case["event"]
    starred_val = any(val == "p" for _, val in ev)
    starred_sub = any(s == "p" for var, _ in ev for _, s in var[4])
    if kind == "zero":
        return ("F10/M5: a district of the counterfactual graph contains a variable whose base also names a Markov-pillow node; "
                "the district event built by line 6 then 'violates effectiveness' and ID* answers Zero for a possible event")
    if kind.startswith("crash"):
        return "crash inside ID* (neither estimand, Zero nor 'unidentifiable')"
    if "*" not in est:
        return ("F10/M4: two copies of a variable that make_counterfactual_graph leaves unmerged (nodes_attain_same_value insists on "
                "equal confounders for an observed vs an intervened parent); line 9 applies the union of all subscripts to every variable")
    if starred_val:
        return "F10/M1: line 6 turns a Markov-pillow node whose event value is x' into the unstarred subscript x (polarity of an outcome value lost)"
    if starred_sub:
        return "F10/M2: line 6 turns a self-intervened Markov-pillow node X_{x'} into the unstarred subscript x (polarity of a subscript lost)"
    return ("F10/M3: line 6 names pillow nodes and district nodes by their base variable only: a summed variable, a literal subscript x "
            "and copies of a variable in different worlds are conflated (district events keyed by base collide)")


def finding_line(prop, key, kind, case, est, mech, keys):
    desc = " | ".join(f"{k}: {event_str(case[k])}" for k in keys)
    what = f"{mech}. Minimal input: graph {graph_str(case['g'])}; {desc}; answer {est}; failure kind '{kind}'"
    c = dict(case)
    c["_noshrink"] = True
    return json.dumps({"property": prop, "key": key, "what": what, "case": c, "status": "open"}, sort_keys=True)
