"""Exact-rational evaluator of REAL y0 expression objects (independent executable reading of `den`).

This is the Python twin of `lean/Y0/Spec/Sem.lean` (`den env sigma' e sigma`) and implements exactly the reading
convention documented at the top of that file:

  * a variable `X` or `-X` in event position has the value sigma[X]; `+X` has the value sigma_star[X];
  * an intervention subscript `-X` (printed `X` after `@`) sets X := sigma[X], `+X` sets X := sigma_star[X];
    consequently a subscript whose name is bound by an enclosing Sum denotes the bound value;
  * Sum[R] e sums over all values (below env.card) of the base names in R, binding sigma only;
  * P(C | Pa) is pr(C u Pa) / pr(Pa); division is field division with x / 0 = 0;
  * PP[pi](...) reads the distribution of population pi, P(...) the default population (None);
  * Q[cod](dom) is an uninterpreted function env.q(sorted dom names, sorted (cod name, value) pairs).

An *environment* supplies `card(name)`, `pr(pop, atoms)` and `q(dom, cod)`.  An atom is a triple
`(name, dos, val)` with `dos` a sorted tuple of `(name, value)` pairs: "variable `name`, in the world where `dos`
are set, takes the value `val`".  `pr` must be a probability measure on the joint values of all counterfactual
variables (the laws `ProbFamily` in Sem.lean).  Environments provided here:

  * `MixtureEnv`  - a finite mixture of product measures over all counterfactual variables (name, dos), generated
    lazily from a seed: every conflict-free in-range conjunction has positive probability (`Env.Positive`), every
    ProbFamily law holds, nothing else does (no effectiveness / composition axioms): the generic member of the class
    the C10/C13 theorems quantify over.  It records the (pop, name, dos) keys it was asked for, so that the same
    environment can be shipped to the Lean driver (`expr den`), see `lean_env_sexp`.
  * `TableEnv`    - an explicit joint table over base variables for one or more populations (observational atoms only,
    `dos == ()`); other families plug in SCM-derived environments by subclassing `Env`.
  * `FscmEnv`     - a random FUNCTIONAL structural causal model per population (shared exogenous noise across worlds):
    pr(pop, atoms) is the mass of the noise points at which every atom (name, dos, val) holds in the sub-model `dos`.
    This is the intended semantics of multi-world joints such as P(Y @ +X, Y @ -X) (`fscmEnv` of Spec/, which satisfies
    `ProbFamily`: `fscmEnv_probFamily`); it is NOT positive (cross-world conjunctions may be impossible), so users
    combine it with `den_nonzero` (the hypothesis `DenNZ` of the theorems).

Only `fractions.Fraction` arithmetic; no floats.
"""
from __future__ import annotations

import itertools as itt
import random
from fractions import Fraction as Fr

__all__ = ["Env", "MixtureEnv", "TableEnv", "FscmEnv", "evaluate", "names_of", "free_names", "random_valuation",
           "identity_test", "lean_env_sexp", "var_atom", "SharedEnv", "shared_env", "den_nonzero"]


# ----------------------------------------------------------------------------------------------- environments

class Env:
    """interface; subclass and implement card / pr (and q when Q-factors occur)"""

    def card(self, name: str) -> int:
        raise NotImplementedError

    def pr(self, pop, atoms) -> Fr:
        """probability, in population `pop` (None = default), of the conjunction of `atoms`
        (iterable of (name, dos, val), dos a sorted tuple of (name, value))"""
        raise NotImplementedError

    def q(self, dom, cod) -> Fr:
        return Fr(0)


def _norm_atoms(atoms):
    """set semantics of a conjunction: de-duplicate; None when two atoms conflict (same variable, same world,
    different value)"""
    seen = {}
    for name, dos, val in atoms:
        key = (name, tuple(sorted(dos)))
        if key in seen:
            if seen[key] != val:
                return None
        else:
            seen[key] = val
    return seen


class MixtureEnv(Env):
    """pr(pop, l) = sum_j w_j * prod_{(key,val) in l} p_{j,pop,key}(val): a mixture of `n_comp` product measures over
    the counterfactual variables key = (name, dos).  All pmfs are positive, generated lazily and deterministically
    from (seed, j, pop, key) - independent of PYTHONHASHSEED and of the order of requests."""

    def __init__(self, seed, cards: dict[str, int], n_comp: int = 3, default_card: int = 2):
        self.seed = seed
        self.cards = dict(cards)
        self.default_card = default_card
        rng = random.Random(f"mix|{seed}")
        ws = [rng.randint(1, 5) for _ in range(n_comp)]
        self.weights = [Fr(w, sum(ws)) for w in ws]
        self._pmf: dict = {}
        self._cache: dict = {}
        self.requested: dict = {}  # (pop, name, dos) -> None, insertion ordered

    def card(self, name):
        return self.cards.get(name, self.default_card)

    def pmf(self, j, pop, key):
        k = (j, pop, key)
        r = self._pmf.get(k)
        if r is None:
            rng = random.Random(f"pmf|{self.seed}|{j}|{pop}|{key[0]}|{key[1]}")
            ws = [rng.randint(1, 7) for _ in range(self.card(key[0]))]
            r = self._pmf[k] = [Fr(w, sum(ws)) for w in ws]
        return r

    def pr(self, pop, atoms):
        seen = _norm_atoms(atoms)
        if seen is None:
            return Fr(0)
        ck = (pop, frozenset(seen.items()))
        r = self._cache.get(ck)
        if r is not None:
            return r
        for key in seen:
            self.requested.setdefault((pop,) + key, None)
        if any(not (0 <= val < self.card(key[0])) for key, val in seen.items()):
            r = Fr(0)
        else:
            r = Fr(0)
            for j, w in enumerate(self.weights):
                t = w
                for key, val in seen.items():
                    t *= self.pmf(j, pop, key)[val]
                r += t
        self._cache[ck] = r
        return r

    def q(self, dom, cod):
        rng = random.Random(f"q|{self.seed}|{tuple(dom)}|{tuple(cod)}")
        return Fr(rng.randint(1, 9), rng.randint(1, 9))


class TableEnv(Env):
    """explicit joint tables over base variables: tables[pop] maps a full assignment (tuple of values in the order of
    `names`) to a probability; only observational atoms (dos == ()) are defined"""

    def __init__(self, names, cards: dict[str, int], tables: dict):
        self.names = list(names)
        self.cards = dict(cards)
        self.tables = tables

    def card(self, name):
        return self.cards[name]

    @classmethod
    def random(cls, rng: random.Random, names, cards=None, pops=(None,)):
        names = list(names)
        cards = dict(cards) if cards else {n: rng.choice([2, 2, 3]) for n in names}
        tables = {}
        for pop in pops:
            cells = list(itt.product(*[range(cards[n]) for n in names]))
            ws = [rng.randint(1, 9) for _ in cells]
            tot = sum(ws)
            tables[pop] = {c: Fr(w, tot) for c, w in zip(cells, ws)}
        return cls(names, cards, tables)

    def pr(self, pop, atoms):
        seen = _norm_atoms(atoms)
        if seen is None:
            return Fr(0)
        fixed = {}
        for (name, dos), val in seen.items():
            if dos:
                raise ValueError("TableEnv has no interventional distributions")
            fixed[name] = val
        idx = {n: i for i, n in enumerate(self.names)}
        return sum((p for cell, p in self.tables[pop].items() if all(cell[idx[n]] == v for n, v in fixed.items())),
                   Fr(0))


class FscmEnv(Env):
    """One random functional SCM per population over `names` (exact rationals).

    Variables in sorted name order are a topological order; every variable v has <= 2 random parents among the earlier
    ones, one private binary noise E_v and (sometimes) a binary latent shared with one other variable; a random table
    f_v : values(parents) x noise -> range(card v).  All noises are independent with random positive rational pmfs and
    are SHARED by all worlds: the probability of a conjunction of counterfactual atoms (name, dos, val) is the mass of
    the noise points u with solve(u, dos)[name] == val for every atom.  An intervention on the variable itself (X @ X)
    makes the atom `X_x = val` (effectiveness); interventions on names outside `names` are ignored by every mechanism.
    """

    def __init__(self, seed, names, cards: dict[str, int], pops=(None,)):
        self.seed = seed
        self.names = sorted(names)
        self.cards = {n: cards.get(n, 2) for n in self.names}
        self._models = {}
        self._pops = tuple(pops)
        self._cache: dict = {}
        self._solve: dict = {}

    def card(self, name):
        return self.cards.get(name, 2)

    def _model(self, pop):
        m = self._models.get(pop)
        if m is not None:
            return m
        rng = random.Random(f"fscm|{self.seed}|{pop}")
        names = self.names
        exo = []                 # (key, pmf)
        lat_of = {n: [] for n in names}
        for n in names:
            k = ("E", n)
            w = rng.randint(1, 4)
            exo.append((k, [Fr(w, 5), Fr(5 - w, 5)]))
            lat_of[n].append(k)
        if len(names) >= 2 and rng.random() < 0.6:
            a, b = rng.sample(names, 2)
            k = ("U", a, b)
            w = rng.randint(1, 3)
            exo.append((k, [Fr(w, 4), Fr(4 - w, 4)]))
            lat_of[a].append(k)
            lat_of[b].append(k)
        pa, tab = {}, {}
        for i, n in enumerate(names):
            earlier = names[:i]
            k = min(len(earlier), rng.choice([0, 1, 1, 2, 2]))
            pa[n] = sorted(rng.sample(earlier, k))
            doms = [range(self.cards[p]) for p in pa[n]] + [range(2)] * len(lat_of[n])
            tab[n] = {key: rng.randrange(self.cards[n]) for key in itt.product(*doms)}
        exo_keys = [k for k, _ in exo]
        points = []
        for vals in itt.product(*[range(2)] * len(exo)):
            mass = Fr(1)
            for (k, pmf), v in zip(exo, vals):
                mass *= pmf[v]
            points.append((dict(zip(exo_keys, vals)), mass))
        m = self._models[pop] = {"pa": pa, "tab": tab, "lat": lat_of, "points": points}
        return m

    def _solution(self, pop, ui, dos):
        key = (pop, ui, dos)
        r = self._solve.get(key)
        if r is None:
            m = self._model(pop)
            u = m["points"][ui][0]
            do = dict(dos)
            r = {}
            for n in self.names:
                if n in do:
                    r[n] = do[n]
                else:
                    r[n] = m["tab"][n][tuple(r[p] for p in m["pa"][n]) + tuple(u[k] for k in m["lat"][n])]
            self._solve[key] = r
        return r

    def pr(self, pop, atoms):
        seen = _norm_atoms(atoms)
        if seen is None:
            return Fr(0)
        ck = (pop, frozenset(seen.items()))
        r = self._cache.get(ck)
        if r is not None:
            return r
        m = self._model(pop)
        r = Fr(0)
        for ui, (_, mass) in enumerate(m["points"]):
            ok = True
            for (name, dos), val in seen.items():
                sol = self._solution(pop, ui, dos)
                have = sol.get(name)
                if have is None:        # a name the model does not know: value 0 unless intervened on
                    have = dict(dos).get(name, 0)
                if have != val:
                    ok = False
                    break
            if ok:
                r += mass
        self._cache[ck] = r
        return r

    def q(self, dom, cod):
        rng = random.Random(f"q|{self.seed}|{tuple(dom)}|{tuple(cod)}")
        return Fr(rng.randint(1, 9), rng.randint(1, 9))


# ----------------------------------------------------------------------------------------------- evaluation

def _div(a: Fr, b: Fr) -> Fr:
    return Fr(0) if b == 0 else a / b


def var_atom(v, sigma, sigma_star):
    """`Var.atom` of Sem.lean for a real y0 Variable / Intervention / CounterfactualVariable"""
    dos = tuple(sorted((i.name, (sigma_star if i.star else sigma)[i.name]) for i in getattr(v, "interventions", ())))
    val = sigma_star[v.name] if v.star is True else sigma[v.name]
    return (v.name, dos, val)


def evaluate(e, env: Env, sigma: dict, sigma_star: dict | None = None) -> Fr:
    """den env sigma_star e sigma.  `sigma`, `sigma_star` map variable NAMES (str) to values."""
    from y0.dsl import Fraction, One, PopulationProbability, Probability, Product, QFactor, Sum, Zero

    if sigma_star is None:
        sigma_star = sigma
    if isinstance(e, Probability):
        pop = e.population.name if isinstance(e, PopulationProbability) else None
        pa = [var_atom(v, sigma, sigma_star) for v in e.parents]
        ch = [var_atom(v, sigma, sigma_star) for v in e.children]
        return _div(env.pr(pop, ch + pa), env.pr(pop, pa))
    if isinstance(e, Product):
        r = Fr(1)
        for x in e.expressions:
            r *= evaluate(x, env, sigma, sigma_star)
        return r
    if isinstance(e, Sum):
        names = sorted({v.name for v in e.ranges})
        total = Fr(0)
        for vals in itt.product(*[range(env.card(n)) for n in names]):
            s2 = dict(sigma)
            s2.update(zip(names, vals))
            total += evaluate(e.expression, env, s2, sigma_star)
        return total
    if isinstance(e, Fraction):
        return _div(evaluate(e.numerator, env, sigma, sigma_star), evaluate(e.denominator, env, sigma, sigma_star))
    if isinstance(e, One):
        return Fr(1)
    if isinstance(e, Zero):
        return Fr(0)
    if isinstance(e, QFactor):
        dom = sorted(v.name for v in e.domain)
        cod = sorted((v.name, sigma_star[v.name] if v.star is True else sigma[v.name]) for v in e.codomain)
        return env.q(dom, cod)
    raise TypeError(type(e))


def names_of(e) -> set[str]:
    """every variable name occurring anywhere (events, subscripts, ranges, populations excluded)"""
    return {v.name for v in e.get_variables()}


def free_names(e) -> set[str]:
    """names the value of `e` may depend on through sigma / sigma_star: all names minus those that only occur bound"""
    from y0.dsl import Fraction, Product, Sum

    if isinstance(e, Sum):
        return free_names(e.expression) - {v.name for v in e.ranges}
    if isinstance(e, Product):
        return set().union(*[free_names(x) for x in e.expressions])
    if isinstance(e, Fraction):
        return free_names(e.numerator) | free_names(e.denominator)
    return names_of(e)


def random_valuation(rng: random.Random, env: Env, names):
    return {n: rng.randrange(env.card(n)) for n in sorted(names)}


def den_nonzero(e, env: Env, sigma_star: dict, names, limit: int = 2000):
    """`DenNZ env sigma_star e` of lean/Y0/Lemmas/SemCanon.lean, decided by enumeration: every `Fraction` inside `e` (at
    any depth) has a denominator that vanishes at NO in-range valuation of the names it depends on.  `names`: all names
    that need a value.  Returns True / False, or None when more than `limit` valuations would have to be visited."""
    from y0.dsl import Fraction, Product, Sum

    todo, dens = [e], []
    while todo:
        x = todo.pop()
        if isinstance(x, Fraction):
            dens.append(x.denominator)
            todo += [x.numerator, x.denominator]
        elif isinstance(x, Product):
            todo += list(x.expressions)
        elif isinstance(x, Sum):
            todo.append(x.expression)
    base = {n: 0 for n in names}
    budget = limit
    for d in dens:
        fn = sorted(free_names(d))
        size = 1
        for n in fn:
            size *= env.card(n)
        budget -= size
        if budget < 0:
            return None
        for vals in itt.product(*[range(env.card(n)) for n in fn]):
            sg = dict(base)
            sg.update(zip(fn, vals))
            if evaluate(d, env, sg, sigma_star) == 0:
                return False
    return True


class SharedEnv(MixtureEnv):
    """a MixtureEnv whose cardinalities are a deterministic function of (seed, name): one object serves every case of a
    worker process, so the pmfs and the `pr` cache are computed once (the evaluation-environment cache of C10/C13)"""

    def __init__(self, seed, max_card=3, n_comp=3):
        super().__init__(seed, {}, n_comp=n_comp)
        self.max_card = max_card

    def card(self, name):
        c = self.cards.get(name)
        if c is None:
            c = self.cards[name] = random.Random(f"card|{self.seed}|{name}").randint(2, self.max_card)
        return c


_SHARED: dict = {}
N_SHARED = 12


def shared_env(i, max_card=3):
    e = _SHARED.get((i, max_card))
    if e is None:
        e = _SHARED[(i, max_card)] = SharedEnv(7000 + i, max_card)
        e.requested = _NoRecord()
    return e


class _NoRecord(dict):
    def setdefault(self, k, v=None):
        return v


def identity_test(e1, e2, rng: random.Random, n_envs: int = 2, n_sigma: int = 3, names=None, max_card: int = 3,
                  star_differs: bool = True, shared: bool = False, guard_nz: bool = False, n_fscm: int = 0,
                  pops=(None,)):
    """Evaluate both expressions on `n_envs` random positive environments x `n_sigma` random valuations.
    Returns None when all values agree, else a JSON-serialisable witness.
    shared=True draws the environments from a per-process pool of N_SHARED generic positive environments (cached pmfs
    and joint probabilities) instead of building fresh ones: same soundness, ~3x cheaper.
    n_fscm > 0 adds that many random FUNCTIONAL SCMs (`FscmEnv`, one model per population in `pops`): the intended
    semantics of multi-world joints.
    guard_nz=True (always on functional SCMs, which are not positive) compares only at (environment, sigma_star) pairs
    at which `den_nonzero(e1)` holds - the hypothesis DenNZ of the theorems, decided by enumeration - so that the
    convention x/0 = 0 never produces an alarm; guard_nz="both" requires it of `e2` as well."""
    names = sorted(set(names or ()) | names_of(e1) | names_of(e2))
    picks = rng.sample(range(N_SHARED), n_envs) if shared else [None] * n_envs
    for pk in list(picks) + ["fscm"] * n_fscm:
        if pk is None:
            seed = rng.randrange(1 << 30)
            cards = {n: rng.randint(2, max_card) for n in names}
            env = MixtureEnv(seed, cards)
        elif pk == "fscm":
            seed = rng.randrange(1 << 30)
            cards = {n: rng.choice([2, 2, max_card]) for n in names}
            env = FscmEnv(seed, names, cards, pops)
        else:
            env = shared_env(pk, max_card)
            seed = env.seed
            cards = {n: env.card(n) for n in names}
        for _ in range(n_sigma):
            sigma = random_valuation(rng, env, names)
            sigma_star = random_valuation(rng, env, names) if star_differs else sigma
            if (guard_nz or pk == "fscm") and den_nonzero(e1, env, sigma_star, names) is not True:
                continue
            if guard_nz == "both" and den_nonzero(e2, env, sigma_star, names) is not True:
                continue
            a = evaluate(e1, env, sigma, sigma_star)
            b = evaluate(e2, env, sigma, sigma_star)
            if a != b:
                return {"env_seed": seed, "cards": cards, "sigma": sigma, "sigma_star": sigma_star,
                        "lhs": str(a), "rhs": str(b), "shared_env": pk}
    return None


# ----------------------------------------------------------------------------------------------- shipping to Lean

def lean_env_sexp(env: MixtureEnv, name_to_int, names):
    """(env (cards (n c)...) (mix ((wn wd) (((pop|none) name ((n v)...)) ((pn pd)...))...)...)) for the keys requested
    so far; rationals are (num den) pairs"""
    def rat(x: Fr):
        return [x.numerator, x.denominator]

    cards = [[name_to_int(n), env.card(n)] for n in sorted(names)]
    comps = []
    for j, w in enumerate(env.weights):
        rows = []
        for (pop, name, dos) in env.requested:
            rows.append([["none" if pop is None else name_to_int(pop), name_to_int(name),
                          [[name_to_int(a), b] for a, b in dos]],
                         [rat(p) for p in env.pmf(j, pop, (name, dos))]])
        comps.append([rat(w), rows])
    return ["env", ["cards"] + cards, ["mix"] + comps]
