"""Exact-rational semi-Markovian SCM oracle for C17 (Tian-Pearl c-factor identification).

Written from the property statement, independent of y0 and of the Lean model:

* `Scm`         a random positive discrete model compatible with an ADMG given in integer space
                (observed cardinalities 2-3; one latent per bidirected edge, optionally one more latent shared by
                a bidirected triangle; positive rational kernels with a common denominator so that all the heavy
                arithmetic is integer arithmetic);
* `Scm.q(S)`    Tian's c-factor Q[S] as a table over all observed variables: the latents summed out of
                prod_u P(u) * prod_{v in S} P(v | pa(v), lat(v))  ==  the distribution of S under do(V \\ S);
* `Evaluator`   exact evaluation of an ENCODED y0 expression (harness/enc_expr.py lists) on the observational
                joint P = Q[V] of the model, as a table over the expression's free variables (`Sum` binds,
                `P(C|Pa)` = P(C u Pa)/P(Pa), population tags all read the same single-domain model);
* set-theoretic graph helpers in integer space (districts, ancestors, linear extensions).

Nothing here is floating point.
"""
from __future__ import annotations

import itertools as itt
from fractions import Fraction as F


class Unsupported(Exception):
    """the expression is outside the fragment this evaluator gives a meaning to"""


class DivisionByZero(Exception):
    pass


# ------------------------------------------------------------------------------------------ graph helpers

def parents(di, v):
    return {u for (u, w) in di if w == v}


def closure(start, step):
    seen = set(start)
    todo = list(start)
    while todo:
        v = todo.pop()
        for w in step(v):
            if w not in seen:
                seen.add(w)
                todo.append(w)
    return seen


def ancestors_in(di, H, S):
    """An(S) in the subgraph induced by H (inclusive)"""
    H = set(H)
    return closure(set(S) & H, lambda v: {u for (u, w) in di if w == v and u in H})


def districts_of(bi, H):
    """partition of H by bidirected connectivity inside H"""
    H = set(H)
    out, seen = [], set()
    for v in sorted(H):
        if v in seen:
            continue
        d = closure({v}, lambda x: {b for e in bi if x in e for b in e if b in H and set(e) <= H})
        seen |= d
        out.append(frozenset(d))
    return out


def is_acyclic(nodes, di):
    nodes = set(nodes)
    indeg = {v: 0 for v in nodes}
    for (u, w) in di:
        if u == w:
            return False
        indeg[w] += 1
    todo = [v for v in nodes if indeg[v] == 0]
    n = 0
    while todo:
        v = todo.pop()
        n += 1
        for (u, w) in di:
            if u == v:
                indeg[w] -= 1
                if indeg[w] == 0:
                    todo.append(w)
    return n == len(nodes)


def is_topo(order, nodes, di):
    if len(order) != len(set(order)) or set(order) != set(nodes):
        return False
    pos = {v: i for i, v in enumerate(order)}
    return all(pos[u] < pos[w] for (u, w) in di)


def random_linear_extension(rng, nodes, di):
    nodes = list(nodes)
    indeg = {v: 0 for v in nodes}
    for (u, w) in di:
        indeg[w] += 1
    avail = sorted(v for v in nodes if indeg[v] == 0)
    out = []
    while avail:
        v = avail.pop(rng.randrange(len(avail)))
        out.append(v)
        for (u, w) in di:
            if u == v:
                indeg[w] -= 1
                if indeg[w] == 0:
                    avail.append(w)
        avail.sort()
    return out


def all_linear_extensions(nodes, di, limit=200):
    nodes = sorted(nodes)
    out = []

    def rec(prefix, remaining):
        if len(out) >= limit:
            return
        if not remaining:
            out.append(list(prefix))
            return
        for v in sorted(remaining):
            if all(u not in remaining for (u, w) in di if w == v):
                rec(prefix + [v], remaining - {v})
    rec([], set(nodes))
    return out


# ------------------------------------------------------------------------------------------ the model

def _composition(rng, total, parts):
    """random positive integers w_1..w_parts with sum `total`"""
    cuts = sorted(rng.sample(range(1, total), parts - 1))
    return [b - a for a, b in zip([0] + cuts, cuts + [total])]


class Scm:
    DEN = 12

    def __init__(self, nodes, di, bi, rng, cards=(2, 3), extra_latents=True):
        self.nodes = sorted(set(nodes))
        self.di = [tuple(e) for e in di]
        self.bi = [tuple(e) for e in bi]
        self.card = {v: rng.choice(cards) for v in self.nodes}
        self.pa = {v: sorted(parents(self.di, v)) for v in self.nodes}
        self.latents = []
        self.lat_of = {v: [] for v in self.nodes}
        seen = set()
        for (a, b) in self.bi:
            if a == b or frozenset((a, b)) in seen:
                continue
            seen.add(frozenset((a, b)))
            u = ("U", len(self.latents))
            self.latents.append(u)
            self.lat_of[a].append(u)
            self.lat_of[b].append(u)
        if extra_latents:
            # one latent shared by a bidirected triangle (still compatible: every pair is joined by an edge)
            tri = [t for t in itt.combinations(self.nodes, 3)
                   if all(frozenset(p) in seen for p in itt.combinations(t, 2))]
            if tri and rng.random() < 0.5:
                t = rng.choice(tri)
                u = ("U", len(self.latents))
                self.latents.append(u)
                for v in t:
                    self.lat_of[v].append(u)
        self.lcard = {u: (3 if rng.random() < 0.2 else 2) for u in self.latents}
        self.pu = {u: _composition(rng, self.DEN, self.lcard[u]) for u in self.latents}   # weights / DEN
        self.kern = {}
        for v in self.nodes:
            doms = [range(self.card[p]) for p in self.pa[v]] + [range(self.lcard[u]) for u in self.lat_of[v]]
            for key in itt.product(*doms):
                self.kern[(v, key)] = _composition(rng, self.DEN, self.card[v])           # weights / DEN
        self._q = {}
        self._cf = {}
        self._marg = {}
        self.assignments = list(itt.product(*[range(self.card[v]) for v in self.nodes]))
        self.idx = {v: i for i, v in enumerate(self.nodes)}

    def q_reference(self, S):
        """Q[S] straight from the definition (every latent assignment enumerated for every observed assignment):
        the slow reference implementation `q` is cross-checked against (tools: `selftest()` below)"""
        S = frozenset(S)
        members = [v for v in self.nodes if v in S]
        lat_assignments = list(itt.product(*[range(self.lcard[u]) for u in self.latents]))
        lidx = {u: i for i, u in enumerate(self.latents)}
        pw = []
        for lv in lat_assignments:
            w = 1
            for u in self.latents:
                w *= self.pu[u][lv[lidx[u]]]
            pw.append(w)
        den = F(1, self.DEN ** (len(self.latents) + len(members)))
        pa_idx = {v: [self.idx[p] for p in self.pa[v]] for v in members}
        la_idx = {v: [lidx[u] for u in self.lat_of[v]] for v in members}
        res = {}
        for a in self.assignments:
            tot = 0
            for lv, w in zip(lat_assignments, pw):
                for v in members:
                    key = tuple(a[i] for i in pa_idx[v]) + tuple(lv[i] for i in la_idx[v])
                    w *= self.kern[(v, key)][a[self.idx[v]]]
                tot += w
            res[a] = tot * den
        return res

    def _component_factor(self, comp):
        """sum over the latents touching `comp` (a set of observed variables closed under 'shares a latent inside
        the set') of prod P(u) * prod_{v in comp} P(v | pa(v), lat(v)), as (vars W = comp u pa(comp), {values: Fraction})"""
        comp = frozenset(comp)
        hit = self._cf.get(comp)
        if hit is not None:
            return hit
        members = [v for v in self.nodes if v in comp]
        lats = [u for u in self.latents if any(u in self.lat_of[v] for v in members)]
        W = sorted(set(members).union(*[self.pa[v] for v in members]))
        wpos = {v: i for i, v in enumerate(W)}
        lpos = {u: i for i, u in enumerate(lats)}
        lat_assignments = list(itt.product(*[range(self.lcard[u]) for u in lats]))
        pw = []
        for lv in lat_assignments:
            w = 1
            for u in lats:
                w *= self.pu[u][lv[lpos[u]]]
            pw.append(w)
        plan = [(v, wpos[v], [wpos[p] for p in self.pa[v]], [lpos[u] for u in self.lat_of[v]]) for v in members]
        den = self.DEN ** (len(lats) + len(members))
        kern = self.kern
        vals = {}
        for a in itt.product(*[range(self.card[v]) for v in W]):
            tot = 0
            for lv, w in zip(lat_assignments, pw):
                for v, iv, ip, il in plan:
                    w *= kern[(v, tuple([a[i] for i in ip] + [lv[i] for i in il]))][a[iv]]
                tot += w
            vals[a] = F(tot, den)
        self._cf[comp] = (W, vals)
        return W, vals

    def _latent_components(self, S):
        """partition of S by 'shares a latent' (transitively, through members of S only)"""
        S = set(S)
        out, seen = [], set()
        for v in self.nodes:
            if v not in S or v in seen:
                continue
            comp = closure({v}, lambda x: {w for w in S if w != x and set(self.lat_of[w]) & set(self.lat_of[x])})
            seen |= comp
            out.append(frozenset(comp))
        return out

    def q(self, S):
        """Q[S] as {full observed assignment (tuple in self.nodes order): Fraction}.

        Same quantity as `q_reference`; the sum over the latents is distributed over the groups of members of S that
        share latents (the latents that touch no member of S sum to one)."""
        S = frozenset(S)
        if S in self._q:
            return self._q[S]
        facs = []
        for comp in self._latent_components(S):
            W, vals = self._component_factor(comp)
            facs.append(([self.idx[v] for v in W], vals))
        res = {}
        for a in self.assignments:
            x = F(1)
            for ix, vals in facs:
                x *= vals[tuple([a[i] for i in ix])]
            res[a] = x
        self._q[S] = res
        return res

    def joint(self):
        return self.q(self.nodes)

    def marg(self, S):
        """marginal of the observational joint over the sorted tuple of variables S: {values tuple: Fraction}"""
        S = tuple(sorted(set(S)))
        if S in self._marg:
            return self._marg[S]
        ix = [self.idx[v] for v in S]
        res = {}
        for a, p in self.joint().items():
            k = tuple(a[i] for i in ix)
            res[k] = res.get(k, 0) + p
        self._marg[S] = res
        return res

    def marg_do(self, X, S):
        """P_{do(X)}(S \\ X) as a table over the sorted tuple S (which contains X): the truncated factorisation
        Q[V \\ X] with every variable outside S summed out; X = () is the observational marginal"""
        X = tuple(sorted(set(X)))
        S = tuple(sorted(set(S) | set(X)))
        if not X:
            return self.marg(S)
        key = (X, S)
        if key in self._marg:
            return self._marg[key]
        ix = [self.idx[v] for v in S]
        res = {}
        for a, p in self.q(set(self.nodes) - set(X)).items():
            k = tuple(a[i] for i in ix)
            res[k] = res.get(k, 0) + p
        self._marg[key] = res
        return res

    def describe(self):
        return {"card": {str(k): v for k, v in self.card.items()},
                "latents": {str(u): {"card": self.lcard[u], "prior_over_12": self.pu[u],
                                     "children": [v for v in self.nodes if u in self.lat_of[v]]} for u in self.latents},
                "kernels_over_12": {f"{v}|pa={self.pa[v]},lat={self.lat_of[v]}|{key}": w for (v, key), w in self.kern.items()}}


# ------------------------------------------------------------------------------------------ expression tables

class Table:
    """a function of the variables `vars` (sorted tuple): values[tuple of values] -> Fraction"""
    __slots__ = ("vars", "values")

    def __init__(self, vars_, values):
        self.vars = tuple(vars_)
        self.values = values


def _plain_name(v):
    if v[0] != "v" or v[4] or str(v[3]) == "1" or v[2] != "n":
        raise Unsupported("counterfactual / starred variable")
    return int(v[1])


def _atom(v):
    """(name, sorted tuple of intervened names): `Y @ -X` is Y in the world do(X := the value of X in the assignment)"""
    if v[0] != "v" or str(v[3]) == "1" or v[2] == "p":
        raise Unsupported("starred variable / Intervention object in event position")
    dos = []
    for n, st in v[4]:
        if st != "m":
            raise Unsupported("starred intervention")
        dos.append(int(n))
    return (int(v[1]), tuple(sorted(set(dos))))


class Evaluator:
    def __init__(self, scm: Scm):
        self.scm = scm
        self.memo = {}
        self._ids = {}
        self._struct = {}
        self._nodes = []

    def _grid(self, vars_):
        return itt.product(*[range(self.scm.card[v]) for v in vars_])

    def nid(self, e):
        """hash-consing: structurally equal sub-expressions get one node id (the estimands of IDENTIFY are small
        DAGs but exponentially large trees)"""
        k = id(e)
        hit = self._ids.get(k)
        if hit is not None and hit[0] is e:
            return hit[1]
        if isinstance(e, str):
            key = (e,)
        else:
            tag = e[0]
            if tag == "P":
                key = ("P", tuple(sorted(_atom(v) for v in e[1])), tuple(sorted(_atom(v) for v in e[2])))
            elif tag == "PP":
                key = ("P", tuple(sorted(_atom(v) for v in e[2])), tuple(sorted(_atom(v) for v in e[3])))
            elif tag == "prod":
                key = ("prod",) + tuple(self.nid(x) for x in e[1:])
            elif tag == "frac":
                key = ("frac", self.nid(e[1]), self.nid(e[2]))
            elif tag == "sum":
                key = ("sum", tuple(sorted({_plain_name(v) for v in e[1]})), self.nid(e[2]))
            else:
                raise Unsupported(f"constructor {tag}")
        n = self._struct.get(key)
        if n is None:
            n = len(self._nodes)
            self._struct[key] = n
            self._nodes.append(key)
        self._ids[k] = (e, n)
        return n

    def table(self, e) -> Table:
        return self._table_of(self.nid(e))

    def _table_of(self, n) -> Table:
        t = self.memo.get(n)
        if t is None:
            t = self._table(self._nodes[n])
            self.memo[n] = t
        return t

    def _check(self, names):
        for n in names:
            if n not in self.scm.idx:
                raise Unsupported(f"variable {n} is not in the model")

    def _combine(self, ts, op):
        vs = tuple(sorted(set().union(*[t.vars for t in ts]))) if ts else ()
        pos = [[vs.index(v) for v in t.vars] for t in ts]
        vals = {}
        for a in self._grid(vs):
            vals[a] = op([t.values[tuple(a[i] for i in p)] for t, p in zip(ts, pos)])
        return Table(vs, vals)

    def _table(self, key) -> Table:
        tag = key[0]
        if tag == "one":
            return Table((), {(): F(1)})
        if tag == "zero":
            return Table((), {(): F(0)})
        if tag == "P":
            catoms, patoms = list(key[1]), list(key[2])
            worlds = {a[1] for a in catoms + patoms}
            if len(worlds) != 1:
                raise Unsupported("atoms of several worlds in one probability")
            X = worlds.pop()
            c = [a[0] for a in catoms]
            p = [a[0] for a in patoms]
            self._check(c + p + list(X))
            allv = tuple(sorted(set(c) | set(p) | set(X)))
            pv = tuple(sorted(set(p) | set(X)))
            num = self.scm.marg_do(X, allv)
            den = self.scm.marg_do(X, pv) if p else None
            ppos = [allv.index(v) for v in pv]
            vals = {}
            for a in self._grid(allv):
                d = den[tuple(a[i] for i in ppos)] if p else 1
                if d == 0:
                    raise DivisionByZero()
                vals[a] = num[a] / d
            return Table(allv, vals)
        if tag == "prod":
            def mul(xs):
                r = F(1)
                for x in xs:
                    r *= x
                return r
            return self._combine([self._table_of(x) for x in key[1:]], mul)
        if tag == "frac":
            def div(xs):
                if xs[1] == 0:
                    raise DivisionByZero()
                return xs[0] / xs[1]
            return self._combine([self._table_of(key[1]), self._table_of(key[2])], div)
        if tag == "sum":
            rs = list(key[1])
            self._check(rs)
            t = self._table_of(key[2])
            keep = tuple(v for v in t.vars if v not in rs)
            kpos = [t.vars.index(v) for v in keep]
            mult = 1
            for r in rs:
                if r not in t.vars:
                    mult *= self.scm.card[r]
            vals = {}
            for a, x in t.values.items():
                k = tuple(a[i] for i in kpos)
                vals[k] = vals.get(k, 0) + x
            return Table(keep, {k: F(x) * mult for k, x in vals.items()})
        raise Unsupported(f"constructor {tag}")

    def equals_full(self, e, full_table):
        """does `e` denote `full_table` ({full assignment: Fraction}) at every assignment?  returns None when equal,
        else a description of the first differing assignment"""
        t = self.table(e)
        pos = [self.scm.idx[v] for v in t.vars]
        for a in self.scm.assignments:
            got = t.values[tuple(a[i] for i in pos)]
            if got != full_table[a]:
                return {"assignment": dict(zip([str(v) for v in self.scm.nodes], a)), "expression_value": str(got),
                        "expected": str(full_table[a])}
        return None

    def same(self, e1, e2):
        """do two expressions denote the same function (of all model variables)?"""
        t1, t2 = self.table(e1), self.table(e2)
        p1 = [self.scm.idx[v] for v in t1.vars]
        p2 = [self.scm.idx[v] for v in t2.vars]
        return all(t1.values[tuple(a[i] for i in p1)] == t2.values[tuple(a[i] for i in p2)] for a in self.scm.assignments)
