"""Independent decision procedures for identifiability of P(y | do(x)) in an ADMG (property C02).

Two procedures written from the literature, neither from y0's code nor from the Lean model:

* `identifiable_tian(nodes, di, bi, X, Y)`  — the c-component criterion of Tian & Pearl (2002) in the form
  of Huang & Valtorta (2006, Theorem 4 / algorithm IDENTIFY): with D = An(Y) in G[V - X], P_x(y) is
  identifiable iff for every c-component D_j of G[D] the c-factor Q[D_j] is computable from Q[S_j] (S_j the
  c-component of G that contains D_j) by the recursion
      A = An(C) in G[T];  A == C -> yes;  A == T -> no;  else T := c-component of G[A] containing C.
  Sound and complete (Huang & Valtorta 2006; Shpitser & Pearl 2006 prove the same class).

* `find_hedge(nodes, di, bi, X, Y)` — brute force over vertex sets for a hedge for P_x(y) (Shpitser & Pearl
  2006, Def. 6 and Theorem 4): R-rooted C-forests F' ⊆ F with F ∩ X ≠ ∅, F' ∩ X = ∅, R ⊆ An(Y) in G with the
  edges into X removed.  A hedge for P_x(y) itself exists iff P_x(y) is not identifiable: "if" because a stuck
  c-component recursion exhibits one (F' = the district D_j of G[An(Y) in G - X], F = the c-component it
  is stuck in), "only if" is Theorem 4.  (A hedge for a sub-query P_x'(y), X' ⊂ X, does NOT imply that
  P_x(y) is unidentifiable: 2->0, 2<->0, 0->1 has a hedge for P_2(1) while P_{0,2}(1) = P(1|0).)
  On vertex sets: an R-rooted C-forest with vertex set F exists iff F is connected by the bidirected edges
  inside F, R ⊆ F, and every node of F - R has a directed path to R inside G[F] (keep for each such node the
  first edge of a shortest path to R and a spanning tree of the bidirected edges).
  Exponential; used for graphs with at most 6 nodes.
"""
from __future__ import annotations

import itertools as itt


def _anc(S, di, within):
    """ancestors of S (inclusive) using edges with both ends in `within`"""
    S = set(S) & set(within)
    todo = list(S)
    while todo:
        v = todo.pop()
        for (a, b) in di:
            if b == v and a in within and a not in S:
                S.add(a)
                todo.append(a)
    return S


def _components(nodes, bi):
    nodes = set(nodes)
    comps = []
    seen = set()
    for s in sorted(nodes):
        if s in seen:
            continue
        comp = {s}
        todo = [s]
        while todo:
            v = todo.pop()
            for e in bi:
                if v in e:
                    for w in e:
                        if w in nodes and w not in comp:
                            comp.add(w)
                            todo.append(w)
        seen |= comp
        comps.append(frozenset(comp))
    return comps


def _comp_of(nodes, bi, C):
    for c in _components(nodes, [e for e in bi if e[0] in nodes and e[1] in nodes]):
        if set(C) <= c:
            return c
    return None


def identifiable_tian(nodes, di, bi, X, Y):
    V = set(nodes)
    X = set(X) & V
    Y = set(Y)
    di = [tuple(e) for e in di]
    bi = [tuple(e) for e in bi if e[0] != e[1]]
    rest = V - X
    D = _anc(Y, di, rest)
    biD = [e for e in bi if e[0] in D and e[1] in D]
    for Dj in _components(D, biD):
        T = _comp_of(V, bi, Dj)
        C = set(Dj)
        T = set(T)
        while True:
            if C == T:
                break
            A = _anc(C, di, T)
            if A == C:
                break
            if A == T:
                return False
            T = set(_comp_of(A, [e for e in bi if e[0] in A and e[1] in A], C))
    return True


def _bi_connected(F, bi):
    F = set(F)
    if not F:
        return False
    inner = [e for e in bi if e[0] in F and e[1] in F]
    return len(_components(F, inner)) == 1


def _all_reach(F, R, di):
    """every node of F reaches R by directed edges inside F"""
    return _anc(R, di, F) >= set(F)


def _subsets(s, nonempty=True):
    s = sorted(s)
    for r in range(1 if nonempty else 0, len(s) + 1):
        for c in itt.combinations(s, r):
            yield set(c)


def find_hedge(nodes, di, bi, X, Y):
    """returns a witness dict or None"""
    V = set(nodes)
    di = [tuple(e) for e in di]
    bi = [tuple(e) for e in bi if e[0] != e[1]]
    X = set(X) & V
    Y = set(Y) & V
    conn = {}

    def connected(F):
        k = frozenset(F)
        if k not in conn:
            conn[k] = _bi_connected(F, bi)
        return conn[k]

    if not X or not Y:
        return None
    di_cut = [e for e in di if e[1] not in X]
    A = _anc(Y, di_cut, V)
    for Fp in _subsets(V - X):
        if not connected(Fp):
            continue
        for R in _subsets(Fp & A):
            if not _all_reach(Fp, R, di):
                continue
            for extra in _subsets(V - Fp):
                if not (extra & X):
                    continue
                Fb = Fp | extra
                if connected(Fb) and _all_reach(Fb, R, di):
                    return {"F": sorted(Fb), "F'": sorted(Fp), "R": sorted(R)}
    return None
