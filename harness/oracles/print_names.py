"""C12: the quantifier's restriction "each distribution mentioning a variable name at most once" as a predicate on
CONSTRUCTION trees, written from the property text, independently of the Lean definition `PyEval.namesOnce` it is
compared with on every case (correspondence stream `names_once`).

A construction tree is the JSON form used by harness/props/c12.py:
  ["n", i] | ["k", K] | ["call", f, arg…] | ["sub", f, idx] | ["tup", x…] | ["un", op, a] | ["bin", op, l, r]

`mentions(t)`: the variable names a tree writes at distribution level — a name, a marked or subscripted name (`+A`,
`A @ …`; the subscripts after `@` belong to the variable, they are not mentions of the distribution), both sides of
`|` and `&`, the elements of a tuple; an expression (`P(…)`, `a * b`, …) mentions none.

`names_once(t)`: at every node, every list that the builders treat as a set writes a name at most once:
the arguments of a call, the two sides of `|` / `&`, a tuple, the right operand of `@`, the index of a subscript;
tuples are non-empty.
"""
from __future__ import annotations


def mentions(t):
    tag = t[0]
    if tag == "n":
        return [int(t[1])]
    if tag == "un":
        return mentions(t[2])
    if tag == "tup":
        return [x for e in t[1:] for x in mentions(e)]
    if tag == "bin":
        if t[1] == "matmul":
            return mentions(t[2])
        if t[1] in ("bor", "band"):
            return mentions(t[2]) + mentions(t[3])
    return []


def _once(xs):
    return len(set(xs)) == len(xs)


def names_once(t) -> bool:
    tag = t[0]
    if tag in ("n", "k"):
        return True
    if tag == "un":
        return names_once(t[2])
    if tag == "tup":
        return len(t) > 1 and all(names_once(e) for e in t[1:]) and _once(mentions(t))
    if tag == "bin":
        if not (names_once(t[2]) and names_once(t[3])):
            return False
        if t[1] == "matmul":
            return _once(mentions(t[3]))
        if t[1] in ("bor", "band"):
            return _once(mentions(t[2]) + mentions(t[3]))
        return True
    if tag == "call":
        args = t[2:]
        return names_once(t[1]) and all(names_once(a) for a in args) and _once([x for a in args for x in mentions(a)])
    if tag == "sub":
        return names_once(t[1]) and names_once(t[2]) and _once(mentions(t[2]))
    raise ValueError(t)
