"""Random mixed-graph generators in integer space (node i <-> Variable(vname(i)))."""
from __future__ import annotations

import itertools as itt
import random


def vname(i: int) -> str:
    """order-preserving name table (int order == Python string order of the names):
    0..99 A00..A99 (ordinary variables), 200..299 T_A00.. (transport nodes), 1000 pi* (target domain),
    1001.. pi1.. (source domains), 2000.. u_0.. (latents of the LV-DAG)"""
    if i < 100:
        return f"A{i:02d}"
    if 200 <= i < 300:
        return f"T_A{i-200:02d}"
    if i == 1000:
        return "pi*"
    if 1000 < i < 1010:
        return f"pi{i-1000}"
    if 2000 <= i < 2010:
        return f"u_{i-2000}"
    raise ValueError(i)


def name_to_int(name: str) -> int:
    if name.startswith("T_A"):
        return 200 + int(name[3:])
    if name.startswith("A"):
        return int(name[1:])
    if name == "pi*":
        return 1000
    if name.startswith("pi"):
        return 1000 + int(name[2:])
    if name.startswith("u_"):
        return 2000 + int(name[2:])
    raise ValueError(name)


def rand_graph(rng: random.Random, nmin=0, nmax=7, acyclic=True, pd=None, pb=None):
    """A mixed graph dict {nodes, di, bi}: `nodes` is the explicit insertion list (may omit nodes that
    only appear through edges), with isolated nodes, bidirected-only nodes, parallel di+bi pairs."""
    n = rng.randint(nmin, nmax)
    pd = rng.choice([0.15, 0.3, 0.5]) if pd is None else pd
    pb = rng.choice([0.0, 0.15, 0.3, 0.5]) if pb is None else pb
    perm = list(range(n))
    rng.shuffle(perm)
    di, bi = [], []
    for i in range(n):
        for j in range(i + 1, n):
            if rng.random() < pd:
                di.append([perm[i], perm[j]])
            if not acyclic and rng.random() < pd / 2:
                di.append([perm[j], perm[i]])
            if rng.random() < pb:
                bi.append([perm[i], perm[j]] if rng.random() < 0.5 else [perm[j], perm[i]])
    if not acyclic and n and rng.random() < 0.15:
        v = rng.randrange(n)
        di.append([v, v])
    rng.shuffle(di)
    rng.shuffle(bi)
    nodes = list(range(n))
    rng.shuffle(nodes)
    if rng.random() < 0.3:  # leave out nodes that are introduced by edges anyway
        touched = {x for e in di + bi for x in e}
        nodes = [v for v in nodes if v not in touched or rng.random() < 0.5]
    return {"nodes": nodes, "di": di, "bi": bi}


def all_nodes(g) -> list[int]:
    seen = []
    for v in itt.chain(g["nodes"], *g["di"], *g["bi"]):
        if v not in seen:
            seen.append(v)
    return seen


def rand_subset(rng, universe, p=None, allow_outside=0.0, outside_pool=(90, 91)):
    p = rng.choice([0.0, 0.2, 0.5, 0.8, 1.0]) if p is None else p
    s = [v for v in universe if rng.random() < p]
    if rng.random() < allow_outside:
        s.append(rng.choice(outside_pool))
    rng.shuffle(s)
    return s


def shuffled(rng, g):
    nodes = all_nodes(g)
    rng.shuffle(nodes)
    di = [list(e) for e in g["di"]]
    rng.shuffle(di)
    bi = [list(e) if rng.random() < 0.5 else [e[1], e[0]] for e in g["bi"]]
    rng.shuffle(bi)
    return {"nodes": nodes, "di": di, "bi": bi}


def shrink_graph(g):
    """smaller graphs: drop a node (with its edges), drop an edge"""
    for v in all_nodes(g):
        yield {"nodes": [x for x in all_nodes(g) if x != v],
               "di": [e for e in g["di"] if v not in e], "bi": [e for e in g["bi"] if v not in e]}
    for k in range(len(g["di"])):
        yield {"nodes": all_nodes(g), "di": g["di"][:k] + g["di"][k + 1:], "bi": g["bi"]}
    for k in range(len(g["bi"])):
        yield {"nodes": all_nodes(g), "di": g["di"], "bi": g["bi"][:k] + g["bi"][k + 1:]}


def to_nx_mixed(g):
    from y0.dsl import Variable
    from y0.graph import NxMixedGraph

    V = lambda i: Variable(vname(i))  # noqa: E731
    return NxMixedGraph.from_edges(
        nodes=[V(i) for i in g["nodes"]],
        directed=[(V(u), V(v)) for u, v in g["di"]],
        undirected=[(V(u), V(v)) for u, v in g["bi"]],
    )


def vint(v) -> int:
    return name_to_int(v.name)


def V(i):
    from y0.dsl import Variable

    return Variable(vname(i))


def enumerate_graphs(n, cyclic=False):
    """all mixed graphs on nodes 0..n-1 (DAG orientation u<v unless cyclic)"""
    pairs = list(itt.combinations(range(n), 2))
    opts = [0, 1, 2, 3] if cyclic else [0, 1]   # 0 none, 1 u->v, 2 v->u, 3 both
    for dsel in itt.product(opts, repeat=len(pairs)):
        di = []
        for (u, v), s in zip(pairs, dsel):
            if s in (1, 3):
                di.append([u, v])
            if s in (2, 3):
                di.append([v, u])
        for bsel in itt.product([0, 1], repeat=len(pairs)):
            bi = [[u, v] for (u, v), s in zip(pairs, bsel) if s]
            yield {"nodes": list(range(n)), "di": di, "bi": bi}


# ------------------------------------------------------------------------------------------ mixed names (added by sepG)
# A second ORDER-PRESERVING name table (int order == Python string order of the names, so every model that works in
# integer space stays valid) whose names differ in length, case and suffix style: `X1 < X10 < X2`, upper case before
# `_` before lower case, one-letter names beside five-letter ones.  A sort by (len, name), a case-insensitive sort, a
# numeric-suffix sort, a comparison of `str(v)` prefixes or a fixed-width assumption gives another order here, while
# `A00..A99` hides all of them.
MIXED_NAMES = sorted(["B", "Ba", "C1", "C10", "C2", "D_1", "Da", "M", "M0", "Ma", "X", "X1", "X10", "X2", "X_1", "Xa",
                      "Y", "Z9", "Z_10", "Z_2", "a", "aB", "ab", "b", "b0", "c", "w1", "w10", "w2", "y", "z", "zz"])


def vname_mixed(i: int) -> str:
    return MIXED_NAMES[i]


def mixed_to_int(name: str) -> int:
    return MIXED_NAMES.index(name)


def table(names: str | None):
    """(int -> name, Variable -> int) of the name table called `names` (None / 'plain' = A%02d, 'mixed' = MIXED_NAMES)"""
    if names == "mixed":
        return vname_mixed, (lambda v: mixed_to_int(v.name))
    return vname, vint


# ------------------------------------------------------------------------------------- small-scope exhaustive (session 4)
def all_labelled_admgs(n):
    """EVERY labelled acyclic directed mixed graph on nodes 0..n-1 (each unordered pair: no / u->v / v->u directed edge,
    with or without a bidirected edge; cyclic orientations dropped): 1, 6, 200, 34752 graphs for n = 1..4."""
    pairs = list(itt.combinations(range(n), 2))
    for dsel in itt.product([0, 1, 2], repeat=len(pairs)):
        di = [[u, v] if s == 1 else [v, u] for (u, v), s in zip(pairs, dsel) if s]
        # acyclic? (n <= 4: repeated removal of sources)
        left, edges = set(range(n)), list(di)
        while left:
            src = [v for v in left if not any(e[1] == v for e in edges)]
            if not src:
                break
            left -= set(src)
            edges = [e for e in edges if e[0] in left]
        if left:
            continue
        for bsel in itt.product([0, 1], repeat=len(pairs)):
            yield {"nodes": list(range(n)), "di": [list(e) for e in di],
                   "bi": [[u, v] for (u, v), s in zip(pairs, bsel) if s]}


def all_role_assignments(n, roles, required):
    """every map node -> role in `roles` + (None,) with each role of `required` used at least once;
    yields dicts role -> sorted node list"""
    for sel in itt.product(list(roles) + [None], repeat=n):
        out = {r: [v for v in range(n) if sel[v] == r] for r in roles}
        if all(out[r] for r in required):
            yield out
