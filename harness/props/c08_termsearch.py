"""C08 — search for deep line-4 recursions of IDC* with the executable model (driver op `idc_star_trace`).

Usage:  python -m harness.props.c08_termsearch exhaustive2     # every input over 2 variables (all 2-node ADMGs), <=2+2 keys
        python -m harness.props.c08_termsearch random N SEED    # random inputs over 3-4 variables, up to 5 worlds, biased towards
                                                                # the same variable as outcome and condition in different worlds
Reports every input whose recursion is deeper than |conditions| + 1 and every input on which the fuel (64) ran out."""
from __future__ import annotations

import itertools
import json
import random
import sys

from .. import common as C
from ..oracles import cf_common as K

FUEL = 64


def req(g, outs, conds, strat=(0, 0, 0)):
    gs = C.graph_sexp(g["nodes"], g["di"], g["bi"])
    return C.enc(["cf", "idc_star_trace", gs, outs, conds, strat[0], strat[1], strat[2], FUEL])


def run(batch, model):
    reps = model.ask_many([req(*b) for b in batch])
    out = []
    for b, line in zip(batch, reps):
        rep = C.parse(line)
        if rep[0] != "ok":
            out.append((b, None, None))
            continue
        ended = str(rep[1]) == "1"
        trace = [tuple(int(a) for a in lv) for lv in rep[2]]
        out.append((b, ended, trace))
    return out


def report(results, stats):
    for (g, outs, conds, *_), ended, trace in results:
        if ended is None:
            stats["bad"] += 1
            continue
        depth = len(trace)
        stats["n"] += 1
        stats["maxdepth"] = max(stats["maxdepth"], depth)
        grow = any(trace[i + 1][1] >= trace[i][1] for i in range(len(trace) - 1))
        if grow:
            stats["cond_not_decreasing"] += 1
        # level record: (|O|, |C|, |no|, |nc|, |no & nc|, |misO|, |misC|, #shared keys split by the exchange)
        if any(len(lv) >= 8 and lv[7] > 0 for lv in trace):
            stats["split"] = stats.get("split", 0) + 1
            stats.setdefault("split_case", {"g": g, "outcomes": outs, "conditions": conds, "trace": trace})
        if any(len(lv) >= 5 and lv[4] > 0 for lv in trace):
            stats["shared"] = stats.get("shared", 0) + 1
        if any(len(lv) >= 7 and lv[6] > 0 for lv in trace[1:]):
            stats["late_misC"] = stats.get("late_misC", 0) + 1
            stats.setdefault("late_misC_case", {"g": g, "outcomes": outs, "conditions": conds, "trace": trace})
        if any(len(lv) >= 7 and lv[6] > 0 and lv[5] > 0 for lv in trace[1:]):
            stats["late_both"] = stats.get("late_both", 0) + 1
            stats.setdefault("late_both_case", {"g": g, "outcomes": outs, "conditions": conds, "trace": trace})
        if any(len(lv) >= 6 and lv[5] > 0 for lv in trace[1:]):
            stats["late_misO"] = stats.get("late_misO", 0) + 1
            stats.setdefault("late_misO_case", {"g": g, "outcomes": outs, "conditions": conds, "trace": trace})
        if any(len(lv) >= 4 and lv[3] > lv[1] for lv in trace[1:]):
            stats["late_growth"] = stats.get("late_growth", 0) + 1
            stats.setdefault("late_growth_case", {"g": g, "outcomes": outs, "conditions": conds, "trace": trace})
        if not ended or depth > len(conds) + 1:
            stats["deep"] += 1
            print("DEEP" if ended else "FUEL", json.dumps({"g": g, "outcomes": outs, "conditions": conds, "trace": trace}), flush=True)
        excess = depth - (len(conds) + 1)
        if excess > stats["max_excess"]:
            stats["max_excess"] = excess
            stats["max_excess_case"] = {"g": g, "outcomes": outs, "conditions": conds, "trace": trace}


def all_keys(names):
    keys = []
    for n in names:
        for subs in itertools.product(*[[None, "m", "p"] for _ in names]):
            s = [(m, st) for m, st in zip(names, subs) if st is not None]
            keys.append(K.mkvar(n, s))
    return keys


def exhaustive2():
    names = [0, 1]
    graphs = []
    for di in ([], [[0, 1]]):
        for bi in ([], [[0, 1]]):
            graphs.append({"nodes": names, "di": di, "bi": bi})
    kv = [[k, v] for k in all_keys(names) for v in ("m", "p")]
    sets = [[a] for a in kv] + [[a, b] for a, b in itertools.combinations(kv, 2) if C.enc(a[0]) != C.enc(b[0])]
    model = C.LeanModel()
    stats = {"n": 0, "bad": 0, "deep": 0, "maxdepth": 0, "max_excess": -99, "cond_not_decreasing": 0}
    batch = []
    for g in graphs:
        for outs in sets:
            ko = {C.enc(a[0]) for a in outs}
            for conds in sets:
                if ko & {C.enc(a[0]) for a in conds}:
                    continue
                batch.append((g, outs, conds))
                if len(batch) >= 20000:
                    report(run(batch, model), stats)
                    batch = []
                    print({k: v for k, v in stats.items() if not k.endswith("_case")}, flush=True)
    report(run(batch, model), stats)
    print(json.dumps(stats))


def rand_case(rng):
    n = rng.choice([2, 3, 3, 4])
    g = K.rand_admg(rng, n, n)
    names = sorted(set(g["nodes"]) | {u for e in g["di"] + g["bi"] for u in e})
    nworlds = rng.randint(1, 5)
    worlds = [()]
    for _ in range(nworlds):
        k = rng.randint(1, min(3, len(names)))
        worlds.append(tuple((m, rng.choice("mmp")) for m in rng.sample(names, k)))
    shared = rng.sample(names, rng.randint(1, min(2, len(names))))
    items = {}
    for _ in range(rng.randint(2, 6)):
        nm = rng.choice(shared) if rng.random() < 0.7 else rng.choice(names)
        var = K.mkvar(nm, rng.choice(worlds))
        items[C.enc(var)] = [var, rng.choice("mmp")]
    ev = list(items.values())
    if len(ev) < 2:
        return None
    rng.shuffle(ev)
    k = rng.randint(1, len(ev) - 1)
    return g, ev[:k], ev[k:]


def rand_case_big(rng):
    """more keys per event (up to 9), few names, many worlds over the same names: favours merges across worlds"""
    n = rng.choice([2, 3, 3])
    g = K.rand_admg(rng, n, n)
    names = sorted(set(g["nodes"]) | {u for e in g["di"] + g["bi"] for u in e})
    worlds = [()]
    for _ in range(rng.randint(2, 6)):
        k = rng.randint(1, len(names))
        worlds.append(tuple((m, rng.choice("mmmp")) for m in rng.sample(names, k)))
    items = {}
    for _ in range(rng.randint(4, 9)):
        var = K.mkvar(rng.choice(names), rng.choice(worlds))
        items[C.enc(var)] = [var, rng.choice("mmmp")]
    ev = list(items.values())
    if len(ev) < 3:
        return None
    rng.shuffle(ev)
    k = rng.randint(1, len(ev) - 1)
    return g, ev[:k], ev[k:]


def rand_case_pump(rng):
    """5-6 variables; factual root conditions (names that sort first) whose exchange re-subscripts outcomes in several worlds,
    several copies of one or two names in different worlds as outcomes AND conditions (the pattern on which the re-association
    adds conditions at a later level)"""
    n = rng.choice([5, 5, 6])
    names = list(range(n))
    nroots = rng.randint(1, 3)
    di = []
    for i in range(n):
        for j in range(i + 1, n):
            if rng.random() < (0.5 if i < nroots else 0.35):
                di.append([i, j])
    bi = [[i, j] for i in range(n) for j in range(i + 1, n) if rng.random() < 0.08]
    g = {"nodes": names, "di": di, "bi": bi}
    inner = names[nroots:]
    worlds = []
    for _ in range(rng.randint(2, 4)):
        k = rng.randint(1, 2)
        worlds.append(tuple((m, rng.choice("mmmmp")) for m in rng.sample(inner, min(k, len(inner)))))
    shared = rng.sample(inner, min(len(inner), rng.randint(1, 2)))
    items = {}
    for _ in range(rng.randint(3, 8)):
        nm = rng.choice(shared) if rng.random() < 0.6 else rng.choice(inner)
        var = K.mkvar(nm, rng.choice(worlds))
        items[C.enc(var)] = [var, rng.choice("mmmmp")]
    ev = list(items.values())
    if len(ev) < 2:
        return None
    rng.shuffle(ev)
    k = rng.randint(1, len(ev) - 1)
    outs, conds = ev[:k], ev[k:]
    for r in names[:nroots]:
        if rng.random() < 0.8:
            conds.insert(rng.randint(0, len(conds)), [K.mkvar(r), "m"])
    return g, outs, conds


def random_search(n, seed):
    global rand_case
    if seed >= 2000:
        rand_case = rand_case_pump
    elif seed >= 1000:
        rand_case = rand_case_big
    rng = random.Random(seed)
    model = C.LeanModel()
    stats = {"n": 0, "bad": 0, "deep": 0, "maxdepth": 0, "max_excess": -99, "cond_not_decreasing": 0}
    batch = []
    for _ in range(n):
        c = rand_case(rng)
        if c is None:
            continue
        strat = (rng.randint(0, 1), rng.randint(0, 3), rng.randint(0, 1))
        batch.append((c[0], c[1], c[2], strat))
        if len(batch) >= 5000:
            report(run([(a, b, cc, s) for a, b, cc, s in batch], model), stats)
            batch = []
            print({k: v for k, v in stats.items() if not k.endswith("_case")}, flush=True)
    report(run(batch, model), stats)
    print(json.dumps(stats))


if __name__ == "__main__":
    if sys.argv[1] == "exhaustive2":
        exhaustive2()
    else:
        random_search(int(sys.argv[2]), int(sys.argv[3]))
