"""C15 — implied conditional independencies are enumerated exactly.

Correspondence: `get_conditional_independencies(graph, policy, max_conditions, return_all)` (through `d_separations`,
`minimal`, the two built-in policies, `powerset`) real code vs Lean model `Y0.Model.Sep`
(`MG.conditionalIndependencies`); `powerset` alone, order included.
Oracle (from the property statement): brute force over all unordered pairs and all conditioning sets within the size
limit, truth of each separation decided by d-connecting-path enumeration in the canonical latent DAG (the C04 oracle,
with networkx.is_d_separator as second opinion): the result must contain exactly one judgement for every pair that
has a separating set within the limit, none for any other pair, each a true separation, canonical, of minimum size.
"""
from __future__ import annotations

import itertools as itt
import json
import random

from .. import common as C
from .. import forms as F
from .. import gen_graph as G
from ..oracles import sep_paths as O
from . import c04 as C4
from .c04 import rand_admg, structured_query, with_names

_V, _vint = C4._V, C4._vint

PROP = "C15"
RULE = ("structured `policy_shape` ADMGs (a pair with a topologically late singleton separator and an early 2-3 node separator, "
        "and the mirror image) mostly with return_all=True, so that both retention policies have to choose between separating "
        "sets of different sizes; random ADMGs (0-6 nodes, bidirected chains, isolated nodes, random insertion order) x max_conditions in "
        "{None, 0, 1, 2, 3, 4} x policy in {topological (default), _len_lex} x return_all in {False, True}; powerset on random "
        "lists x start x stop. A case is non-trivial when the graph has >=3 nodes, at least one pair is separable and at "
        "least one pair is not (within the limit).  Added by sepG (gap review round 5; tags shape / max_min_sep / n_min_seps / "
        "k_vs_n / disconnected / names / form_verbose count them): the structured shapes of C04 (colliders opened by a conditioned "
        "descendant 2-5 steps below, long forks, bidirected chains of 3-5 colliders, fully conditioned districts, sparse graphs; "
        "<= 8 nodes, 9-10 with a small limit); `parallel_routes`: 3-6 routes between one pair (mediators, common causes, mixed, "
        "two-step routes), minimum separator of size 3..6, unique or one of up to 8, limits m-1 / m / m+1 / none; limits n-3, n-2, "
        "n-1 on random graphs; disconnected graphs (isolated nodes only, a bidirected piece beside a chain, random pieces: "
        "seeded/C15d); verbose=True; the mixed-name and counterfactual-node name tables of C04.")
ASSUMPTIONS = [
    "node names: as in C04 (order-preserving tables A00.., mixed lengths / case, counterfactual-variable nodes); runtime clause. With counterfactual nodes and _len_lex + return_all the kept set is compared by size only (_len_lex joins BASE names, two worlds of one base tie). The counterfactual-node stream found the TypeError in minimal() fixed by repo 82be1e9",
    "argument FORMS (harness/forms.py; chosen deterministically per case, stored in the case, tagged form_*): the default policy omitted / policy=None / an explicit get_topological_policy(graph); max_conditions=None omitted or explicit; return_all and verbose omitted / False / None (both are typed bool | None); graph positional or by keyword; the graph built through every public constructor of NxMixedGraph (only the insertion-order preserving ones where the compared value depends on the topological order); powerset's iterable as list / tuple / dict keys / generator / iterator / map, start and stop positional / keyword / omitted at their defaults. Independence of the form is a runtime clause decided by correspondence + oracle",
    "'true separation in the graph': the theorems ci_sound/ci_complete/ci_unique/ci_minimum/ci_total are parametric in any "
    "separation test that is symmetric and set-valued in C (GoodTest); ci_exact instantiates them with the C04 model and, "
    "through C04's dsep_iff_dsep_canonical (fully proved), states them for d-separation in the canonical latent DAG",
    "ci_exact is stated for a call that returns; ci_total_admg shows the call returns on every ADMG for both policies (it uses "
    "the lemmas topologicalSort_total / topologicalSort_complete about the shared Kahn model, proved on branch `latent`, merged here)",
    "Python iterates a set of vertices (hash order) where the model iterates the sorted vertex list: with return_all=False the "
    "particular minimum-size conditioning set kept for a pair may differ, so correspondence compares (left, right, size) there "
    "and the exact sets only with return_all=True + _len_lex; the theorems hold for every duplicate-free vertex order",
    "minimal(): stable sort + groupby is modelled as 'distinct (left, right) keys in sorted order, each with the filtered "
    "sub-list in input order'",
]
EXHAUSTIVE = {"quick": False, "thorough": True}
LEANCHECK_MODULES = ["Y0.Model.Sep", "Y0.Props.C15"]

CORPUS = [
    # F6 witness: chain A->B->C, max_conditions=1 must list A _||_ C | B
    {"kind": "ci", "g": {"nodes": [], "di": [[0, 1], [1, 2]], "bi": []}, "k": 1, "policy": "topological", "all": False},
    {"kind": "ci", "g": {"nodes": [], "di": [[0, 1], [1, 2]], "bi": []}, "k": 0, "policy": "topological", "all": False},
    {"kind": "ci", "g": {"nodes": [], "di": [[0, 1], [1, 2]], "bi": []}, "k": None, "policy": "len_lex", "all": True},
    # F2 witness: B<->A<->C, A in no separating set
    {"kind": "ci", "g": {"nodes": [], "di": [], "bi": [[1, 0], [2, 0]]}, "k": None, "policy": "topological", "all": True},
    # napkin
    {"kind": "ci", "g": {"nodes": [], "di": [[0, 1], [1, 2], [2, 3]], "bi": [[0, 2], [0, 3]]}, "k": None, "policy": "topological", "all": False},
    # frontdoor X->M->Y, X<->Y
    {"kind": "ci", "g": {"nodes": [], "di": [[0, 1], [1, 2]], "bi": [[0, 2]]}, "k": 2, "policy": "len_lex", "all": False},
    # two minimum sets with equal topological key sum ({1,4} vs {2,3}) are possible here
    {"kind": "ci", "g": {"nodes": [0, 1, 2, 3, 4, 5], "di": [[0, 1], [0, 2], [0, 3], [0, 4], [1, 5], [2, 5], [3, 5], [4, 5]], "bi": []},
     "k": None, "policy": "topological", "all": True},
    {"kind": "ci", "g": {"nodes": [], "di": [], "bi": []}, "k": None, "policy": "topological", "all": False},
    {"kind": "ci", "g": {"nodes": [3], "di": [], "bi": []}, "k": 2, "policy": "len_lex", "all": False},
    {"kind": "powerset", "s": [3, 1, 2], "start": 0, "stop": None},
    {"kind": "powerset", "s": [3, 1, 2], "start": 1, "stop": 2},
    {"kind": "powerset", "s": [], "start": 0, "stop": 0},
]


def _slots(case):
    if case["kind"] == "powerset":
        sl = {"iterable": ("list", "tuple", "dict_keys", "generator", "iterator", "map"), "call": ("positional", "keyword")}
        if case["start"] == 0:
            sl["start"] = ("given", "omitted")
        if case["stop"] is None:
            sl["stop"] = ("none", "omitted")
        return sl
    order_compared = case["policy"] == "topological" and case["all"]
    sl = {"ctor": F.CTORS_SAME_ORDER if order_compared else F.CTORS, "call": ("positional", "keyword"),
          "verbose": ("omitted", "false", "none", "true")}
    if case["policy"] == "topological":
        sl["policy"] = ("omitted", "none", "explicit")
    if case["k"] is None:
        sl["max_conditions"] = ("omitted", "none")
    if not case["all"]:
        sl["return_all"] = ("omitted", "false", "none")
    return sl


def _forms(case):
    return F.forms_of(case, _slots(case))


def policy_shape(rng):
    """several separating sets of DIFFERENT sizes for one pair, placed so that a wrong sort key prefers a larger one:
    m >= 2 early common causes u_1..u_m of a and v, and v -> b (a _||_ b given {v}, the topologically LATE singleton, and given
    {u_1..u_m}, an EARLY larger set); the mirror image (early singleton, late larger set: r -> a, r -> w_i, w_i -> b); both
    with the pair's names in either string order, optional bidirected variants of the u_i -> a edges and a noise node"""
    m = rng.choice([2, 2, 3])
    lab = list(range(m + 4))
    rng.shuffle(lab)
    us, a, v, b, z = lab[:m], lab[m], lab[m + 1], lab[m + 2], lab[m + 3]
    di, bi = [], []
    if rng.random() < 0.6:          # late singleton {v}, early set {u_i}
        for u in us:
            if rng.random() < 0.25:
                bi.append([u, a])
            else:
                di.append([u, a])
            di.append([u, v])
        di.append([v, b])
    else:                           # early singleton {v}, late set {u_i}
        di.append([v, a])
        for u in us:
            di.append([v, u])
            di.append([u, b])
    nodes = []
    r = rng.random()
    if r < 0.3:
        nodes = [z]                 # an isolated node
    elif r < 0.5:
        di.append([b, z])
    rng.shuffle(di)
    if rng.random() < 0.5:
        nodes = nodes + rng.sample(lab[:m + 3], rng.randint(0, m + 3))    # some nodes listed explicitly, in another order
    return {"nodes": nodes, "di": di, "bi": bi}


def parallel_routes(rng):
    """(sepG, gap review G15-2) a pair whose MINIMUM separator is large and - with two-step routes - far from unique:
    m = 3..6 routes between a and b, each a mediator chain a -> x -> b, a common cause a <- x -> b, a mixed route
    a <-> x -> b, or a two-step route a -> x -> y -> b (either inner node cuts it: 2^r minimum separators); every minimum
    separator takes one inner node of every route, so its size is m.  Returns (graph, m)."""
    B = C4._B()
    a, b = B.new(), B.new()
    m = rng.choice([3, 3, 3, 4, 4, 5, 5, 6])
    two_step = 0
    for _ in range(m):
        x = B.new()
        r = rng.random()
        if r < 0.2 and B.n + (m - two_step) <= 9 and two_step < 3:
            y = B.new()
            B.di += [[a, x], [x, y], [y, b]]
            two_step += 1
        elif r < 0.6:
            B.di += [[a, x], [x, b]]
        elif r < 0.85:
            B.di += [[x, a], [x, b]]
        else:
            B.bi.append([a, x])
            B.di.append([x, b])
    if rng.random() < 0.3 and B.n < 9:
        C4._noise(rng, B, [], k=1)
    g, _, _, _, _ = B.finish(rng, a, b, [], "parallel_routes")
    return g, m


def disconnected_graph(rng):
    """(seeded/C15d) graphs with no edge between their pieces: a graph of isolated nodes, a bidirected-only piece next to a
    chain, an isolated node next to anything, two random pieces"""
    r = rng.random()
    if r < 0.15:
        n = rng.randint(2, 5)
        nodes = list(range(n))
        rng.shuffle(nodes)
        return {"nodes": nodes, "di": [], "bi": []}
    if r < 0.35:
        lab = list(range(rng.choice([5, 6])))
        rng.shuffle(lab)
        g = {"nodes": [], "di": [[lab[0], lab[1]], [lab[1], lab[2]]], "bi": [[lab[3], lab[4]]]}
        if len(lab) == 6:
            g["nodes"] = [lab[5]]
        return g
    return C4.shape_disconnected(rng)[0]


def cases(rng: random.Random, tier: str):
    return [F.assign(c, _slots(c)) for c in _cases(rng, tier)]


def _cases(rng: random.Random, tier: str):
    from .c04 import C_load_corpus  # noqa: F401
    out = [dict(c) for c in CORPUS] + _load_corpus()
    pol = lambda: rng.choice(["topological", "topological", "len_lex"])  # noqa: E731
    for _ in range(1600 if tier == "quick" else 12000):
        g = rand_admg(rng, 0 if rng.random() < 0.05 else 2, 6 if rng.random() < 0.4 else 5)
        n = len(G.all_nodes(g))
        k = rng.choice([None, None, 0, 1, 1, 2, 2, 3, 4])
        if n >= 4 and rng.random() < 0.12:
            k = rng.choice([n - 3, n - 2, n - 2, n - 1])          # limits around |V| - 2 (the largest set any pair can use)
        out.append(with_names(rng, {"kind": "ci", "g": g, "k": k, "policy": pol(), "all": rng.random() < 0.35}))
    # --- structured streams (sepG; tags shape / max_min_sep / n_min_seps / names count them)
    # (a) the deep shapes of C04: a pair is separable or not depending on a collider opened 2-5 steps below, a fork 3-4 steps
    #     above, a bidirected chain of 3-5 colliders, a fully conditioned district; the oracle enumerates every subset, so the
    #     graphs stay <= 8 nodes (9-10 with a small limit)
    k = 0
    while k < (220 if tier == "quick" else 1200):
        g, _, _, _, shape = structured_query(rng, only=("deep_path", "long_fork", "bidirected_chain", "married_parents", "sparse_big"))
        n = len(G.all_nodes(g))
        if n > 10 or (n > 7 and rng.random() < 0.75) or (n > 6 and tier == "quick" and rng.random() < 0.4):
            continue
        lim = rng.choice([None, None, None, 1, 2, 3, n - 2]) if n <= 8 else rng.choice([1, 2, 2])
        out.append(with_names(rng, {"kind": "ci", "g": g, "k": lim, "policy": pol(), "all": rng.random() < 0.4,
                                    "shape": shape.split(":")[0]}, 0.06, 0.06))
        k += 1
    # (b) minimum separators of size 3..6, unique or one of 2^r: limits just below, at and above the size, or none
    for _ in range(64 if tier == "quick" else 300):
        g, m = parallel_routes(rng)
        out.append(with_names(rng, {"kind": "ci", "g": g, "k": rng.choice([m - 1, m, m, m + 1, None, None]), "policy": pol(),
                                    "all": rng.random() < (0.6 if m <= 4 else 0.3), "shape": "parallel_routes"}, 0.06, 0.06))
    # (c) disconnected graphs
    for _ in range(120 if tier == "quick" else 500):
        out.append(with_names(rng, {"kind": "ci", "g": disconnected_graph(rng), "k": rng.choice([None, None, 0, 1, 2]),
                                    "policy": pol(), "all": rng.random() < 0.35, "shape": "disconnected"}, 0.06, 0.06))
    for _ in range(150 if tier == "quick" else 900):     # the retention policies have to choose between sets of different sizes
        g = policy_shape(rng)
        n = len(G.all_nodes(g))
        out.append({"kind": "ci", "g": g, "k": rng.choice([None, None, 2, 3, n]),
                    "policy": rng.choice(["topological", "topological", "len_lex"]), "all": rng.random() < 0.8})
    for _ in range(40 if tier == "quick" else 200):     # cyclic graphs: topological policy raises, len_lex does not
        g = G.rand_graph(rng, 2, 5, acyclic=False)
        out.append({"kind": "ci", "g": g, "k": rng.choice([None, 1, 2]), "policy": rng.choice(["topological", "len_lex"]),
                    "all": rng.random() < 0.3})
    for _ in range(150 if tier == "quick" else 1000):
        n = rng.randint(0, 6)
        s = rng.sample(range(10), n)
        out.append({"kind": "powerset", "s": s, "start": rng.choice([0, 0, 1, 2, 3]), "stop": rng.choice([None, 0, 1, 2, 3, 5, 8])})
    if tier == "thorough":
        for k in (1, 2, 3):
            for g in G.enumerate_graphs(k, cyclic=False):
                for lim in (None, 0, 1):
                    out.append({"kind": "ci", "g": g, "k": lim, "policy": "topological", "all": False})
    return out


def _load_corpus():
    import os
    d = C.VERIF / "corpus" / PROP
    out = []
    if d.is_dir():
        for f in sorted(os.listdir(d)):
            if f.endswith(".json"):
                c = json.loads((d / f).read_text())
                out.append(c.get("case", c))
    return out


# ------------------------------------------------------------------------------------------ real code

def _call_ci(case):
    import networkx as nx
    from y0.algorithm.conditional_independencies import _len_lex, get_conditional_independencies, get_topological_policy

    g = case["g"]
    fm = _forms(case)
    try:
        graph, fault = C4.build_graph(g, fm["ctor"], len(g["di"]) * 13 + len(g["bi"]), case.get("names"))
    except Exception as e:  # noqa: BLE001 - every graph dict is a legal input of every constructor
        return None, None, f"constructor {fm['ctor']} raised {type(e).__name__}"
    if fault:
        return None, None, fault
    kw = {}
    try:
        if case["policy"] == "len_lex":
            kw["policy"] = _len_lex
        elif fm["policy"] == "none":
            kw["policy"] = None
        elif fm["policy"] == "explicit":
            kw["policy"] = get_topological_policy(graph)
        if case["all"]:
            kw["return_all"] = True
        elif fm["return_all"] != "omitted":
            kw["return_all"] = False if fm["return_all"] == "false" else None
        if fm["verbose"] != "omitted":
            kw["verbose"] = {"false": False, "none": None, "true": True}[fm["verbose"]]
        if case["k"] is not None or fm["max_conditions"] == "none":
            kw["max_conditions"] = case["k"]
        import contextlib
        import io

        with contextlib.redirect_stderr(io.StringIO()):      # verbose=True draws a tqdm bar on stderr
            if fm["call"] == "keyword":
                res = get_conditional_independencies(graph=graph, **kw)
            else:
                res = get_conditional_independencies(graph, **kw)
        order = None
        if case["policy"] == "topological":
            order = [_vint(v) for v in graph.topological_sort()]
        return res, order, None
    except Exception as e:  # noqa: BLE001 - whatever the class (NodeNotFound, AttributeError, ...): an outcome of the real code
        return None, None, type(e).__name__


def _canon_row(case, left, right, conds, order):
    """what is compared with the model (see ASSUMPTIONS): exact sets only where the Python result is determined"""
    if case["all"] and case["policy"] == "len_lex" and case.get("names") != "cf":
        # (counterfactual-variable nodes: _len_lex joins the BASE names, so two worlds of one base tie and the kept set is
        # whichever comes first in hash order - sizes only)
        return [str(left), str(right), [str(c) for c in conds]]
    if case["all"] and case["policy"] == "topological":
        return [str(left), str(right), str(len(conds)), str(sum(order.index(c) for c in conds))]
    return [str(left), str(right), str(len(conds))]


def _truth_table(g, k=None):
    """for every unordered pair: the list of separating sets (sorted tuples) of size <= k, by the path oracle"""
    V = sorted(G.all_nodes(g))
    tab = {}
    for a, b in itt.combinations(V, 2):
        rest = [v for v in V if v not in (a, b)]
        seps = []
        for r in range(len(rest) + 1 if k is None else min(k, len(rest)) + 1):
            for Cs in itt.combinations(rest, r):
                if O.d_separated(g, a, b, list(Cs)):
                    seps.append(Cs)
        tab[(a, b)] = seps
    return tab


def run_python(case):
    if case["kind"] == "powerset":
        return _run_powerset(case)
    g = case["g"]
    V = sorted(G.all_nodes(g))
    C4._CUR["names"] = case.get("names")
    res, order, err = _call_ci(case)
    tags = {"kind": "ci", "n_nodes": len(V), "k": str(case["k"]), "policy": case["policy"], "all": case["all"],
            "outcome": "err:" + err.split()[0] if err else "ok", "names": case.get("names", "plain"),
            "shape": case.get("shape", "random"),
            "k_vs_n": "none" if case["k"] is None else ("n-2" if case["k"] == len(V) - 2 else "n-3" if case["k"] == len(V) - 3
                                                       else ">=n-1" if case["k"] >= len(V) - 1 else "small")}
    tags.update(F.tags(_forms(case)))
    acyclic = O.is_acyclic(g) and all(u != v for u, v in g["di"] + g["bi"])
    if err:
        fail = f"get_conditional_independencies raised {err} on an ADMG" if acyclic else None
        return {"out": ["err"], "fail": fail, "nontrivial": False, "tags": tags}
    rows = []
    listed = []
    for j in res:
        left, right, conds = _vint(j.left), _vint(j.right), [_vint(c) for c in j.conditions]
        listed.append((left, right, tuple(conds), j))
        rows.append(_canon_row(case, left, right, conds, order))
    out = ["ok", C.as_set(rows)]
    fail = None
    nontrivial = False
    if acyclic:
        k = case["k"]
        tab = _truth_table(g, k)
        within = {p: [s for s in seps if k is None or len(s) <= k] for p, seps in tab.items()}
        mins = {p: min(len(s) for s in seps) for p, seps in within.items() if seps}
        tags["max_min_sep"] = max(mins.values(), default=-1)              # largest minimum separator (within the limit)
        tags["n_min_seps"] = min(max((sum(1 for s in within[p] if len(s) == m) for p, m in mins.items()), default=0), 9)
        tags["disconnected"] = _n_components(g) > 1
        seen = {}
        for left, right, conds, j in listed:
            p = (left, right)
            if not (left < right) or p not in tab:
                fail = f"judgement ({left},{right}|{list(conds)}) is not an ordered pair of distinct nodes"
            elif not C4._is_canonical(j) or list(conds) != sorted(set(conds)):
                fail = f"judgement ({left},{right}|{list(conds)}) is not canonical"
            elif set(conds) & {left, right} or not set(conds) <= set(V):
                fail = f"listed judgement ({left},{right}|{list(conds)}) conditions on an endpoint or on a node that is not in the graph"
            elif not j.separated or not O.d_separated(g, left, right, list(conds)):
                fail = f"listed judgement ({left},{right}|{list(conds)}) is not a true separation"
            elif k is not None and len(conds) > k:
                fail = f"listed judgement ({left},{right}|{list(conds)}) exceeds the size limit {k}"
            elif len(conds) != min(len(s) for s in within[p]):
                fail = (f"listed judgement ({left},{right}|{list(conds)}) is not of minimum size "
                        f"(a separating set of size {min(len(s) for s in within[p])} exists)")
            elif p in seen:
                fail = f"pair ({left},{right}) is listed twice"
            seen[p] = conds
            if fail:
                break
        if fail is None:
            for p, seps in within.items():
                if seps and p not in seen:
                    fail = f"pair {p} is separable by {list(seps[0])} (within the limit {k}) but is not listed"
                    break
        nontrivial = len(V) >= 3 and any(within.values()) and not all(within.values())
        tags["n_listed"] = min(len(listed), 8)
    return {"out": out, "fail": fail, "nontrivial": nontrivial, "tags": tags}


def _n_components(g):
    V = G.all_nodes(g)
    comp = {v: v for v in V}

    def find(v):
        while comp[v] != v:
            v = comp[v]
        return v
    for u, v in g["di"] + g["bi"]:
        comp[find(u)] = find(v)
    return len({find(v) for v in V})


def _run_powerset(case):
    from y0.util.combinatorics import powerset

    s, start, stop = case["s"], case["start"], case["stop"]
    fm = _forms(case)
    it = F.container(s, fm["iterable"])
    kw = {}
    if fm.get("start") != "omitted":
        kw["start"] = start
    if fm.get("stop") != "omitted":
        kw["stop"] = stop
    try:
        if fm["call"] == "keyword":
            got = [list(x) for x in powerset(iterable=it, **kw)]
        elif "start" in kw and "stop" in kw:
            got = [list(x) for x in powerset(it, start, stop)]
        else:
            got = [list(x) for x in powerset(it, **kw)]
    except Exception as e:  # noqa: BLE001 - powerset is total on finite iterables and integer bounds
        return {"out": ["err"], "fail": f"powerset raised {type(e).__name__}: {str(e)[:100]}", "nontrivial": False,
                "tags": dict({"kind": "powerset", "outcome": "err"}, **F.tags(fm))}
    n = len(s)
    hi = n if stop is None else min(stop - 1, n)
    want = [list(c) for r in range(start, hi + 1) for c in itt.combinations(s, r)]
    # 'successively longer combinations of the source': sizes never decrease (the first hit of d_separations is then of minimum
    # size), every combination of each admissible size exactly once.  The order INSIDE one size is not part of any contract
    # (it is compared with the model by the correspondence only).
    fail = None
    if [len(c) for c in got] != [len(c) for c in want]:
        fail = f"powerset({s}, {start}, {stop}) yields sizes {[len(c) for c in got]}, documented: every combination of sizes {start}..{hi}, shorter first"
    elif sorted(sorted(c) for c in got) != sorted(sorted(c) for c in want):
        fail = f"powerset({s}, {start}, {stop}) = {got} is not the set of all combinations of sizes {start}..{hi}"
    return {"out": ["ok", [[str(x) for x in c] for c in got]], "fail": fail, "nontrivial": n >= 2,
            "tags": dict({"kind": "powerset", "n": n, "stop": str(stop)}, **F.tags(fm))}


# ------------------------------------------------------------------------------------------ model side

def request(case):
    if case["kind"] == "powerset":
        return C.enc(["sep", "powerset", case["s"], case["start"], "none" if case["stop"] is None else case["stop"]])
    g = case["g"]
    gs = C.graph_sexp(g["nodes"], g["di"], g["bi"])
    return C.enc(["sep", "get_ci", gs, case["policy"] == "topological", "none" if case["k"] is None else case["k"], case["all"]])


def canon_model(case, rep):
    if rep[0] == "err":
        return ["err"]
    if case["kind"] == "powerset":
        return ["ok", [list(c) for c in rep[1]]]
    order = None
    if case["policy"] == "topological" and case["all"]:
        order = _model_topo_order(case)
    rows = []
    for j in rep[1]:
        _, sep, left, right, conds = j
        rows.append(_canon_row(case, int(left), int(right), [int(c) for c in conds], order))
    return ["ok", C.as_set(rows)]


def _model_topo_order(case):
    """the sums of the topological policy are computed by the harness with the real graph's order on both sides"""
    try:
        g = case["g"]
        C4._CUR["names"] = case.get("names")
        graph, _ = C4.build_graph(g, _forms(case)["ctor"], len(g["di"]) * 13 + len(g["bi"]), case.get("names"))
        return [_vint(v) for v in graph.topological_sort()]
    except Exception:
        return []


def shrink(case):
    if case["kind"] != "ci":
        return
    for g in G.shrink_graph(case["g"]):
        c = dict(case)
        c["g"] = g
        yield c
    if case["all"]:
        c = dict(case)
        c["all"] = False
        yield c
    if case["k"] is not None and case["k"] > 0:
        c = dict(case)
        c["k"] = case["k"] - 1
        yield c


def finding_key(case, res):
    c = {k: case[k] for k in ("kind", "g", "k", "policy", "all", "s", "start", "stop") if k in case}
    if "g" in c:
        c["g"] = {"nodes": sorted(G.all_nodes(c["g"])), "di": sorted(c["g"]["di"]), "bi": sorted(sorted(e) for e in c["g"]["bi"])}
    return json.dumps(c, sort_keys=True)


MANIFEST = {
    "text": ("Proof: 18 Lean theorems about the executable model of d_separations / minimal / the two built-in policies / powerset / "
             "get_conditional_independencies (the code after the fix of defect F6), parametric in ANY separation test that is "
             "symmetric in (a, b) and depends on C only as a set, for every duplicate-free vertex order, every size limit (none or "
             "k), both policies, return_all on or off — whenever the call returns R: every listed judgement passes the test, is "
             "canonical, is about two vertices left < right with an admissible conditioning set of at most k other vertices "
             "(ci_sound); every pair that some admissible set within the limit separates is listed (ci_complete); no two listed "
             "judgements share (left, right) (ci_unique); no separating set of any size is smaller than the listed one "
             "(ci_minimum); the call returns for _len_lex always and for the topological policy when every vertex occurs in the "
             "order (ci_total), hence on every ADMG (ci_total_admg). ci_exact instantiates all of this with the are_d_separated model and, via property C04's "
             "dsep_iff_dsep_canonical, states it for true d-separation in the canonical latent DAG. Tied to the code on every "
             "run by differential correspondence (results, and powerset with its order); an independent brute-force oracle over "
             "all pairs and all subsets (path enumeration in the canonical latent DAG) searches for a failing input."),
    "note": ("Trusted: Lean kernel; axioms propext/Classical.choice/Quot.sound; hand-written model tied to the code by sampling; "
             "Python set iteration order (hash order) is modelled as sorted order — the theorems hold for every order, the "
             "correspondence compares exactly only what the Python result determines."),
    "technique": "Lean 4 theorems (list reasoning over combinations/powerset/first-hit search/min-by-key, parametric in the test) + differential correspondence + brute-force oracle over all pairs and subsets",
}
