"""C10 — canonicalisation never changes what an expression means.

Correspondence: y0.mutate.canonicalize / canonical_expr_equal on RAW expression objects vs the Lean model
(Y0.Model.Canon); plus the specification's `den` (Y0.Spec.Sem) evaluated by the Lean driver vs the Python oracle
evaluator (harness/oracles/expr_eval.py) on the same concrete environment.
Oracle (from the property statement): exact-rational evaluation of e and canonicalize(e, ordering) on random positive
environments (mixtures of product measures over all counterfactual variables, cardinalities 2-3) at random valuations;
for canonical_expr_equal(a, b) == True, evaluation of a and b.
"""
from __future__ import annotations

import json
import os
import random

from .. import common as C
from .. import enc_expr as X
from .. import forms as F
from .. import gen_expr as GE

PROP = "C10"
RULE = ("(a) structured stream over a common pool of factors (harness/gen_expr.py struct_*): Sums over parent-less joint "
        "leaves in every range mode (equal / superset / subset / partial / miss) x {P, PP[pi1], PP[pi2]} x wrapper "
        "(bare, product, numerator, denominator, outer sum), interventional and starred children, leaves that only appear "
        "after canonicalising the summand; compound fractions whose division cross-multiplies into x/x, x/1, 1/x or leaves "
        "shared / repeated factors; products that only appear after canonicalisation; first-child ties; sibling factors "
        "differing in one deep position; pairs of independent presentations of the same ratio for canonical_expr_equal. "
        "(b) type-directed random expressions (depth<=5, pool of 3-5 names; joint / conditional / interventional / "
        "population-tagged leaves, -X/+X values; sums whose ranges cover / contain / are contained in / overlap / miss the "
        "children; fractions of fractions; One/Zero inside products and sums; raw dataclass objects, i.e. unsorted and "
        "nested products) x orderings (None, shuffled covering, non-covering) for canonicalize; pairs (expression, "
        "presentation-shuffle / independent / mutated expression) for canonical_expr_equal; `den` cross-check of the Lean "
        "specification against the Python evaluator. 70% of the random stream is WellScoped (the property's quantifier, "
        "judged by the oracle), 30% is wild (multi-world leaves, duplicate names, bound +X, Q-factors: judged when inside the "
        "widened class WellScopedW, else correspondence only). "
        "(c) multi-world joints (gen_expr.struct_mw_*, appended after the streams above, which keep their distribution): "
        "parent-less joint leaves whose children share a base variable across worlds / value marks (P(Y@+X, Y@-X, Z), P(Y, +Y)) "
        "under Sums in every relation between the ranges and the duplicated / single bases (dup / single / both / all / "
        "superset / partial / miss) x {P, PP[pi1]} x wrapper, leaves that only appear after canonicalising the summand, bare "
        "multi-world leaves in products and fractions, multi-world leaves with distinct bases (the marginalisation must still "
        "happen). They are INSIDE the quantifier judged by the oracle (WellScopedW) and evaluated on generic positive families "
        "and on random functional SCMs (shared noise across worlds) under the DenNZ guard. "
        "(d) size and ordering shapes (appended): wide WellScoped leaves (4-6 children, 3-4 parents, 3-4 interventions with "
        "mixed stars, 6-9 names) under Sums in every range mode and in products / fractions; orderings that cover only the "
        "event names (subscript-only / range-only names omitted: admissible, the canonicaliser looks up event variables "
        "only), orderings with counterfactual / value-marked / Intervention elements (admissible: Sequence[str | Variable], "
        "what canonical_expr_equal itself passes), orderings with repeated elements (malformed: raises or is right). "
        "The branches reached on the real canonicaliser are counted as hit_* tags. A case is non-trivial when the "
        "expression has depth>=3 and at least one Sum or Fraction and its canonical form differs structurally from the input.")
ASSUMPTIONS = [
    "argument FORMS (harness/forms.py; chosen deterministically per case, stored in the case, tagged form_*): the ordering handed to canonicalize as list / tuple (the declared Sequence) and as set / frozenset / dict keys / generator / iterator / map (what dsl.ensure_ordering, its consumer, accepts: Iterable), its plain variables as Variable objects, as str names, or mixed; positional or by keyword; no ordering as omitted / None / ordering=None; canonical_expr_equal positional or by keyword (left=, right=). The model takes a list of variables: independence of the form is a runtime clause decided by correspondence + oracle",
    "canon_den is proved for WellScoped expressions (single-world leaves with pairwise distinct names, intervened names disjoint from the leaf's own variables, no +X bound by an enclosing Sum, no Q-factor) and orderings covering the event names, under ProbFamily env and non-vanishing denominators (DenNonzero, implied by Env.Positive for expressions without Zero() in a denominator)",
    "multi-world joints: canon_den_mw / canon_total_mw / canonical_equal_sound_mw (Props/C10MW.lean) prove the same for the WIDENED class WellScopedW - nothing is required of the worlds or names of a leaf (children in different worlds, several children on one base variable); an unstarred subscript -X must not name a variable of its own leaf that a Sum of the expression binds (the Sum would bind subscript and event value together), no +X event value bound by a Sum, no Q-factor - for every ProbFamily (a measure on ALL counterfactual variables), in particular every well-formed functional SCM (canon_den_mw_fscm). On this class DenNZ is NOT implied by positivity (P(Y@+X, +Y@-X) vanishes at x*=x, y*!=y): it stays a hypothesis, and the oracle decides it by enumeration (expr_eval.den_nonzero) before comparing values. The model is that of the code after `fix:` d517ad1 (Sum.simplify returns the sum unchanged when several children share a base variable)",
    "outside WellScopedW (correspondence only): a Sum binding an unstarred subscript together with the event value of the same leaf (Sum[X](P(Y@-X, X))), +X values bound by a Sum, Q-factors",
    "the Lean theorems are about the hand-written model Y0.Model.Canon/Dsl; the tie to canonicalize_expr.py/dsl.py is this run's correspondence check (sampling)",
    "Python set/frozenset iteration order is modelled as sorted order; populations are plain variables; Sum ranges are plain variables (what Sum.__post_init__ and the builders produce)",
    "the oracle decides semantic equality by identity testing on 2 generic positive environments (drawn per case from a per-process pool of 12 cached mixture-of-products environments, a separate distribution per population and per world) x 3 random valuations (exact rationals), and for expressions that are only in the widened class additionally on 1 random functional SCM per case (expr_eval.FscmEnv: random mechanisms, exogenous noise shared by all worlds) x 3 valuations, comparing only where DenNZ holds: it cannot flag a correct rewrite, it can miss an incorrect one with small probability",
]
LEANCHECK_MODULES = ["Y0.Model.Dsl", "Y0.Model.Canon", "Y0.Props.C10"]
EXHAUSTIVE = {"quick": False, "thorough": False}

V = GE.plain


def P_(children, parents=()):
    return ["P", [V(c) if isinstance(c, int) else c for c in children], [V(p) if isinstance(p, int) else p for p in parents]]


CORPUS = [
    # Sum.simplify superset branch (found by this check on the pinned tree): Sum[A,B] P(A) -> One(), true value |B|
    {"kind": "canon", "e": ["sum", [V(0), V(1)], P_([0])], "ordering": None},
    {"kind": "canon", "e": ["sum", [V(0), V(1), V(2)], P_([0, 1])], "ordering": None},
    # partial overlap / subset / miss
    {"kind": "canon", "e": ["sum", [V(0), V(2)], P_([0, 1])], "ordering": None},
    {"kind": "canon", "e": ["sum", [V(0)], P_([0, 1])], "ordering": None},
    {"kind": "canon", "e": ["sum", [V(2)], P_([0, 1])], "ordering": None},
    {"kind": "canon", "e": ["sum", [V(0)], P_([0], [1])], "ordering": None},
    # fractions of fractions, One/Zero
    {"kind": "canon", "e": ["frac", P_([0]), ["frac", ["prod", P_([0]), P_([1])], P_([1])]], "ordering": None},
    {"kind": "canon", "e": ["frac", P_([0]), ["frac", "one", P_([1])]], "ordering": None},
    {"kind": "canon", "e": ["prod", P_([0]), ["frac", ["prod", P_([1]), P_([2])], "one"]], "ordering": None},
    {"kind": "canon", "e": ["prod", "one", "zero", P_([0])], "ordering": None},
    {"kind": "canon", "e": ["frac", ["sum", [V(1)], P_([0, 1])], ["sum", [V(0), V(1)], P_([0, 1])]], "ordering": None},
    # interventional + population
    {"kind": "canon", "e": ["sum", [V(1)], ["prod", ["P", [["v", 2, "n", "0", [[0, "m"]]]], []],
                                           ["PP", V(1001), [V(1)], [V(0)]]]], "ordering": [V(2), V(1), V(0)]},
    # F4 witness: P(A|B)*P(A|C) vs P(A|C)*P(A|B) must be declared equal (and are)
    {"kind": "equal", "a": ["prod", P_([0], [1]), P_([0], [2])], "b": ["prod", P_([0], [2]), P_([0], [1])]},
    {"kind": "equal", "a": ["frac", P_([0, 1]), P_([1])], "b": P_([0], [1])},
    # non-covering ordering -> KeyError
    {"kind": "canon", "e": P_([0, 1]), "ordering": [V(0)]},
    # den cross-check
    {"kind": "den", "e": ["sum", [V(1)], ["prod", ["P", [["v", 2, "n", "0", [[0, "m"]]]], [["v", 1, "n", "0", [[0, "m"]]]]],
                                          ["PP", V(1001), [V(1)], [V(0)]]]], "seed": 5},
]


def _load_corpus():
    """corpus/Cxx/*.json (witnesses and examples; falls back to the inline list)"""
    d = C.VERIF / "corpus" / PROP
    files = sorted(d.glob("*.json")) if d.is_dir() else []
    if not files:
        return [dict(c) for c in CORPUS]
    return [json.loads(f.read_text()) for f in files]


def _rand_ordering_choice(rng, e, n_names):
    o = rng.random()
    if o < 0.45:
        return None
    if o < 0.93:
        return GE.rand_ordering(rng, e, n_names, covering=True)
    return GE.rand_ordering(rng, e, n_names, covering=False)


def structured_cases(rng: random.Random, n: int):
    """pool-based structured stream (see gen_expr: compound fractions cancelling to x/x, x/1, 1/x; products that appear
    after canonicalisation; first-child ties; shared names across worlds; Sums over (population-tagged / interventional)
    joint leaves with every range mode, systematically)"""
    out = []
    # systematic: every range mode x {P, PP[pi1], PP[pi2]} x wrapper, a few instances each
    for mode in GE.SUM_MODES:
        for pop in (False, GE.POPS[0], GE.POPS[1]):
            for wrap in ("none", "prod", "num", "den", "sum"):
                for _ in range(max(1, n // 400)):
                    nn = rng.choice([3, 4, 4, 5])
                    e, lab = GE.struct_sum_leaf(rng, nn, mode=mode, pop=pop, wrap=wrap)
                    out.append({"kind": "canon", "e": e, "ordering": _rand_ordering_choice(rng, e, nn),
                                "seed": rng.randrange(1 << 30), "gen": lab})
    while len(out) < n:
        nn = rng.choice([3, 4, 4, 5])
        r = rng.random()
        if r < 0.7:
            e, lab = GE.struct_expr(rng, nn)
            out.append({"kind": "canon", "e": e, "ordering": _rand_ordering_choice(rng, e, nn),
                        "seed": rng.randrange(1 << 30), "gen": lab})
        elif r < 0.85:
            a, b, lab = GE.struct_ratio_pair(rng, nn)
            out.append({"kind": "equal", "a": a, "b": b, "seed": rng.randrange(1 << 30), "gen": "pair:" + lab})
        elif r < 0.95:
            e, lab = GE.struct_expr(rng, nn)
            out.append({"kind": "equal", "a": e, "b": GE.present_shuffle(rng, e), "seed": rng.randrange(1 << 30),
                        "gen": "shuffle:" + lab})
        else:
            e, lab = GE.struct_expr(rng, nn)
            out.append({"kind": "den", "e": e, "seed": rng.randrange(1 << 30), "gen": lab})
    return out


def mw_cases(rng: random.Random, n: int):
    """multi-world joints (gen_expr.struct_mw_*): leaves whose children share a base variable across worlds / value marks,
    under Sums in every relation between the ranges and the duplicated / single bases, systematically x {P, PP} x
    wrapper; bare multi-world leaves in products and fractions; multi-world leaves with distinct bases"""
    out = []
    for mode in GE.MW_MODES:
        for pop in (False, GE.POPS[0]):
            for wrap in ("none", "prod", "num", "den", "sum"):
                for _ in range(max(1, n // 350)):
                    nn = rng.choice([3, 4, 4, 5])
                    e, lab = GE.struct_mw_sum(rng, nn, mode=mode, pop=pop, wrap=wrap)
                    out.append({"kind": "canon", "e": e, "ordering": _rand_ordering_choice(rng, e, nn),
                                "seed": rng.randrange(1 << 30), "gen": lab})
    while len(out) < n:
        nn = rng.choice([3, 4, 4, 5])
        e, lab = GE.struct_mw_expr(rng, nn)
        r = rng.random()
        if r < 0.78:
            out.append({"kind": "canon", "e": e, "ordering": _rand_ordering_choice(rng, e, nn),
                        "seed": rng.randrange(1 << 30), "gen": lab})
        elif r < 0.88:
            out.append({"kind": "equal", "a": e, "b": GE.present_shuffle(rng, e), "seed": rng.randrange(1 << 30),
                        "gen": "shuffle:" + lab})
        elif r < 0.94:
            out.append({"kind": "den", "e": e, "seed": rng.randrange(1 << 30), "gen": lab})
        else:
            out.append({"kind": "wsw", "e": e, "gen": lab})
    return out


def _ordering_shape_choice(rng, e, nn):
    """(ordering, kind): the old shapes (None / covering list of plain variables) 40%, the new shapes 60%"""
    if rng.random() < 0.4:
        return _rand_ordering_choice(rng, e, nn), "plain"
    kind = rng.choice(GE.ORDERING_SHAPES)
    return GE.rand_ordering_shape(rng, e, kind, nn), kind


def shape_cases(rng: random.Random, n: int):
    """(d) size and ordering shapes: wide WellScoped leaves (4-6 children, 3-4 parents, 3-4 interventions with mixed stars,
    6-9 names) under Sums in every range mode / in products and fractions; orderings that cover only the event names,
    contain counterfactual / value-marked / Intervention elements, or repeat elements (malformed: 'raises or is right')"""
    out = []
    while len(out) < n:
        k = rng.random()
        if k < 0.55:
            e, lab = GE.struct_wide_expr(rng)
            nn = max(GE.all_names(e)) + 1
        elif k < 0.8:
            nn = rng.choice([3, 4, 4, 5])
            e, lab = GE.struct_expr(rng, nn)
        else:
            nn = rng.choice([3, 4, 4, 5])
            e, lab = GE.struct_mw_expr(rng, nn)
            nn += 3
        o, kind = _ordering_shape_choice(rng, e, nn)
        r = rng.random()
        if r < 0.85:
            out.append({"kind": "canon", "e": e, "ordering": o, "ordering_kind": kind, "seed": rng.randrange(1 << 30),
                        "gen": lab})
        elif r < 0.95:
            out.append({"kind": "equal", "a": e, "b": GE.present_shuffle(rng, e), "seed": rng.randrange(1 << 30),
                        "gen": "shuffle:" + lab})
        else:
            out.append({"kind": "den", "e": e, "seed": rng.randrange(1 << 30), "gen": lab})
    return out


def cases(rng: random.Random, tier: str):
    return [F.assign(c, _slots(c)) for c in _cases(rng, tier)]


def _cases(rng: random.Random, tier: str):
    if os.environ.get("VERIF_EXPR_FAST_SEARCH") == "1":
        tier = "quick"      # tools/mutate_expr.py only: keeps the runner's extended search at the size of the quick stream
    out = _load_corpus()
    out += structured_cases(rng, 3000 if tier == "quick" else 15000)
    out += random_cases(rng, 5000 if tier == "quick" else 65000)
    out += mw_cases(rng, 1000 if tier == "quick" else 8000)     # appended: the streams above keep their distribution
    out += shape_cases(rng, 900 if tier == "quick" else 7000)
    return out


def random_cases(rng: random.Random, n: int):
    out = []
    for i in range(n):
        ws = rng.random() < 0.7
        cfg = GE.GenCfg(n_names=rng.choice([3, 4, 4, 5]), max_depth=rng.choice([2, 3, 4, 4, 5, 5]), well_scoped=ws,
                        allow_q=not ws)
        e = GE.gen_expr(rng, cfg)
        r = rng.random()
        if r < 0.72:
            out.append({"kind": "canon", "e": e, "ordering": _rand_ordering_choice(rng, e, cfg.n_names),
                        "seed": rng.randrange(1 << 30)})
        elif r < 0.9:
            m = rng.random()
            if m < 0.5:
                b = GE.present_shuffle(rng, e)
            elif m < 0.8:
                b = _mutate(rng, e, cfg)
            else:
                b = GE.gen_expr(rng, cfg)
            out.append({"kind": "equal", "a": e, "b": b, "seed": rng.randrange(1 << 30)})
        elif r < 0.96:
            out.append({"kind": "den", "e": e, "seed": rng.randrange(1 << 30)})
        elif r < 0.98:
            out.append({"kind": "ws", "e": e})
        else:
            out.append({"kind": "wsw", "e": e})
    return out


def _mutate(rng, e, cfg):
    """a small semantic or non-semantic change somewhere in the expression"""
    subs = [t for t in GE.subterms(e)]
    tgt = rng.choice(subs)
    repl = GE.gen_expr(rng, GE.GenCfg(n_names=cfg.n_names, max_depth=2, well_scoped=cfg.well_scoped))

    def go(t):
        if t is tgt:
            return repl
        if isinstance(t, list) and t[0] == "prod":
            return ["prod"] + [go(x) for x in t[1:]]
        if isinstance(t, list) and t[0] == "sum":
            return ["sum", t[1], go(t[2])]
        if isinstance(t, list) and t[0] == "frac":
            d = go(t[2])
            return ["frac", go(t[1]), "one" if d == "zero" else d]
        return t
    return go(e)


# ------------------------------------------------------------------------------------------ real code

ERRS = (KeyError, TypeError, ZeroDivisionError, ValueError, AttributeError, IndexError)


def _in_quantifier(e, ordering):
    """is (e, ordering) inside the quantifier of C10: well-scoped, denominators free of Zero(), ordering covering.
    "narrow": single-world leaves with distinct names (WellScoped: DenNZ follows from positivity of the environment);
    "wide": WellScopedW only (multi-world joints, shared base variables): a denominator can vanish at a conflicting
    valuation even in a positive family, so the oracle checks DenNZ itself (expr_eval.den_nonzero); False: outside."""
    if not (GE.well_scoped_mw(e) and GE.zero_free_denominators(e)):
        return False
    if ordering is not None and not GE.event_names(e) <= {int(v[1]) for v in ordering}:
        return False
    return "narrow" if GE.well_scoped(e) else "wide"


def _identity(E, a, b, rng, inq, both=False):
    """the oracle: narrow class = 2 generic positive families x 3 valuations; wide class = the same under the DenNZ guard
    plus one random FUNCTIONAL SCM per population (the semantics of multi-world joints)"""
    if inq == "wide":
        return E.identity_test(a, b, rng, n_envs=2, n_sigma=3, shared=True, guard_nz="both" if both else True, n_fscm=1)
    return E.identity_test(a, b, rng, n_envs=2, n_sigma=3, shared=True)


def _tags(e, extra=None, case=None, feats=True):
    t = {"depth": GE.depth(e), "well_scoped": GE.well_scoped(e)}
    for k, v in GE.constructors(e).items():
        t["has_" + str(k)] = True
    if extra:
        t.update(extra)
    if case is not None:
        t["gen"] = case.get("gen", "random").split(":")[0]
        if feats:
            for f in GE.features(e, case.get("ordering")):
                t["hit_" + f] = True
    return t


def _slots(case):
    if case["kind"] == "canon":
        return F.canonicalize_slots(case["ordering"])
    if case["kind"] == "equal":
        return {"call": ("positional", "keyword")}
    return {}


def _forms(case):
    return F.forms_of(case, _slots(case))


def run_python(case):
    from y0.mutate import canonical_expr_equal, canonicalize

    from ..oracles import expr_eval as E

    kind = case["kind"]
    rng = random.Random(case.get("seed", 0))
    if kind == "canon":
        enc = case["e"]
        e = X.dec_expr(enc)
        ordering = None if case["ordering"] is None else [X.dec_var(v) for v in case["ordering"]]
        fail = None
        inq = _in_quantifier(enc, case["ordering"])
        try:
            fm = _forms(case)
            c = F.call_canonicalize(canonicalize, e, ordering, fm)
            cenc = X.enc_expr(c)
            out = ["ok", X.to_str_tree(cenc)]
        except ERRS as ex:
            c = None
            out = ["err"]
            if case.get("ordering_kind") == "dups":
                pass      # an ordering with repeated elements is malformed: raising is fine, a returned form is judged
            elif inq == "narrow":
                fail = f"canonicalize raised {type(ex).__name__} on a well-scoped expression with a covering ordering"
            elif inq == "wide" and not isinstance(ex, ZeroDivisionError):
                # (a denominator of a wide expression may canonicalise to Zero only when DenNZ fails: not judged)
                fail = f"canonicalize raised {type(ex).__name__} on a well-scoped multi-world expression with a covering ordering"
        if c is not None and inq:
            w = _identity(E, e, c, rng, inq)
            if w is not None:
                fail = f"canonical form {c} denotes a different function than {e}: {json.dumps(w, sort_keys=True)}"
        nontrivial = bool(c is not None and GE.depth(enc) >= 3 and ("sum" in GE.constructors(enc) or "frac" in GE.constructors(enc))
                          and X.to_str_tree(enc) != out[1])
        return {"out": out, "fail": fail, "nontrivial": nontrivial,
                "tags": _tags(enc, {"kind": kind, "outcome": out[0], "judged": bool(inq), "judged_wide": inq == "wide",
                                    "shared_base": GE.has_shared_base(enc), "multiworld": GE.is_multiworld(enc),
                                    "ordering_kind": case.get("ordering_kind", "plain" if case["ordering"] is not None else "none"),
                                    "leaf_children>=4": GE.leaf_sizes(enc)[0] >= 4, "leaf_parents>=3": GE.leaf_sizes(enc)[1] >= 3,
                                    "leaf_ivs>=3": GE.leaf_sizes(enc)[2] >= 3,
                                    "ordering": "none" if case["ordering"] is None else "explicit",
                                    **F.tags(_forms(case))}, case)}
    if kind == "equal":
        a, b = X.dec_expr(case["a"]), X.dec_expr(case["b"])
        fail = None
        try:
            r = bool(canonical_expr_equal(left=a, right=b) if _forms(case)["call"] == "keyword" else canonical_expr_equal(a, b))
            out = ["ok", "true" if r else "false"]
        except ERRS:
            r = None
            out = ["err"]
        qa, qb = _in_quantifier(case["a"], None), _in_quantifier(case["b"], None)
        if r and qa and qb:
            w = _identity(E, a, b, rng, "wide" if "wide" in (qa, qb) else "narrow", both=True)
            if w is not None:
                fail = f"canonical_expr_equal({a}, {b}) is True but the expressions differ: {json.dumps(w, sort_keys=True)}"
        return {"out": out, "fail": fail, "nontrivial": bool(r) and case["a"] != case["b"],
                "tags": _tags(case["a"], {"kind": kind, "outcome": out[0] if r is None else out[1], **F.tags(_forms(case))}, case)}
    if kind == "ws":   # the quantifier predicate itself: Python mirror vs Lean `WellScoped`
        return {"out": ["ok", "true" if GE.well_scoped(case["e"]) else "false"], "fail": None, "nontrivial": False,
                "tags": _tags(case["e"], {"kind": kind})}
    if kind == "wsw":  # the widened quantifier: Python mirror vs Lean `WellScopedW`
        return {"out": ["ok", "true" if GE.well_scoped_mw(case["e"]) else "false"], "fail": None, "nontrivial": False,
                "tags": _tags(case["e"], {"kind": kind})}
    if kind == "den":
        val, _ = _den_python(case)
        return {"out": ["ok", [str(val.numerator), str(val.denominator)]], "fail": None, "nontrivial": GE.depth(case["e"]) >= 2,
                "tags": _tags(case["e"], {"kind": kind})}
    raise ValueError(kind)


_DEN_CACHE: dict = {}


def _den_python(case):
    """evaluate the expression with the oracle evaluator on a MixtureEnv; returns (value, request line)"""
    from ..oracles import expr_eval as E
    from ..gen_graph import name_to_int, vname

    key = json.dumps(case, sort_keys=True)
    if key in _DEN_CACHE:
        return _DEN_CACHE[key]
    rng = random.Random(case["seed"])
    enc = case["e"]
    e = X.dec_expr(enc)
    names = sorted(vname(n) for n in GE.all_names(enc))
    cards = {n: rng.randint(2, 3) for n in names}
    env = E.MixtureEnv(case["seed"], cards, n_comp=2)
    sigma = E.random_valuation(rng, env, names)
    sigma_star = E.random_valuation(rng, env, names)
    val = E.evaluate(e, env, sigma, sigma_star)
    envs = E.lean_env_sexp(env, name_to_int, names)
    req = C.enc(["expr", "den", enc, envs, [[name_to_int(n), v] for n, v in sigma.items()],
                 [[name_to_int(n), v] for n, v in sigma_star.items()]])
    _DEN_CACHE[key] = (val, req)
    return val, req


# ------------------------------------------------------------------------------------------ model side

def enc_ordering(o):
    return "none" if o is None else ["some"] + list(o)


def request(case):
    kind = case["kind"]
    if kind == "canon":
        return C.enc(["expr", "canonicalize", case["e"], enc_ordering(case["ordering"])])
    if kind == "equal":
        return C.enc(["expr", "canonical_equal", case["a"], case["b"]])
    if kind == "ws":
        return C.enc(["expr", "well_scoped", case["e"]])
    if kind == "wsw":
        return C.enc(["expr", "well_scoped_mw", case["e"]])
    if kind == "den":
        if any(isinstance(t, list) and t[0] == "Q" for t in GE.subterms(case["e"])):
            return None
        return _den_python(case)[1]
    return None


def canon_model(case, rep):
    if rep[0] == "err":
        return ["err"]
    if rep[0] != "ok":
        return ["model-reply", rep]
    return ["ok", rep[1]]


def shrink(case):
    if case["kind"] == "canon":
        for s in GE.shrink_expr(case["e"]):
            c = dict(case)
            c["e"] = s
            yield c
        if case["ordering"] is not None:
            c = dict(case)
            c["ordering"] = None
            yield c
    elif case["kind"] == "equal":
        for k in ("a", "b"):
            for s in GE.shrink_expr(case[k]):
                c = dict(case)
                c[k] = s
                yield c


def finding_key(case, res):
    c = {k: case[k] for k in ("kind", "e", "ordering", "a", "b") if k in case}
    return json.dumps(GE.alpha_normalise(c), sort_keys=True)   # ("gen" labels are not part of the key)


MANIFEST = {
    "text": ("Proof (Lean 4) about the executable model of canonicalize_expr.py + dsl.py (Product.safe, Sum.safe/simplify, "
             "__mul__/__truediv__): canon_den - for every WellScoped expression (single-world leaves, any nesting of products, "
             "sums, fractions, One/Zero), every ordering covering its variables, every distribution family satisfying the "
             "probability laws and every valuation with non-vanishing denominators, the canonical form has the same denotation; "
             "canon_total - on such inputs canonicalisation returns an expression unless a denominator canonicalises to Zero(); "
             "canonical_equal_sound - canonically equal expressions are semantically equal; canon_den_mw / canon_total_mw / "
             "canonical_equal_sound_mw - the same three for the widened class WellScopedW whose leaves may be multi-world joints "
             "with several children on one base variable (P(Y@+X, Y@-X, Z)), for every distribution family on counterfactual "
             "variables and in particular every functional SCM (after the repair of Sum.simplify found through that class). Model tied to the Python on every "
             "run by differential testing on raw expression objects; the specification's denotation is cross-checked against "
             "the exact-rational oracle evaluator on shared concrete environments."),
    "note": ("Trusted: Lean kernel; the specification Y0/Spec/Sem.lean (den, ProbFamily); the hand-written model tied to the "
             "code by sampling. Outside the quantifier (and outside the theorems): a Sum that binds an unstarred subscript "
             "together with an event value of the same leaf, +X values bound by a Sum, Q-factors, Zero() inside denominators; "
             "on multi-world leaves non-vanishing denominators are a hypothesis (not implied by positivity)."),
    "technique": "Lean 4 theorems over the denotational semantics + differential correspondence with canonicalize() + exact-rational identity-testing oracle",
}
