"""C13 — DSL operators and rewrite helpers are identities of probability calculus.

Correspondence: a*b, a/b, marginalize, conditional, normalize_marginalize, Fraction.simplify, Sum.simplify,
chain_expand, fraction_expand, bayes_expand, contract, recursive_contract, has_markov_postcondition on RAW expression
objects vs the Lean models (Y0.Model.Dsl / Mutate).
Oracle (from the property statement): exact-rational evaluation of the result and of the mathematical operation applied
to the evaluated arguments, on random positive environments; chain expansion additionally must consist of
single-child factors.
"""
from __future__ import annotations

import itertools as itt
import json
import os
import random
from fractions import Fraction as Fr

from .. import common as C
from .. import enc_expr as X
from .. import forms as F
from .. import gen_expr as GE

PROP = "C13"
RULE = ("(a) systematic head (harness/gen_expr.py): every operator overload pair (8 x 8 classes incl. One, Zero, QFactor; * and "
        "/, >= 4 instances each over a common factor pool); Fraction.simplify on factor multisets with designed "
        "multiplicities (a factor more often / less often / equally often in numerator and denominator, single factors vs "
        "products, One over a fraction); Sum.simplify in every range mode (equal / superset / subset / partial / miss) x "
        "{P, PP[pi1], PP[pi2]} incl. interventional and starred children; marginalize / conditional / "
        "normalize_marginalize on structured expressions with ranges chosen relative to the expression (free, all free, "
        "none, bound by an inner Sum, intervention subscripts, fresh; plain / starred / counterfactual variables as range "
        "arguments); chain / fraction / bayes expansion of catalogue leaves (first-child ties, several worlds); "
        "recursive_contract on products of contractible fractions and structured factors. (b) random: pairs of generated "
        "expressions (C10 generator: depth<=4, all constructors, raw objects) through * and /; expressions x random variable "
        "sets through marginalize / conditional / normalize_marginalize; raw Fraction and Sum objects through simplify; joint "
        "and conditional leaves (plain, interventional, population-tagged; wild: repeated names, several worlds) through "
        "chain_expand (reorder on/off, ordering None / covering / not covering), fraction_expand, bayes_expand; fractions of "
        "joints (subset / equal / disjoint children, same or different populations) through contract and "
        "recursive_contract. (c) multi-world joints (gen_expr.struct_mw_*, appended): Sum.simplify on raw Sums over leaves whose "
        "children share a base variable across worlds / value marks (every relation between ranges and duplicated / single "
        "bases x {P, PP}); marginalize / normalize_marginalize / conditional of such leaves and sums; * and / between them; "
        "judged on the widened class for Sum.simplify and the operators that never look inside a leaf, on generic positive "
        "families plus one random functional SCM. (d) chain_expand with an explicit ordering that contains the (interventional / "
        "value-marked) children themselves, so that it succeeds; ranges with duplicate bases ([A, A@X], [A, -A]) and "
        "Intervention objects; every range / ordering argument in every legal FORM (bare Variable, bare str, str names, "
        "tuple / set / frozenset / generator / iterator). A case is non-trivial when both operands have depth >= 2 (operators) or the helper really "
        "rewrites its input.")
ASSUMPTIONS = [
    "argument FORMS (harness/forms.py; chosen deterministically per case, stored in the case, tagged form_*): the `ranges` of marginalize / conditional / normalize_marginalize (VariableHint) as list / tuple / set / frozenset / generator / iterator, as a bare Variable or a bare str for a single range, with plain variables written as str names (all or every other one); chain_expand's ordering in every container form with Variable / str / mixed elements. The models take a list of variables: independence of the form is a runtime clause decided by correspondence + oracle",
    "every operator/helper theorem is about the model in Y0.Model.Dsl/Mutate; the tie to dsl.py/chain.py/contract.py is this run's correspondence check (sampling)",
    "theorems that cancel a division (fraction_simplify_den, chain_expand_den, contract_den, bayes/fraction_expand_den, sum_simplify_den) assume ProbFamily env and non-vanishing of the cancelled quantity (implied by Env.Positive on well-scoped leaves)",
    "conditional: the specification normalises over the FREE EVENT variables of the expression. After `fix:` a54a0f5 both overloads skip intervention subscripts; Expression.conditional still also sums over the ranges of inner Sums (what remains of F11): open finding conditional:extra=bound, keyed by verified mechanism. conditional_den states what the code computes, conditional_den_spec_partial the specification under the hypothesis that the collected variables are the free ones, conditional_complement_exact_iff proves that hypothesis EQUIVALENT to 'every name bound by an inner Sum is one of the ranges or occurs free elsewhere in the expression', conditional_den_spec_observational is the specification on exactly those inputs (subscripts anywhere), conditional_den_spec_sumfree / conditional_den_probability the Sum-free / leaf corollaries (the full statement is visible as -- OPEN: conditional_den_spec in Props/C13.lean). The remaining defect is pinned by the last assertion of tests/test_algorithm/test_id_star.py::TestIDStar::test_idc_star and test_original_id_star.py::TestOriginalIDStar::test_idc_star (figure 9a: expected Sum[D,W](f) / Sum[D,W,Y](Sum[D,W](f)), compared through canonicalize with structural ==; the corrected code returns .../Sum[Y](Sum[D,W](f))): a fix that computes the free variables fails exactly these two tests (385/387)",
    "the oracle gives no opinion on conditional / bayes_expand when a `+X` value or an Intervention OBJECT occurs in event position (constants of the specification that get_base() / Probability.conditional treat differently)",
    "leaf-level helpers (chain/fraction/bayes expansion, contract) are proved for well-scoped leaves (pairwise distinct names, one world, intervened names disjoint from the leaf's variables); the oracle judges only those",
    "Sum.simplify (after `fix:` d517ad1), marginalize, normalize_marginalize, * and / are judged on the WIDENED class WellScopedW as well (multi-world joints, several children on one base variable): sum_simplify_den_mw needs the side conditions SumLeafOK only when the children have pairwise distinct base variables (any worlds), sum_simplify_shared_base: otherwise the sum is returned unchanged; mul_den / div_den / marginalize_den never had a scoping hypothesis. conditional / Fraction.simplify / expansions / contraction on multi-world leaves: correspondence only",
]
LEANCHECK_MODULES = ["Y0.Model.Dsl", "Y0.Model.Mutate", "Y0.Props.C13"]
EXHAUSTIVE = {"quick": False, "thorough": False}

V = GE.plain
OPS = ["mul", "div", "marginalize", "conditional", "normalize_marginalize", "frac_simplify", "sum_simplify",
       "chain_expand", "fraction_expand", "bayes_expand", "contract", "recursive_contract", "markov"]


def P_(children, parents=(), pop=None):
    c = [V(x) if isinstance(x, int) else x for x in children]
    p = [V(x) if isinstance(x, int) else x for x in parents]
    return ["P", c, p] if pop is None else ["PP", V(pop), c, p]


def cf(name, ivs, star="n"):
    return ["v", name, star, "0", [list(i) for i in ivs]]


CORPUS = [
    # F11: conditional normalises over bound Sum ranges
    {"op": "conditional", "a": ["sum", [V(0)], P_([0, 1, 2])], "r": [V(1)]},
    # witness of `fix:` a54a0f5: Expression.conditional summed over intervention subscripts of a product
    {"op": "conditional", "a": ["prod", P_([cf(1, [[0, "m"]]), cf(2, [[0, "m"]])]), P_([3])], "r": [V(1)]},
    {"op": "conditional", "a": P_([cf(1, [[0, "m"]]), cf(2, [[0, "m"]])]), "r": [V(1)]},
    {"op": "conditional", "a": P_([0, 1, 2]), "r": [V(0), V(1)]},
    # contract: equal joints (ValueError on the pinned tree), different populations
    {"op": "contract", "a": ["frac", P_([0]), P_([0])]},
    {"op": "contract", "a": ["frac", P_([0, 1], pop=1001), P_([1], pop=1002)]},
    {"op": "contract", "a": ["frac", P_([0, 1], pop=1001), P_([1])]},
    {"op": "contract", "a": ["frac", P_([0, 1, 2]), P_([1, 2])]},
    {"op": "recursive_contract", "a": ["sum", [V(0)], ["prod", ["frac", P_([0, 1]), P_([1])], P_([1])]]},
    # chain / fraction / bayes
    {"op": "chain_expand", "a": P_([0, 1, 2], [3]), "reorder": True, "ordering": None},
    {"op": "chain_expand", "a": P_([2, 0, 1]), "reorder": False, "ordering": None},
    {"op": "chain_expand", "a": P_([0, 1]), "reorder": True, "ordering": [V(0)]},
    {"op": "fraction_expand", "a": P_([0], [1, 2])},
    {"op": "bayes_expand", "a": P_([0, 3], [1, 2])},
    # operators
    {"op": "mul", "a": ["frac", P_([0]), P_([1])], "b": ["frac", P_([2]), P_([3])]},
    {"op": "div", "a": ["frac", P_([0]), P_([1])], "b": ["frac", P_([2]), P_([3])]},
    {"op": "div", "a": P_([0]), "b": "zero"},
    {"op": "mul", "a": ["sum", [V(0)], P_([0], [1])], "b": ["frac", P_([2]), P_([3])]},
    {"op": "frac_simplify", "a": ["frac", ["prod", P_([0]), P_([1]), P_([1])], ["prod", P_([1]), P_([2])]]},
    {"op": "frac_simplify", "a": ["frac", "one", ["frac", P_([0]), P_([1])]]},
    {"op": "sum_simplify", "a": ["sum", [V(0), V(3)], P_([0, 1])]},
]


def _rand_ranges(rng, n_names, e=None):
    pool = list(range(n_names))
    r = [n for n in pool if rng.random() < rng.choice([0.2, 0.4, 0.6])]
    out = []
    for n in r:
        k = rng.random()
        if k < 0.8:
            out.append(V(n))
        elif k < 0.9:
            out.append(["v", n, rng.choice(["m", "p"]), "0", []])
        else:
            others = [m for m in pool if m != n]
            out.append(cf(n, [[rng.choice(others), "m"]]) if others else V(n))
    return out


def _leaf(rng, n_names, wild):
    cfg = GE.GenCfg(n_names=n_names, well_scoped=not wild, p_star=0.1 if wild else 0.05, p_world=0.3, p_pop=0.2)
    e = GE._gen_leaf(rng, cfg, frozenset())
    return e


def _contract_case(rng, n_names):
    pool = list(range(n_names))
    rng.shuffle(pool)
    k = rng.randint(1, len(pool))
    num = pool[:k]
    mode = rng.random()
    if mode < 0.55:
        den = rng.sample(num, rng.randint(1, len(num)))
    elif mode < 0.7:
        den = list(num)
    else:
        den = rng.sample(pool, rng.randint(1, len(pool)))
    ivs = [[n, "m"] for n in pool[k:][:1]] if rng.random() < 0.25 else []
    pops = [None, None, None, 1001, 1002]
    pn, pd = rng.choice(pops), None
    pd = pn if rng.random() < 0.75 else rng.choice(pops)
    mk = lambda n: ["v", n, "n", "0", [list(i) for i in ivs]]  # noqa: E731
    rng.shuffle(den)
    numl = P_([mk(n) for n in num], pop=pn)
    denl = P_([mk(n) for n in den], pop=pd)
    if rng.random() < 0.1:
        denl = P_([mk(den[0])], [mk(n) for n in den[1:]], pop=pd)
    return ["frac", numl, denl]


def _load_corpus():
    """corpus/Cxx/*.json (witnesses and examples; falls back to the inline list)"""
    d = C.VERIF / "corpus" / PROP
    files = sorted(d.glob("*.json")) if d.is_dir() else []
    if not files:
        return [dict(c) for c in CORPUS]
    return [json.loads(f.read_text()) for f in files]


def _pool(rng, nn, flavour=None):
    """a factor pool that contains plain and population-tagged leaves"""
    cat = GE.factor_catalogue(rng, nn, flavour or rng.choice(["mixed", "mixed", "samefirst"]))
    pool = cat[:3]
    if not any(x[0] == "P" for x in pool):
        pool.append(next(x for x in cat if x[0] == "P"))
    if not any(x[0] == "PP" for x in pool):
        pool.append(next(x for x in cat if x[0] == "PP"))
    return pool


def structured_cases(rng: random.Random, scale: int = 1):
    """systematic head of the stream: every operator overload pair (8 x 8 classes, * and /) over a common factor pool;
    Fraction.simplify on factor multisets with designed multiplicities; Sum.simplify in every range mode x population;
    marginalize / conditional / normalize_marginalize with ranges chosen relative to the expression (free, bound,
    subscript, fresh names); chain / fraction / bayes expansion and contraction of catalogue leaves"""
    out = []

    def add(c):
        c["seed"] = rng.randrange(1 << 30)
        out.append(c)

    for op in ("mul", "div"):
        for ca in GE.EXPR_CLASSES:
            for cb in GE.EXPR_CLASSES:
                for _ in range(4 * scale):
                    nn = rng.choice([3, 4, 4, 5])
                    pool = _pool(rng, nn)
                    add({"op": op, "a": GE.class_instance(rng, ca, pool, nn), "b": GE.class_instance(rng, cb, pool, nn),
                         "gen": "pair"})
    for _ in range(600 * scale):
        e, lab = GE.struct_simplify_fraction(rng, rng.choice([3, 4, 4, 5]))
        add({"op": "frac_simplify", "a": e, "gen": lab})
    for mode in GE.SUM_MODES:
        for pop in (False, GE.POPS[0], GE.POPS[1]):
            for _ in range(40 * scale):
                e, lab = GE.struct_sum_leaf(rng, rng.choice([3, 4, 4, 5]), mode=mode, pop=pop, wrap="none")
                add({"op": "sum_simplify", "a": e, "gen": lab})
    for op in ("marginalize", "conditional", "normalize_marginalize"):
        for _ in range(300 * scale):
            nn = rng.choice([3, 4, 4, 5])
            if rng.random() < 0.6:
                a, lab = GE.struct_expr(rng, nn)
            else:
                a = GE.class_instance(rng, rng.choice(["P", "PP", "prod", "sum", "frac"]), _pool(rng, nn), nn)
                lab = "class"
            r, mode = GE.struct_ranges(rng, a, nn)
            add({"op": op, "a": a, "r": r, "gen": lab, "rmode": mode})
    for _ in range(300 * scale):
        nn = rng.choice([3, 4, 4, 5])
        leaves = [x for x in GE.factor_catalogue(rng, nn, rng.choice(["mixed", "samefirst", "worlds"])) if x[0] in ("P", "PP")]
        a = rng.choice(leaves)
        op = rng.choice(["chain_expand", "chain_expand", "fraction_expand", "bayes_expand"])
        c = {"op": op, "a": a, "gen": "leaf"}
        if op == "chain_expand":
            c["reorder"] = rng.random() < 0.7
            o = rng.random()
            c["ordering"] = None if o < 0.4 else GE.rand_ordering(rng, a, nn, covering=o < 0.9)
        add(c)
    for _ in range(200 * scale):
        nn = rng.choice([3, 4, 4, 5])
        inner = _contract_case(rng, nn)
        e, _ = GE.struct_product(rng, nn)
        add({"op": "recursive_contract", "a": ["prod", inner, e, _contract_case(rng, nn)], "gen": "contract"})
    return out


WIDE_OPS = ("sum_simplify", "marginalize", "normalize_marginalize", "mul", "div")


def mw_cases(rng: random.Random, scale: int = 1):
    """multi-world joints (gen_expr.struct_mw_*): Sum.simplify on raw Sums over leaves whose children share a base variable
    across worlds / value marks, in every relation between ranges and duplicated / single bases x {P, PP}; marginalize /
    normalize_marginalize / conditional of such leaves and sums with ranges chosen relative to the expression; * and /
    between them"""
    out = []

    def add(c):
        c["seed"] = rng.randrange(1 << 30)
        out.append(c)

    for mode in GE.MW_MODES:
        for pop in (False, GE.POPS[0]):
            for _ in range(25 * scale):
                e, lab = GE.struct_mw_sum(rng, rng.choice([3, 4, 4, 5]), mode=mode, pop=pop, wrap="none")
                add({"op": "sum_simplify", "a": e, "gen": lab})
    for op in ("marginalize", "normalize_marginalize", "conditional"):
        for _ in range(60 * scale):
            nn = rng.choice([3, 4, 4, 5])
            a, lab = GE.struct_mw_expr(rng, nn)
            if rng.random() < 0.5:
                a, lab = GE.mw_leaf(rng, nn)[0], "mwleaf"
            r, mode = GE.struct_ranges(rng, a, nn)
            add({"op": op, "a": a, "r": r, "gen": lab, "rmode": mode})
    for op in ("mul", "div"):
        for _ in range(50 * scale):
            nn = rng.choice([3, 4, 4, 5])
            a, _ = GE.struct_mw_expr(rng, nn)
            b, _ = GE.struct_mw_expr(rng, nn) if rng.random() < 0.6 else GE.struct_expr(rng, nn)
            add({"op": op, "a": a, "b": b, "gen": "mwpair"})
    return out


# argument FORMS (harness/forms.py): `ranges` of marginalize / conditional / normalize_marginalize is a VariableHint =
# str | Variable | Iterable[str | Variable]; chain_expand's `ordering` an Iterable[str | Variable]
RANGE_FORMS = ("list", "list", "tuple", "set", "frozenset", "generator", "iterator", "single", "str", "str_mixed")


def _slots(case):
    op = case["op"]
    if op in ("marginalize", "conditional", "normalize_marginalize"):
        return {"r": RANGE_FORMS}
    if op == "chain_expand" and case.get("ordering") is not None:
        return {"ordering": F.ORDERING_CONTAINERS, "ordering_elems": F.ORDERING_ELEMS}
    return {}


def _forms(case):
    return F.forms_of(case, _slots(case))


def _range_arg(vs, form):
    """the ranges (a list of y0 Variables) in the recorded form: a bare Variable / a bare str for a single range, str names
    for the plain variables of a collection, any collection type, a one-shot iterable"""
    from y0.dsl import Variable

    vs = list(vs)
    is_plain = lambda v: type(v) is Variable and v.star is None  # noqa: E731
    if form == "single":
        return vs[0] if len(vs) == 1 else set(vs)
    if form in ("str", "str_mixed"):
        if len(vs) == 1 and is_plain(vs[0]) and form == "str":
            return vs[0].name
        return [v.name if is_plain(v) and (form == "str" or k % 2 == 0) else v for k, v in enumerate(vs)]
    return F.container(vs, form)


def chain_ordering_cases(rng: random.Random, n: int):
    """chain_expand with an explicit ordering that CONTAINS the children of an interventional / value-marked leaf (membership
    is by full variable equality, chain.py: an ordering of plain names can never succeed there): the leaf's own children
    (and some parents, some extra plain names) shuffled, reorder on"""
    out = []
    while len(out) < n:
        nn = rng.choice([3, 4, 4, 5])
        cfg = GE.GenCfg(n_names=nn, well_scoped=True, p_star=rng.choice([0.0, 0.3, 0.6]), p_world=rng.choice([0.5, 0.9]),
                        p_pop=0.2)
        a = GE._gen_leaf(rng, cfg, frozenset())
        ch, pa = GE._leaf_parts(a)
        if not any(v[4] or v[2] != "n" for v in ch):
            continue
        o = [list(v) for v in ch] + [list(v) for v in pa if rng.random() < 0.5]
        o += [V(k) for k in range(nn + 2) if rng.random() < 0.3 and all(int(v[1]) != k for v in o)]
        if rng.random() < 0.12 and len(ch) > 1:      # an ordering that misses a child: the documented ValueError
            o.remove(rng.choice([list(v) for v in ch]))
        rng.shuffle(o)
        out.append({"op": "chain_expand", "a": a, "reorder": True, "ordering": o, "gen": "chain_cf_ordering",
                    "seed": rng.randrange(1 << 30)})
    return out


def range_shape_cases(rng: random.Random, n: int):
    """ranges with duplicate BASES ([A, A @ X], [A, -A]) and Intervention OBJECTS (what the DSL's -A / +A build) handed to
    marginalize / conditional / normalize_marginalize: all are reduced with get_base() and de-duplicated"""
    out = []
    while len(out) < n:
        nn = rng.choice([3, 4, 4, 5])
        a, lab = GE.struct_expr(rng, nn) if rng.random() < 0.7 else GE.struct_mw_expr(rng, nn)
        ev = sorted(GE.event_names(a)) or [0]
        r = []
        for x in rng.sample(ev, rng.randint(1, min(3, len(ev)))):
            forms = [V(x), ["v", x, rng.choice(["m", "p"]), "1", []], cf(x, [[rng.choice([m for m in range(nn + 1) if m != x]), "m"]]),
                     ["v", x, rng.choice(["m", "p"]), "0", []]]
            r += rng.sample(forms, rng.choice([1, 2, 2, 3]))
        rng.shuffle(r)
        out.append({"op": rng.choice(["marginalize", "conditional", "normalize_marginalize"]), "a": a, "r": r,
                    "gen": "range_shapes:" + lab, "seed": rng.randrange(1 << 30)})
    return out


def cases(rng: random.Random, tier: str):
    return [F.assign(c, _slots(c)) for c in _cases(rng, tier)]


def _cases(rng: random.Random, tier: str):
    if os.environ.get("VERIF_EXPR_FAST_SEARCH") == "1":
        tier = "quick"      # tools/mutate_expr.py only: keeps the runner's extended search at the size of the quick stream
    out = _load_corpus()
    out += structured_cases(rng, 1 if tier == "quick" else 4)
    out += random_cases(rng, 6000 if tier == "quick" else 70000)
    out += mw_cases(rng, 1 if tier == "quick" else 6)      # appended: the streams above are unchanged
    out += chain_ordering_cases(rng, 250 if tier == "quick" else 2000)
    out += range_shape_cases(rng, 200 if tier == "quick" else 1500)
    return out


def random_cases(rng: random.Random, n: int):
    out = []
    for _ in range(n):
        op = rng.choice(OPS)
        ws = rng.random() < 0.7
        nn = rng.choice([3, 4, 4, 5])
        cfg = GE.GenCfg(n_names=nn, max_depth=rng.choice([1, 2, 3, 3, 4]), well_scoped=ws, allow_q=True)
        c = {"op": op, "seed": rng.randrange(1 << 30)}
        if op in ("mul", "div"):
            c["a"] = GE.gen_expr(rng, cfg)
            c["b"] = GE.gen_expr(rng, cfg)
        elif op in ("marginalize", "conditional", "normalize_marginalize"):
            c["a"] = GE.gen_expr(rng, cfg)
            c["r"] = _rand_ranges(rng, nn)
        elif op == "frac_simplify":
            k = rng.random()
            if k < 0.5:   # products sharing factors
                fs = [GE.gen_expr(rng, GE.GenCfg(n_names=nn, max_depth=2, well_scoped=ws)) for _ in range(rng.randint(2, 4))]
                num = [rng.choice(fs) for _ in range(rng.randint(1, 3))]
                den = [rng.choice(fs) for _ in range(rng.randint(1, 3))]
                mk = lambda l: l[0] if len(l) == 1 else ["prod"] + l  # noqa: E731
                d = mk(den)
                c["a"] = ["frac", mk(num), "one" if d == "zero" else d]
            else:
                e = GE.gen_expr(rng, cfg)
                d = GE.gen_expr(rng, cfg)
                c["a"] = ["frac", e, "one" if d == "zero" else d]
        elif op == "sum_simplify":
            body = _leaf(rng, nn, not ws) if rng.random() < 0.8 else GE.gen_expr(rng, cfg)
            c["a"] = ["sum", GE._gen_ranges(rng, cfg, body), body]
        elif op == "chain_expand":
            c["a"] = _leaf(rng, nn, not ws)
            c["reorder"] = rng.random() < 0.7
            o = rng.random()
            c["ordering"] = None if o < 0.4 else GE.rand_ordering(rng, c["a"], nn, covering=o < 0.9)
        elif op in ("fraction_expand", "bayes_expand"):
            c["a"] = _leaf(rng, nn, not ws)
        elif op == "contract":
            c["a"] = _contract_case(rng, nn) if rng.random() < 0.85 else GE.gen_expr(rng, cfg)
        elif op == "recursive_contract":
            inner = _contract_case(rng, nn)
            k = rng.random()
            if k < 0.3:
                c["a"] = ["sum", [V(rng.randrange(nn))], inner]
            elif k < 0.6:
                c["a"] = ["prod", inner, _leaf(rng, nn, False), _contract_case(rng, nn)]
            elif k < 0.8:
                c["a"] = ["frac", inner, _leaf(rng, nn, False)]
            else:
                c["a"] = GE.gen_expr(rng, cfg)
        elif op == "markov":
            c["a"] = GE.gen_expr(rng, cfg)
        out.append(c)
    return out


# ------------------------------------------------------------------------------------------ real code

ERRS = (KeyError, TypeError, ZeroDivisionError, ValueError, AttributeError, IndexError)


def _call(case):
    import warnings

    from y0.dsl import Fraction, Sum
    from y0.mutate import bayes_expand, chain_expand, fraction_expand
    from y0.mutate.contract import contract, recursive_contract
    from y0.predicates import has_markov_postcondition

    op = case["op"]
    a = X.dec_expr(case["a"])
    fm = _forms(case)
    if op == "mul":
        return a * X.dec_expr(case["b"])
    if op == "div":
        return a / X.dec_expr(case["b"])
    if op == "marginalize":
        return a.marginalize(_range_arg([X.dec_var(v) for v in case["r"]], fm["r"]))
    if op == "conditional":
        return a.conditional(_range_arg([X.dec_var(v) for v in case["r"]], fm["r"]))
    if op == "normalize_marginalize":
        return a.normalize_marginalize(_range_arg([X.dec_var(v) for v in case["r"]], fm["r"]))
    if op in ("frac_simplify", "sum_simplify"):
        return a.simplify()
    if op == "chain_expand":
        o = None if case["ordering"] is None else F.ordering_arg([X.dec_var(v) for v in case["ordering"]],
                                                                 fm["ordering"], fm["ordering_elems"])
        return chain_expand(a, reorder=case["reorder"], ordering=o)
    if op == "fraction_expand":
        return fraction_expand(a)
    if op == "bayes_expand":
        with warnings.catch_warnings():
            warnings.simplefilter("ignore")
            return bayes_expand(a)
    if op == "contract":
        return contract(a)
    if op == "recursive_contract":
        return recursive_contract(a)
    if op == "markov":
        return bool(has_markov_postcondition(a))
    raise ValueError(op)


def free_event_names(enc):
    """names of variables in event position that are not bound by an enclosing Sum (the specification's free(e));
    `+X` values are constants, not variables"""
    if not isinstance(enc, list):
        return set()
    tag = enc[0]
    if tag in ("P", "PP", "Q"):
        return {int(v[1]) for v in GE.event_vars(enc) if v[2] != "p"}
    if tag == "prod":
        return set().union(*[free_event_names(x) for x in enc[1:]])
    if tag == "frac":
        return free_event_names(enc[1]) | free_event_names(enc[2])
    if tag == "sum":
        return free_event_names(enc[2]) - {int(v[1]) for v in enc[1]}
    return set()


def python_conditional_names(enc):
    """base names `conditional` collects on the real code: both overloads skip Intervention objects (Probability.conditional
    always did, Expression.conditional since `fix:` a54a0f5), so: the event variables of every leaf and the ranges of every
    inner Sum, never a name that occurs in subscripts only"""
    names = {int(v[1]) for v in GE.event_vars(enc) if str(v[3]) != "1"}
    for t in GE.subterms(enc):
        if isinstance(t, list) and t[0] == "sum":
            names |= {int(v[1]) for v in t[1] if str(v[3]) != "1"}
    return names


def conditional_extra(case):
    """variables the real code normalises over although they are not free event variables of the expression,
    classified: 'bound' (a Sum range of the expression); 'subscript' (an intervention subscript) cannot occur any more
    after `fix:` a54a0f5 and is kept only so that a regression is named in the failure message, not excused"""
    a = case["a"]
    r = {int(v[1]) for v in case["r"]}
    extra = (python_conditional_names(a) - r) - (free_event_names(a) - r)
    ranges = set()
    for t in GE.subterms(a):
        if isinstance(t, list) and t[0] == "sum":
            ranges |= {int(v[1]) for v in t[1]}
    subs = {int(i[0]) for v in GE.event_vars(a) for i in v[4]}
    kinds = set()
    for n in extra:
        if n in ranges:
            kinds.add("bound")
        elif n in subs:
            kinds.add("subscript")
        else:
            kinds.add("other")
    return extra, sorted(kinds)


def _judgeable(enc, wide=False):
    """narrow: WellScoped (single-world leaves with distinct names); wide: WellScopedW (multi-world joints, children sharing
    a base variable) - for the operators whose theorem holds there (WIDE_OPS: Sum.simplify after its repair, and the
    operators that never look inside a leaf)"""
    return (GE.well_scoped_mw(enc) if wide else GE.well_scoped(enc)) and GE.zero_free_denominators(enc)


def _eval_spec(case, env, sigma, sstar, E):
    """the mathematical operation applied to the (evaluated) arguments; None = no opinion at this valuation"""
    from ..gen_graph import vname

    op = case["op"]
    a = X.dec_expr(case["a"])
    ev = lambda e, s=sigma: E.evaluate(e, env, s, sstar)  # noqa: E731

    def sum_over(names, e):
        names = sorted(names)
        tot = Fr(0)
        for vals in itt.product(*[range(env.card(n)) for n in names]):
            s2 = dict(sigma)
            s2.update(zip(names, vals))
            tot += ev(e, s2)
        return tot

    if op == "mul":
        return ev(a) * ev(X.dec_expr(case["b"]))
    if op == "div":
        d = ev(X.dec_expr(case["b"]))
        return None if d == 0 else ev(a) / d
    rn = {vname(int(v[1])) for v in case.get("r", [])}
    if op == "marginalize":
        return sum_over(rn, a)
    if op == "normalize_marginalize":
        d = sum_over(rn, a)
        return None if d == 0 else ev(a) / d
    if op == "conditional":
        free = {vname(n) for n in free_event_names(case["a"])}
        d = sum_over(free - rn, a)
        return None if d == 0 else ev(a) / d
    return ev(a)   # simplify / expansions / contraction preserve the value


def _single_child(enc):
    if not isinstance(enc, list):
        return False
    if enc[0] in ("P", "PP"):
        return len(GE._leaf_parts(enc)[0]) == 1
    if enc[0] == "prod":
        return all(_single_child(x) for x in enc[1:])
    return False


def _in_quantifier(case):
    op = case["op"]
    a = case["a"]
    wide = op in WIDE_OPS
    if not _judgeable(a, wide):
        return False
    if op in ("mul", "div") and not _judgeable(case["b"], wide):
        return False
    if op == "chain_expand":
        if case["reorder"] and case["ordering"] is not None:
            ch = {json.dumps(X.to_str_tree(v)) for v in GE._leaf_parts(a)[0]}
            if not ch <= {json.dumps(X.to_str_tree(v)) for v in case["ordering"]}:
                return False     # ValueError is the documented outcome for an ordering that misses a child
    if op in ("conditional", "bayes_expand"):
        # `+X` in event position is a constant of the specification but a variable for get_base() / Sum ranges, and an
        # Intervention OBJECT in event position (`-X` built by __neg__) is skipped by Probability.conditional: no opinion
        if GE.plus_event_names(a) or any(str(v[3]) == "1" for v in GE.event_vars(a)):
            return False
    if op == "markov":
        return False
    if op in ("frac_simplify",) and not (isinstance(a, list) and a[0] == "frac"):
        return False
    return True


def run_python(case):
    from ..gen_graph import vname
    from ..oracles import expr_eval as E

    op = case["op"]
    rng = random.Random(case.get("seed", 0))
    inq = _in_quantifier(case)
    fail = None
    res = None
    try:
        res = _call(case)
        out = ["ok", ("true" if res else "false") if op == "markov" else X.to_str_tree(X.enc_expr(res))]
    except ERRS as ex:
        out = ["err"]
        # dividing by something that is syntactically zero is the one documented exception
        legit = isinstance(ex, ZeroDivisionError) and (
            (op == "div" and GE.contains_zero(case["b"]))
            or (op in ("conditional", "normalize_marginalize") and GE.contains_zero(case["a"])))
        if inq and not legit:
            fail = f"{op} raised {type(ex).__name__}: {str(ex)[:80]} on {X.dec_expr(case['a'])}"
    if res is not None and inq and op != "markov":
        names = set(GE.all_names(case["a"])) | (set(GE.all_names(case["b"])) if "b" in case else set())
        names |= {int(v[1]) for v in case.get("r", [])}
        names = sorted(vname(n) for n in names)
        is_wide = not (GE.well_scoped(case["a"]) and ("b" not in case or GE.well_scoped(case["b"])))
        envs = [(pk, E.shared_env(pk)) for pk in rng.sample(range(E.N_SHARED), 2)]
        if is_wide:      # multi-world joints: additionally a random functional SCM (shared noise across worlds)
            fs = rng.randrange(1 << 30)
            envs.append(("fscm", E.FscmEnv(fs, names, {n: rng.choice([2, 2, 3]) for n in names})))
        for pk, env in envs:      # (shared: per-process pool of cached generic positive environments)
            seed = env.seed
            for _ in range(3):
                sigma = E.random_valuation(rng, env, names)
                sstar = E.random_valuation(rng, env, names)
                want = _eval_spec(case, env, sigma, sstar, E)
                if want is None:
                    continue
                got = E.evaluate(res, env, sigma, sstar)
                if got != want and fail is None:
                    fail = (f"{op}: result {res} evaluates to {got}, the operation on the arguments gives {want} "
                            f"(a={X.dec_expr(case['a'])}" + (f", b={X.dec_expr(case['b'])}" if "b" in case else "") +
                            (f", ranges={[str(X.dec_var(v)) for v in case['r']]}" if "r" in case else "") +
                            f"; shared_env={pk} env_seed={seed} cards={ {n: env.card(n) for n in names} } sigma={sigma} sigma_star={sstar})")
        if op == "chain_expand" and fail is None and not _single_child(out[1]):
            fail = f"chain_expand produced a factor that is not a single-child conditional: {res}"
    nontrivial = out[0] == "ok" and ((op in ("mul", "div") and GE.depth(case["a"]) >= 2 and GE.depth(case["b"]) >= 2)
                                     or (op not in ("mul", "div", "markov") and out[1] != X.to_str_tree(case["a"])))
    tags = {"op": op, "outcome": out[0], "judged": inq, "gen": case.get("gen", "random").split(":")[0],
            "judged_wide": bool(inq and not GE.well_scoped(case["a"])), "shared_base": GE.has_shared_base(case["a"])}
    if op == "frac_simplify":
        for f in GE.simplify_profile(case["a"]):
            tags["simplify_" + f] = True
    if op == "sum_simplify":
        for f in GE.features(case["a"]):
            if f.startswith("sum:"):
                tags["hit_" + f] = True
    if "rmode" in case:
        tags["rmode"] = case["rmode"]
    tags.update(F.tags(_forms(case)))
    if op == "chain_expand" and case.get("ordering") is not None:
        tags["chain_explicit_ok"] = out[0] == "ok"
        tags["chain_cf_children"] = any(v[4] or v[2] != "n" for v in GE._leaf_parts(case["a"])[0]) if isinstance(case["a"], list) and case["a"][0] in ("P", "PP") else False
    mech = None
    if fail and op == "conditional" and res is not None:
        extra, kinds = conditional_extra(case)
        if extra and "other" not in kinds and _conditional_explained(case, res, E):
            mech = "conditional:extra=" + "+".join(kinds)
    if op in ("mul", "div"):
        tags["pair_" + op] = f"{_cls(case['a'])}x{_cls(case['b'])}"
    return {"out": out, "fail": fail, "nontrivial": nontrivial, "tags": tags, "mechanism": mech}


def _conditional_explained(case, res, E):
    """is the wrong value exactly e / Sum_{what the code collects} e ?  (then the failure is the listed mechanism)"""
    from ..gen_graph import vname

    a = X.dec_expr(case["a"])
    names = sorted(vname(n) for n in set(GE.all_names(case["a"])) | {int(v[1]) for v in case["r"]})
    comp = sorted(vname(n) for n in python_conditional_names(case["a"]) - {int(v[1]) for v in case["r"]})
    rng = random.Random(12345)
    for _ in range(2):
        env = E.MixtureEnv(rng.randrange(1 << 30), {n: rng.randint(2, 3) for n in names})
        for _ in range(2):
            sigma = E.random_valuation(rng, env, names)
            sstar = E.random_valuation(rng, env, names)
            tot = Fr(0)
            for vals in itt.product(*[range(env.card(n)) for n in comp]):
                s2 = dict(sigma)
                s2.update(zip(comp, vals))
                tot += E.evaluate(a, env, s2, sstar)
            if tot == 0 or E.evaluate(res, env, sigma, sstar) != E.evaluate(a, env, sigma, sstar) / tot:
                return False
    return True


def _cls(enc):
    return enc if not isinstance(enc, list) else enc[0]


# ------------------------------------------------------------------------------------------ model side

def request(case):
    op = case["op"]
    a = case["a"]
    if op in ("mul", "div"):
        return C.enc(["expr", op, a, case["b"]])
    if op in ("marginalize", "conditional", "normalize_marginalize"):
        return C.enc(["expr", op, a, case["r"]])
    if op in ("frac_simplify", "sum_simplify"):
        return C.enc(["expr", "simplify", a])
    if op in ("chain_expand", "fraction_expand", "bayes_expand", "contract", "recursive_contract") and _has_sort_tie(a):
        # two different variables with the same sort key (same name [and subscripts], different star / class) are ordered
        # by Python's set iteration order inside _upgrade_ordering / sorted(set): inherently hash-seed dependent, no model side
        return None
    if op == "chain_expand":
        return C.enc(["expr", op, a, "true" if case["reorder"] else "false",
                      "none" if case["ordering"] is None else ["some"] + list(case["ordering"])])
    return C.enc(["expr", op, a])


def _has_sort_tie(enc):
    for t in GE.subterms(enc):
        if isinstance(t, list) and t[0] in ("P", "PP"):
            keys = {}
            for v in X.to_str_tree(list(GE._leaf_parts(t)[0]) + list(GE._leaf_parts(t)[1])):
                keys.setdefault(v[1], set()).add(json.dumps(v))
            if any(len(x) > 1 for x in keys.values()):
                return True
    return False


def canon_model(case, rep):
    if rep[0] == "err":
        return ["err"]
    if rep[0] != "ok":
        return ["model-reply", rep]
    return ["ok", rep[1]]


def shrink(case):
    for k in ("a", "b"):
        if k in case:
            for s in GE.shrink_expr(case[k]):
                c = dict(case)
                c[k] = s
                yield c
    if "r" in case:
        for i in range(len(case["r"])):
            c = dict(case)
            c["r"] = case["r"][:i] + case["r"][i + 1:]
            yield c
        if any(v != V(v[1]) for v in case["r"]):
            c = dict(case)
            c["r"] = [V(v[1]) for v in case["r"]]
            yield c
    if case.get("ordering") is not None:
        c = dict(case)
        c["ordering"] = None
        yield c


def finding_key(case, res):
    # the open finding about `conditional` is keyed by mechanism (verified on the input, see run_python): every input on
    # which the code normalises over a bound Sum range AND returns exactly e / Sum_{collected} e.  Only the key
    # "conditional:extra=bound" is listed in known_findings.jsonl; "…subscript" (repaired) would be a VIOLATION again.
    if res.get("mechanism"):
        return res["mechanism"]
    c = {k: case[k] for k in ("op", "a", "b", "r", "reorder", "ordering") if k in case}
    return json.dumps(GE.alpha_normalise(c), sort_keys=True)


MANIFEST = {
    "text": ("Proof (Lean 4): one theorem per operator and helper over the denotational semantics - mul_den, div_den, "
             "marginalize_den, normalize_marginalize_den, conditional_den, fraction_simplify_den, sum_simplify_den, "
             "chain_expand_den, chain_expand_markov, fraction_expand_den, bayes_expand_den, contract_den, "
             "recursive_contract_den - each stating that the model of the Python function denotes the mathematical operation "
             "applied to the denotations of its arguments for every distribution family satisfying the probability laws "
             "(positivity where a division is cancelled); sum_simplify_den_mw / sum_simplify_shared_base: Sum.simplify on "
             "multi-world joints (several children on one base variable are left alone, after the repair d517ad1). The models are tied to dsl.py / chain.py / contract.py on every "
             "run by differential testing through all operator class pairs; the oracle evaluates both sides exactly."),
    "note": ("Trusted: Lean kernel; Y0/Spec/Sem.lean; the hand-written models tied to the code by sampling. Open findings "
             "(conditional over bound Sum ranges; the subscript part of F11 is fixed) are listed in known_findings.jsonl and print KNOWN-FINDING."),
    "technique": "Lean 4 theorems over the denotational semantics + differential correspondence over every operator/helper + exact-rational oracle",
}
