"""C19 — counterfactual minimisation, SIMPLIFY, counterfactual ancestors, ancestral components and the ctf-factor
factorisation (src/y0/algorithm/counterfactual_transport/{ancestor_utils,api}.py).

Correspondence: every anchored function, real code vs the Lean models Y0.Model.{Ctf,CtfSimplify,CtfFactor}.
Oracle (written from the property statement, independent of the models):
  (a) naive re-statements of ||Y_x||, Def. 2.1, Def. 4.2, Def. 3.4 / Eq. 11-15 of Correa, Lee, Bareinboim 2022
      (harness/oracles/ctf_sets.py) for the set-valued functions and the shape of the factorisation;
  (b) exact functional SCMs with shared noise (harness/oracles/ctf_fscm.py): a minimised variable is the same random
      variable noise point by noise point; SIMPLIFY preserves the probability of the event and answers `None` only for
      events of probability 0; the factorised sum-product equals the probability of the query.
"""
from __future__ import annotations

import json
import random

from .. import common as C
from .. import forms as FM
from .. import gen_graph as G
from ..enc_expr import enc_var, dec_var, to_str_tree
from ..oracles import ctf_sets as S
from ..oracles import ctf_fscm as F

PROP = "C19"
RULE = ("[fifth round, gap review: + a WIDE-QUERY stream - factorisation of 4-5 items over distinct vertices of 5-6 node "
        "graphs, mostly base values so that the value oracle judges - and a CHAIN-DISTRICT stream - a district A <-> B <-> C "
        "(<-> D) that is not a bidirected clique inside An(query), every chain vertex an ancestor of the query; seed C19e] "
        "structured families first: (1) chains of length 3-4 with every set of shortcut edges and at most one bidirected edge x "
        "every variable Y_S with S a set of earlier vertices (nested subscripts: one intervened vertex reaches Y only through "
        "another) through ancestors / minimize / ancestral components / factorisation; (2) a subscript that fixes a direct "
        "parent to the STARRED value (Y @ +X, X -> Y) through conversion, ctf-factor test, both grouping functions, "
        "factorisation; (3) conditioned variables (ancestors of a root, the root itself, variables with causally irrelevant "
        "subscripts, non-ancestors) through get_ancestral_components and its two helpers.  Then random ADMGs (1-6 nodes, "
        "acyclic; isolated and bidirected-only nodes) x counterfactual variables with 0-3 subscripts drawn from ancestors, "
        "non-ancestors, the variable itself and (rarely) both values of one name x events of 1-4 items with repeated "
        "variables, conflicting values and None values; one stream per anchored function (minimize, minimize_event, simplify, "
        "ancestors, the two merge passes separately and composed, conditioned variables in an ancestral set, ancestral set "
        "after conditioning, ancestral components, ctf-factor form, factors, conversion, factorisation, "
        "simplify-then-factorise, the three query classes Lean vs Python, the two specification evaluators Lean vs Python) plus a malformed stream (names outside the graph, "
        "Intervention objects, value marks).  A case is non-trivial when the graph has >=3 nodes and a directed edge and the "
        "argument mentions at least one subscript (for component cases: at least two input sets).")
ASSUMPTIONS = [
    "argument FORMS (harness/forms.py; chosen deterministically per case, stored in the case, tagged form_*): parameters typed set[Variable] / set[frozenset[Variable]] / set[tuple[..]] (event of is_counterfactual_factor_form, get_counterfactual_factors(_retaining_variable_values); conditioned_variables, root_variables, ancestral_sets, input_sets) as set / frozenset / list / tuple / dict keys; events (Event = list[tuple[Variable, Intervention]]) as list or tuple; minimize_counterfactual, get_ancestors_of_counterfactual and the two merge passes positional or by keyword (every other entry point is keyword-only); the graph through every public constructor of NxMixedGraph. ONE-SHOT iterables are outside the declared types (set / list) and are NOT passed: measured on the unchanged tree, a generator makes the set-typed entry points iterate an exhausted iterator (3 546 of 45 513 quick cases differ) and an event given as a generator is consumed by the first pass of simplify / minimize_event -- documented by the type hints, not counted as a defect. The models take lists; independence of the form is a runtime clause decided by correspondence + oracle",
    "OPEN simplify_prob / simplify_none_zero (all events): FALSE for the code on events with a self-intervened variable Y_y (open findings simplify-reflexive:prob/none: y0 and the pinned test test_simplify_y read Y_y as the variable Y, the paper's Algorithm 1 and y0's ID* remove the tautology Y_y = y); proved as simplify_prob_partial / simplify_none_zero_partial for every event without a self-intervened variable whose values are values of the variable they are bound to, all compatible functional SCMs, all distinct readings of the value symbols",
    "simplify_prob_y0reading / simplify_none_zero_y0reading: for ALL events (self-intervened variables included; one subscript per name, values name their variable) SIMPLIFY is exactly right RELATIVE TO y0's reading y0Read of Spec/CtfSem.lean ('Y_{..y..} = y' is the event 'Y = y', 'Y_{..y..} = y'' is impossible); this does not close the finding - the reading itself contradicts the paper - it shows the reading is the whole deviation; the harness' finding key uses the same rewrite (_explained_by_reflexive_rewrite)",
    "OPEN factorisation_den (the factorised sum-product equals P(query), ALL queries): FALSE for the code on three syntactic classes of queries (open findings factorisation-value:multi-world / literal-bound / outcome-parent-value). PROVED as factorisation_den_partial for every query OUTSIDE the three classes (decidable predicates multiWorld / literalBound / outcomeParentValue of Model/CtfFactor.lean, cross-checked against the Python key functions on every run by the op factorize_classes) that is readable (no self-intervened variable, one value per subscript name), every compatible functional SCM whose pmfs sum to one and whose mechanisms take values below card, every reading of the value symbols; the counterfactual split lemma (independent noise blocks), marginalisation and composition are mechanised, not assumed",
    "value symbols: '-N' and '+N' are read as two values of N (SIMPLIFY theorems: for every DISTINCT reading; value theorem of the factorisation: for every reading; oracle: sampled distinct readings); an event value None means 'no constraint'",
    "Def. 2.1 is read without the '\\ X' for the variable itself (the text says An(Y_x) 'includes Y itself'); for Y not in X both readings coincide",
    "Def. 4.2 'not disjoint' is read on graph vertices (two sets containing W_z and W_z' share the vertex W), as in the proof of Lemma A.5 and in y0's docstring; X_*(W_t) = V(||X_*|| ∩ An(W_t)) is read as y0's docstring reads it (graph vertices, intersection by == of the variable objects)",
    "cond_in_ancestral_set_spec: completeness (every minimised conditioned variable that == a member of An(W_t) is found) is proved for subscript lists in the canonical Iv.lt order of the line protocol, in which == of two frozensets is structural equality of the model's lists; soundness is unconditional",
    "is_counterfactual_factor_form: Def. 3.4 asks for subscripts equal to pa_W; y0 accepts supersets of pa_W (the same random variable); theorem factor_form_spec characterises what y0 accepts, the oracle has no opinion on strict supersets",
    "SPEC cross-check (op sem_values): on sampled functional SCMs the Lean specification functions probEventOpt and factorisedValue (Spec/CtfSem.lean, evaluated by the driver on the transferred model) return exactly the rationals the Python oracle computes (prob_event, eval_factorised), inside and outside the three classes; this validates that factorisation_den_partial speaks about the quantity the oracle judges, it is sampling, not proof",
    "factorised expression (Spec/CtfSem.lean factorisedValue = oracle eval_factorised): a '-N' subscript whose name is bound by the enclosing Sum denotes the bound value, every other subscript its literal value; a factor variable that is neither bound nor given a value by the returned event is unconstrained; Sum ranges over the values below card",
    "semantic theorems are over Spec/Fscm.lean (cf family): finitely many independent exogenous variables, deterministic mechanisms, evaluation along a topological order; Compatible only asks that the mechanisms read parents of G and share noise only across bidirected edges of G; the oracle samples binary/ternary variables, one binary latent per bidirected edge, private binary noise",
    "the two merge passes are modelled as 'unions of connected components of the link graph' (the depth-first traversal order, which depends on Python set iteration, is abstracted); the second pass is modelled under the invariant 'input sets are non-empty and disjoint on graph vertices', proved for the output of the first pass (mergeCommon_base_disjoint) and imposed on the generator of the stand-alone op merge_bidirected (other inputs are compared as 'unspecified')",
    "Product.safe's ordering of the factors and the order of the returned event are compared as multisets (ordering is property C11's business)",
    "SIMPLIFY's TypeError on events that mix None with self-intervened variables is treated as a documented input rejection (no opinion; since repo c8cad49 it is raised only for a VALUELESS self-intervened variable, which the ctfTRu validator now rejects itself, repo 333fa44); exceptions on names outside the graph are compared by category only",
    "generated graphs are acyclic ADMGs (the property quantifies over ADMGs); cyclic graphs are not explored (the value theorem itself does not assume acyclicity of G: a self-loop on a member of An(Y_*) makes get_counterfactual_factors reject the query)",
]
EXHAUSTIVE = {"quick": False, "thorough": False}
ESCALATED_TIER = "escalated"   # generator budget of a quick run when an anchored source file changed (about twice the quick stream, all structured families)
LEANCHECK_MODULES = ["Y0.Model.Ctf", "Y0.Model.CtfSimplify", "Y0.Model.CtfFactor", "Y0.Spec.CtfSem", "Y0.Props.C19"]

OPS = ["minimize", "minimize_event", "simplify", "ancestors", "components_from_sets", "ancestral_components",
       "is_factor_form", "factors", "factors_values", "convert", "factorize", "simplify_factorize", "factorize_classes",
       "cond_in_ancestral_set", "ancestral_set_after", "merge_common", "merge_bidirected", "sem_values"]


# ------------------------------------------------------------------------------------------ encoding helpers

def V(n, ivs=(), star="n", isiv="0"):
    v = S.mk(n, star, ivs)
    v[3] = isiv
    return v


def val(n, s="m"):
    return [n, s]


def _fig2a():
    # correa22a Figure 2a with X=0, Y=1, W=2, Z=3
    return {"nodes": [], "di": [[3, 0], [3, 1], [0, 1], [0, 2], [2, 1]], "bi": [[3, 0], [2, 1]]}


def _fig1():
    # correa22a Figure 1 (target domain): X=0, Y=1, Z=2
    return {"nodes": [], "di": [[0, 2], [2, 1], [0, 1]], "bi": [[2, 0]]}


X_, Y_, W_, Z_ = 0, 1, 2, 3
CORPUS = [
    # --- F8a witnesses: a subscript set that minimises to the empty set
    {"op": "minimize", "g": {"nodes": [2], "di": [[0, 1]], "bi": []}, "v": V(1, [[2, "m"]])},
    {"op": "minimize", "g": {"nodes": [], "di": [[1, 0]], "bi": []}, "v": V(1, [[0, "m"]])},
    {"op": "simplify", "g": {"nodes": [2], "di": [[0, 1]], "bi": []}, "e": [[V(1, [[2, "m"]]), val(1)]]},
    # --- F8b witness: {A} and {B} both have a bidirected edge to C outside the ancestral sets
    {"op": "components_from_sets", "g": {"nodes": [], "di": [], "bi": [[0, 2], [1, 2]]}, "sets": [[V(0)], [V(1)]]},
    {"op": "ancestral_components", "g": {"nodes": [], "di": [], "bi": [[0, 2], [1, 2]]}, "cond": [], "roots": [V(0), V(1)]},
    # --- Example 2.1 (Figure 2a)
    {"op": "ancestors", "g": _fig2a(), "v": V(Y_, [[X_, "m"]])},
    {"op": "ancestors", "g": _fig2a(), "v": V(W_, [[Y_, "m"], [Z_, "m"]])},
    {"op": "ancestors", "g": _fig2a(), "v": V(Y_, [[W_, "m"]])},
    {"op": "ancestors", "g": _fig2a(), "v": V(Z_)},
    {"op": "ancestors", "g": _fig2a(), "v": V(Y_, [[Y_, "m"]])},
    {"op": "ancestors", "g": _fig2a(), "v": V(W_, [[X_, "p"]])},
    # --- minimisation examples of the test-suite
    {"op": "minimize", "g": _fig2a(), "v": V(Y_, [[W_, "m"], [X_, "m"], [Z_, "m"]])},
    {"op": "minimize", "g": _fig2a(), "v": V(W_, [[Y_, "m"], [Z_, "m"]])},
    {"op": "minimize", "g": _fig2a(), "v": V(Y_, [[W_, "m"], [Y_, "m"]])},
    {"op": "minimize_event", "g": _fig2a(), "e": [[V(Y_, [[W_, "m"], [X_, "m"], [Z_, "m"]]), val(Y_)], [V(W_, [[X_, "m"], [Z_, "m"]]), val(W_, "p")]]},
    # --- SIMPLIFY examples of the test-suite (test_inconsistent_*, test_simplify_1, test_simplify_y)
    {"op": "simplify", "g": _fig2a(), "e": [[V(Y_, [[X_, "m"]]), val(Y_)], [V(Y_, [[X_, "m"]]), val(Y_, "p")]]},
    {"op": "simplify", "g": _fig2a(), "e": [[V(Y_, [[Y_, "m"]]), val(Y_, "p")]]},
    {"op": "simplify", "g": _fig2a(), "e": [[V(Y_, [[X_, "m"]]), val(Y_)], [V(Y_, [[Z_, "m"]]), val(Y_)]]},
    {"op": "simplify", "g": _fig2a(), "e": [[V(Y_, [[X_, "m"]]), "n"], [V(Y_, [[Z_, "m"]]), val(Y_)]]},
    {"op": "simplify", "g": _fig2a(), "e": [[V(Y_, [[X_, "m"]]), val(Y_)], [V(Y_, [[X_, "m"]]), "n"], [V(Y_, [[Z_, "m"]]), val(Y_)]]},
    {"op": "simplify", "g": _fig2a(), "e": [[V(Y_, [[Y_, "m"]]), val(Y_)]]},
    {"op": "simplify", "g": _fig2a(), "e": [[V(Y_, [[Y_, "m"]]), val(Y_)], [V(Y_), val(Y_, "p")]]},
    {"op": "simplify", "g": _fig2a(), "e": [[V(Y_, [[Y_, "p"]]), val(Y_, "p")], [V(Y_), val(Y_, "p")]]},
    {"op": "simplify", "g": _fig2a(), "e": [[V(Y_, [[W_, "m"], [Y_, "m"]]), val(Y_)], [V(Y_), val(Y_)]]},
    {"op": "simplify", "g": _fig2a(), "e": [[V(Y_), val(Y_)], [V(Y_), "n"]]},
    # --- ctf-factor form, Example 4.2 / Eq. 16
    {"op": "is_factor_form", "g": _fig2a(), "vs": [V(Y_, [[X_, "m"], [W_, "m"], [Z_, "m"]]), V(W_, [[X_, "m"]]), V(X_, [[Z_, "m"]]), V(Z_)]},
    {"op": "is_factor_form", "g": _fig2a(), "vs": [V(Y_, [[X_, "m"]])]},
    {"op": "factors", "g": _fig2a(), "vs": [V(Y_, [[X_, "m"], [W_, "m"], [Z_, "m"]]), V(W_, [[X_, "m"]]), V(X_, [[Z_, "m"]]), V(Z_)]},
    {"op": "factors_values", "g": _fig2a(), "e": [[V(Y_, [[X_, "m"], [W_, "m"], [Z_, "m"]]), val(Y_)], [V(W_, [[X_, "m"]]), val(W_)], [V(X_, [[Z_, "m"]]), val(X_)], [V(Z_), val(Z_)]]},
    {"op": "convert", "g": _fig2a(), "e": [[V(Y_, [[X_, "m"]]), val(Y_)], [V(W_, [[X_, "m"]]), val(W_)], [V(X_, [[Z_, "m"]]), val(X_)], [V(Z_), val(Z_)]]},
    {"op": "factorize", "g": _fig2a(), "e": [[V(Y_, [[X_, "m"], [W_, "m"], [Z_, "m"]]), val(Y_)], [V(W_, [[X_, "m"]]), val(W_)], [V(X_, [[Z_, "m"]]), val(X_)], [V(Z_), val(Z_)]]},
    {"op": "factorize", "g": _fig2a(), "e": [[V(Y_, [[X_, "m"]]), val(Y_)], [V(W_, [[X_, "m"]]), val(W_)], [V(X_, [[Z_, "m"]]), val(X_)], [V(Z_), val(Z_)]]},
    {"op": "factorize", "g": _fig2a(), "e": [[V(Y_, [[X_, "m"]]), val(Y_)], [V(X_), val(X_)]]},
    {"op": "factorize", "g": _fig2a(), "e": [[V(Y_, [[X_, "m"]]), val(Y_)], [V(X_), val(X_, "p")]]},   # Eq. 16 as printed: P(y_x, x')
    {"op": "factorize", "g": _fig2a(), "e": []},
    {"op": "factorize", "g": _fig1(), "e": [[V(1, [[0, "m"]]), val(1)]]},
    {"op": "simplify_factorize", "g": _fig1(), "e": [[V(1, [[0, "m"]]), val(1)], [V(2, [[0, "m"]]), val(2)]]},
    # --- minimal inputs of the open findings (kept so that a future repair is noticed: KNOWN-FINDING lines disappear)
    {"op": "simplify", "g": {"nodes": [1], "di": [], "bi": []}, "e": [[V(1, [[1, "m"]]), val(1)]], "seed": 1},
    {"op": "simplify", "g": {"nodes": [1], "di": [], "bi": []}, "e": [[V(1, [[1, "m"]]), val(1)], [V(1), val(1, "p")]], "seed": 1},
    {"op": "factorize", "g": {"nodes": [], "di": [[0, 1]], "bi": []}, "e": [[V(1), val(1)], [V(1, [[0, "m"]]), val(1, "p")]], "seed": 2},
    {"op": "factorize", "g": {"nodes": [], "di": [[0, 1], [0, 2]], "bi": []}, "e": [[V(1, [[0, "m"]]), val(1)], [V(2), val(2)]], "seed": 1},
    {"op": "factorize", "g": {"nodes": [], "di": [[0, 1]], "bi": []}, "e": [[V(1), val(1)], [V(0), val(0, "p")]], "seed": 2},
    # --- Example 4.5-like ancestral components (Figure 2a)
    {"op": "ancestral_components", "g": _fig2a(), "cond": [V(X_)], "roots": [V(Y_, [[X_, "m"]]), V(X_)]},
    {"op": "ancestral_components", "g": _fig2a(), "cond": [V(Z_), V(X_, [[Z_, "m"]])], "roots": [V(Y_, [[X_, "m"]]), V(Z_), V(X_, [[Z_, "m"]])]},
]


# ------------------------------------------------------------------------------------------ generators

def _rand_star(rng, p_plain=0.92):
    r = rng.random()
    return "n" if r < p_plain else ("m" if r < (1 + p_plain) / 2 else "p")


def rand_var(rng, g, nodes, kmax=3, p_outside=0.0, star_plain=0.92, p_both=0.03, p_iv=0.0):
    """a counterfactual variable over the graph: 0-kmax subscripts among ancestors / non-ancestors / itself"""
    pool = list(nodes) or [0]
    n = rng.choice(pool)
    if rng.random() < p_outside:
        n = rng.choice([90, 91])
    k = rng.choice([0, 1, 1, 2, 2, 3][: 2 * kmax]) if kmax else 0
    ivs = []
    cand = [x for x in pool if x != n]
    rng.shuffle(cand)
    for x in cand[:k]:
        ivs.append([x, "p" if rng.random() < 0.3 else "m"])
    if rng.random() < 0.12:  # reflexive Y_y
        ivs.append([n, "p" if rng.random() < 0.4 else "m"])
    if ivs and rng.random() < p_both:
        a, s = rng.choice(ivs)
        ivs.append([a, "p" if s == "m" else "m"])
    if ivs and rng.random() < p_outside:
        ivs.append([rng.choice([90, 91]), "m"])
    isiv = "0"
    star = _rand_star(rng, star_plain)
    if not ivs and rng.random() < p_iv:
        isiv, star = "1", rng.choice(["m", "p"])
    return V(n, ivs, star, isiv)


def rand_value(rng, v, p_none=0.1, p_wrongname=0.0, nodes=()):
    r = rng.random()
    if r < p_none:
        return "n"
    n = S.name(v)
    if nodes and rng.random() < p_wrongname:
        n = rng.choice(list(nodes))
    return [n, "p" if rng.random() < 0.4 else "m"]


def rand_event(rng, g, nodes, nmax=4, malformed=False, p_none=0.1, kmax=3):
    k = rng.randint(1, nmax)
    ev = []
    for _ in range(k):
        if ev and rng.random() < 0.25:  # repeated variable (same or different value)
            v = rng.choice(ev)[0]
            if rng.random() < 0.3 and v[4]:
                # same variable with an additional irrelevant-looking subscript
                extra = [x for x in nodes if x != S.name(v) and x not in [a for a, _ in v[4]]]
                if extra:
                    v = V(S.name(v), v[4] + [[rng.choice(extra), "m"]], v[2], v[3])
        else:
            v = rand_var(rng, g, nodes, kmax=kmax, p_outside=0.04 if malformed else 0.0,
                         star_plain=0.85 if malformed else 1.0, p_both=0.05 if malformed else 0.01,
                         p_iv=0.1 if malformed else 0.0)
        ev.append([v, rand_value(rng, v, p_none=p_none, p_wrongname=0.1 if malformed else 0.0, nodes=nodes)])
    return ev


def _scm_graph(rng, nmax=5):
    for _ in range(50):
        g = _graph(rng, nmax)
        if len(g["bi"]) <= 4:
            return g
    g["bi"] = g["bi"][:4]
    return g


CORPUS_DIR = C.VERIF / "corpus" / "C19"


def load_corpus():
    """corpus/C19/*.json: paper / test-suite examples and every past witness (written by `write_corpus`, run first)"""
    out = []
    for f in sorted(CORPUS_DIR.glob("*.json")):
        c = json.loads(f.read_text())
        c.pop("_comment", None)
        out.append(c)
    return out


def write_corpus():
    CORPUS_DIR.mkdir(parents=True, exist_ok=True)
    for k, c in enumerate(CORPUS):
        c = dict(c)
        c.setdefault("seed", 1)
        c.setdefault("models", 2)
        (CORPUS_DIR / f"{k:03d}_{c['op']}.json").write_text(json.dumps(c, sort_keys=True) + "\n")


def _graph(rng, nmax=6):
    n = rng.choices([1, 2, 3, 4, 5, 6], weights=[4, 8, 20, 26, 26, 16])[0]
    n = min(n, nmax)
    return G.rand_graph(rng, n, n, acyclic=True)


# ---- structured families (deterministic enumeration; `rng` only picks values / companions) ----------------------

def _chain_graphs():
    """chains 0->1->..->L-1 (L = 3, 4) with every set of shortcut edges and at most one bidirected edge"""
    out = []
    for L in (3, 4):
        base = [[i, i + 1] for i in range(L - 1)]
        shortcuts = [[i, j] for i in range(L) for j in range(i + 2, L)]
        pairs = [[i, j] for i in range(L) for j in range(i + 1, L)]
        for mask in range(1 << len(shortcuts)):
            di = base + [e for k, e in enumerate(shortcuts) if mask >> k & 1]
            for bi in [[]] + [[e] for e in pairs]:
                out.append({"nodes": [], "di": di, "bi": bi})
    return out


def _subsets(xs, kmin=1):
    for mask in range(1, 1 << len(xs)):
        sub = [x for k, x in enumerate(xs) if mask >> k & 1]
        if len(sub) >= kmin:
            yield sub


def structured_nested(rng, models):
    """nested subscripts: Y_{x,z,..} on chains where one intervened variable reaches Y (or an ancestor of Y) only
    through another; one case per (graph, variable, subscript set) and function that looks at An(.)_{G_bar X}"""
    out = []
    for g in _chain_graphs():
        L = len(S.all_nodes(g))
        for y in range(2, L):
            for sub in _subsets(list(range(y)), 1):
                ivs = [[a, "p" if rng.random() < 0.2 else "m"] for a in sub]
                v = V(y, ivs)
                seed = rng.randrange(1 << 30)
                out.append({"op": "ancestors", "g": g, "v": v, "seed": seed, "models": 0})
                out.append({"op": "minimize", "g": g, "v": v, "seed": seed, "models": models if len(sub) >= 2 else 0})
                if len(sub) >= 2:
                    other = V(rng.choice([a for a in range(L) if a != y]))
                    roots = [v, other]
                    cond = [other] if rng.random() < 0.5 else []
                    out.append({"op": "ancestral_components", "g": g, "roots": roots, "cond": cond, "seed": seed, "models": 0})
                    out.append({"op": "ancestral_set_after", "g": g, "v": v, "cond": [V(a) for a in range(y) if a not in sub][:1],
                                "seed": seed, "models": 0})
                    q = [[v, val(y, "p" if rng.random() < 0.3 else "m")]]
                    out.append({"op": "factorize", "g": g, "e": q, "seed": seed, "models": models})
                    if rng.random() < 0.5:
                        z = rng.choice([a for a in range(L) if a != y])
                        q2 = q + [[V(z, [iv for iv in ivs if iv[0] < z and rng.random() < 0.7]), val(z)]]
                        out.append({"op": rng.choice(["factorize", "simplify_factorize"]), "g": g, "e": q2, "seed": seed,
                                    "models": models})
    return out


def structured_starred_parent(rng, models, n_graphs):
    """a subscript that fixes a direct parent to the STARRED value (Y @ +X with X -> Y), through every ctf-factor
    function: conversion, ctf-factor test, grouping (with and without values), factorisation"""
    out = []
    for _ in range(n_graphs):
        g = _scm_graph(rng, 5)
        if not g["di"]:
            continue
        nodes = G.all_nodes(g)
        x, y = rng.choice(g["di"])
        pa = sorted(S.parents(g, y))
        ivs = [[x, "p"]]
        for p in pa:
            if p != x and rng.random() < 0.5:
                ivs.append([p, "p" if rng.random() < 0.5 else "m"])
        others = [a for a in nodes if a != y and a not in pa]
        if others and rng.random() < 0.3:
            ivs.append([rng.choice(others), "m"])
        v = V(y, ivs)
        seed = rng.randrange(1 << 30)
        item = [v, val(y, "p" if rng.random() < 0.4 else "m")]
        ev = [item]
        for _k in range(rng.randint(0, 2)):
            w = rand_var(rng, g, nodes, kmax=2, star_plain=1.0, p_both=0.0)
            ev.append([w, rand_value(rng, w, p_none=0.05)])
        out.append({"op": "convert", "g": g, "e": ev, "seed": seed, "models": 0})
        cv = [S_convert(g, w) for w, _ in ev]       # in ctf-factor form, +X kept
        out.append({"op": "is_factor_form", "g": g, "vs": cv, "seed": seed, "models": 0})
        out.append({"op": "factors", "g": g, "vs": cv, "seed": seed, "models": 0})
        out.append({"op": "factors_values", "g": g, "e": [[S_convert(g, w), x_] for w, x_ in ev], "seed": seed, "models": 0})
        out.append({"op": "factorize", "g": g, "e": [item], "seed": seed, "models": models})
        out.append({"op": rng.choice(["factorize", "simplify_factorize", "factorize_classes"]), "g": g, "e": ev[:2],
                    "seed": seed, "models": models})
    return out


def structured_conditioned(rng, n_graphs):
    """conditioned variables for get_ancestral_components and its helpers: the conditioned set contains ancestors of a
    root (whose outgoing edges are then cut), the root itself, variables with a causally irrelevant subscript (which
    only match a member of An(W_t) after minimisation) and variables outside An(W_t)"""
    out = []
    graphs = _chain_graphs()
    for k in range(n_graphs):
        g = graphs[k % len(graphs)] if k % 3 == 0 else _graph(rng)
        nodes = G.all_nodes(g)
        if len(nodes) < 2 or not g["di"]:
            continue
        x, y = rng.choice(g["di"])
        anc = sorted(S.anc(g, {y}))
        non_anc = [a for a in nodes if a not in anc]
        sub = [[a, "m"] for a in anc if a != y and rng.random() < 0.3]
        root = V(y, sub)
        cond = []
        for a in anc:
            if rng.random() < 0.5:
                extra = [[b, "m"] for b in non_anc if rng.random() < 0.4 and b != a]   # irrelevant subscripts
                inherited = [iv for iv in sub if iv[0] != a and rng.random() < 0.6]
                cond.append(V(a, inherited + extra))
        if non_anc and rng.random() < 0.3:
            cond.append(V(rng.choice(non_anc)))
        seed = rng.randrange(1 << 30)
        roots = [root] + [c for c in cond if rng.random() < 0.7]
        if rng.random() < 0.5:
            roots.append(rand_var(rng, g, nodes, kmax=2, p_both=0.0, star_plain=1.0))
        out.append({"op": "ancestral_components", "g": g, "roots": roots, "cond": cond, "seed": seed, "models": 0})
        out.append({"op": "cond_in_ancestral_set", "g": g, "v": root, "cond": cond, "seed": seed, "models": 0})
        out.append({"op": "ancestral_set_after", "g": g, "v": root, "cond": cond, "seed": seed, "models": 0})
    return out


def _rand_sets(rng, g, nodes, malformed=False, disjoint=False):
    k = rng.randint(0, 4)
    sets = []
    for _ in range(k):
        sets.append([rand_var(rng, g, nodes, kmax=2, p_both=0.0) for _ in range(rng.randint(0 if malformed else 1, 3))])
    if sets and rng.random() < 0.3:
        sets.append(list(rng.choice(sets)))
    if disjoint:     # every graph vertex in at most one (distinct) set
        owner, keep = {}, []
        for s in sets:
            s2 = [v for v in s if owner.setdefault(S.name(v), len(keep)) == len(keep)]
            if s2:
                keep.append(s2)
        sets = keep
        if sets and rng.random() < 0.2:
            sets.append(list(rng.choice(sets)))
    return sets


POSITIONAL_OK = ("minimize", "ancestors", "merge_common", "merge_bidirected")   # every other entry point is keyword-only
SET_OPS = ("components_from_sets", "ancestral_components", "is_factor_form", "factors", "factors_values",
           "cond_in_ancestral_set", "ancestral_set_after", "merge_common", "merge_bidirected")
EVENT_OPS = ("minimize_event", "simplify", "convert", "factorize", "simplify_factorize", "sem_values")
SET_FORMS = FM.REITERABLE + ("set",)             # parameters typed set[...]: see ASSUMPTIONS for the forms left out
EVENT_FORMS = ("list", "list", "tuple")          # Event = list[tuple[Variable, Intervention]]


def _slots(case):
    op = case["op"]
    if op == "factorize_classes":
        return {}
    sl = {"ctor": FM.CTORS}
    if op in POSITIONAL_OK:
        sl["call"] = ("positional", "keyword")
    if op in SET_OPS:
        sl["set"] = SET_FORMS
    if op in EVENT_OPS:
        sl["event"] = EVENT_FORMS
    return sl


def _forms(case):
    fm = FM.forms_of(case, _slots(case))
    import os
    for k in ("set", "event", "ctor"):          # probe hook (tools only): force one form for a whole run
        v = os.environ.get("VERIF_C19_FORCE_" + k.upper())
        if v and k in fm:
            fm[k] = v
    return fm


def cases(rng: random.Random, tier: str):
    return [FM.assign(c, _slots(c)) for c in _cases(rng, tier)]


def _cases(rng: random.Random, tier: str):
    out = load_corpus()
    quick = tier != "thorough"
    n_set = 22000 if quick else 120000     # set-valued / structural streams (random)
    n_sem = 18000 if quick else 100000     # streams evaluated on functional SCMs (random)
    if tier == "escalated":
        n_set, n_sem = 45000, 36000
    models = 3 if quick else 4
    # structured families first: they hit the nesting / starred-parent / conditioned-variable branches by construction
    out += structured_nested(rng, 2)
    out += structured_starred_parent(rng, 2, 350 if tier == "quick" else 1500)
    out += structured_conditioned(rng, 700 if tier == "quick" else 3000)
    weights = [("minimize", 3), ("minimize_event", 1), ("ancestors", 4), ("components_from_sets", 2),
               ("ancestral_components", 4), ("is_factor_form", 2), ("factors", 2), ("factors_values", 1), ("convert", 2),
               ("factorize_classes", 3), ("cond_in_ancestral_set", 1), ("ancestral_set_after", 2), ("merge_common", 1),
               ("merge_bidirected", 1)]
    ops = [o for o, w in weights for _ in range(w)]
    for _ in range(n_set):
        op = rng.choice(ops)
        malformed = rng.random() < 0.12 and op != "factorize_classes"
        g = _graph(rng)
        nodes = G.all_nodes(g)
        c = {"op": op, "g": g, "seed": rng.randrange(1 << 30), "models": 0, "malformed": malformed}
        pout = 0.05 if malformed else 0.0
        if op in ("minimize", "ancestors"):
            c["v"] = rand_var(rng, g, nodes, p_outside=pout, star_plain=0.7 if malformed else 0.95,
                              p_both=0.05, p_iv=0.15 if malformed else 0.0)
        elif op in ("minimize_event", "convert", "factors_values"):
            c["e"] = rand_event(rng, g, nodes, malformed=malformed)
            if op == "factors_values" and rng.random() < 0.7:
                c["e"] = [[S_convert(g, v), x] if S.name(v) in nodes else [v, x] for v, x in c["e"]]
        elif op == "factorize_classes":
            c["e"] = rand_event(rng, g, nodes, nmax=3, p_none=0.1, kmax=2)
        elif op in ("components_from_sets", "merge_common"):
            c["sets"] = _rand_sets(rng, g, nodes, malformed)
        elif op == "merge_bidirected":
            c["sets"] = _rand_sets(rng, g, nodes, False, disjoint=rng.random() < 0.9)
        elif op in ("ancestral_components", "cond_in_ancestral_set", "ancestral_set_after"):
            roots = [rand_var(rng, g, nodes, kmax=2, p_outside=pout, p_both=0.0, star_plain=1.0) for _ in range(rng.randint(1, 3))]
            cond = [r for r in roots if rng.random() < 0.4]
            if rng.random() < 0.35:
                cond.append(rand_var(rng, g, nodes, kmax=2, p_both=0.0, star_plain=1.0))
            if op == "ancestral_components":
                c["roots"], c["cond"] = roots, cond
            else:
                c["v"], c["cond"] = roots[0], cond[::-1] + [V(a) for a in nodes if rng.random() < 0.25]
        elif op in ("is_factor_form", "factors"):
            vs = [rand_var(rng, g, nodes, kmax=3, p_outside=pout, p_both=0.02) for _ in range(rng.randint(0, 4))]
            r = rng.random()
            if r < 0.6:   # mostly in ctf-factor form, sometimes with an extra subscript
                vs = [S_convert(g, v) if S.name(v) in nodes else v for v in vs]
                if vs and rng.random() < 0.3:
                    i = rng.randrange(len(vs))
                    extra = [x for x in nodes if x != S.name(vs[i]) and x not in [a for a, _ in vs[i][4]]]
                    if extra:
                        vs[i] = V(S.name(vs[i]), vs[i][4] + [[rng.choice(extra), "m"]])
            c["vs"] = vs
        out.append(c)
    sem_ops = ["minimize"] * 6 + ["simplify"] * 10 + ["factorize"] * 6 + ["simplify_factorize"] * 6 + ["sem_values"]
    for _ in range(n_sem):
        op = rng.choice(sem_ops)
        malformed = op == "simplify" and rng.random() < 0.1
        g = _scm_graph(rng, 5 if quick else 6)
        nodes = G.all_nodes(g)
        c = {"op": op, "g": g, "seed": rng.randrange(1 << 30), "models": 1 if op == "sem_values" else models,
             "malformed": malformed}
        if op == "minimize":
            c["v"] = rand_var(rng, g, nodes, star_plain=0.95, p_both=0.0)
            if not c["v"][4]:
                c["v"] = rand_var(rng, g, nodes, star_plain=0.95, p_both=0.0)
        elif op == "simplify":
            c["e"] = rand_event(rng, g, nodes, malformed=malformed, p_none=0.08)
        else:
            c["e"] = rand_event(rng, g, nodes, nmax=3, p_none=0.05, kmax=2)
        out.append(c)
    # fifth round (gap review): factorisation of WIDE queries (>= 4 items over >= 4 distinct vertices) and of queries whose
    # ancestral set holds a district of >= 3 vertices that is NOT a bidirected clique (chain A <-> B <-> C with the middle
    # vertex an ancestor of the query: a factorisation that groups by bidirected NEIGHBOURHOOD instead of district splits it)
    for _ in range(max(40, n_sem // 30)):
        out.append(_wide_query_case(rng, models))
    for _ in range(max(40, n_sem // 30)):
        out.append(_chain_district_case(rng, models))
    return out


def _wide_query_case(rng, models):
    """4-5 items over distinct vertices of a 5-node graph (6 in one case of ten; <= 3 bidirected edges), one world or
    plain variables mostly: outside the three known-finding classes, so the value oracle judges the factorisation"""
    while True:
        g = _scm_graph(rng, 6 if rng.random() < 0.1 else 5)
        nodes = G.all_nodes(g)
        if len(nodes) >= 5 and len(g["bi"]) <= 3:
            break
    k = rng.choice([4, 4, 5])
    xs = [rng.choice(nodes)] if rng.random() < 0.5 else []
    rest = [v for v in nodes if v not in xs]
    rng.shuffle(rest)
    ivs = [[x, "p" if rng.random() < 0.3 else "m"] for x in xs]
    ev = []
    for v in rest[:k]:
        var = V(v, ivs if rng.random() < 0.85 else [])
        # mostly base values: an outcome that is a parent of another outcome with value +P / None falls in the known class
        # factorisation-value:outcome-parent-value, which would leave the case to the correspondence alone
        ev.append([var, [v, "m"] if rng.random() < 0.85 else rand_value(rng, var, p_none=0.1)])
    op = rng.choice(["factorize", "factorize", "simplify_factorize", "factorize_classes", "sem_values"])
    return {"op": op, "g": g, "e": ev, "seed": rng.randrange(1 << 30), "models": 1 if op == "sem_values" else models,
            "malformed": False, "stream": "wide_query"}


def _chain_district_case(rng, models):
    """a chain district A <-> B <-> C (optionally <-> D) inside An(query): every chain vertex has a directed path to the
    query variable Y; further vertices / edges at random; the query is Y (optionally with a subscript on a non-chain
    vertex, optionally a second item on a chain vertex)"""
    n = rng.choice([4, 5, 5])
    lab = rng.sample(range(6), n)
    chain, y = lab[: n - 1] if n == 4 or rng.random() < 0.4 else lab[: 3], lab[-1]
    extra = [v for v in lab if v not in chain and v != y]
    bi = [[chain[i], chain[i + 1]] for i in range(len(chain) - 1)]
    di = []
    for i, a in enumerate(chain):
        r = rng.random()
        if r < 0.6 or i == len(chain) - 1:
            di.append([a, y])
        else:
            di.append([a, chain[i + 1]])       # reaches Y through the next chain vertex
    for z in extra:
        r = rng.random()
        if r < 0.4:
            di.append([z, rng.choice(chain)])
        elif r < 0.7:
            di += [[rng.choice(chain), z], [z, y]]
        else:
            di.append([z, y])
    if rng.random() < 0.2:
        bi.append([chain[-1], y])
    g = {"nodes": [], "di": di, "bi": bi}
    ivs = [[z, rng.choice("mp")] for z in extra if rng.random() < 0.3]
    yv = V(y, ivs)
    ev = [[yv, rand_value(rng, yv, p_none=0.0)]]
    if rng.random() < 0.4:
        a = rng.choice(chain)
        av = V(a, [i for i in ivs])
        ev.append([av, [a, "m"] if rng.random() < 0.8 else rand_value(rng, av, p_none=0.0)])
    op = rng.choice(["factorize", "factorize", "simplify_factorize", "factors", "factorize_classes", "sem_values"])
    c = {"op": op, "g": g, "seed": rng.randrange(1 << 30), "models": 1 if op == "sem_values" else models,
         "malformed": False, "stream": "chain_district"}
    if op == "factors":
        # the ancestral set in ctf-factor form, as do_counterfactual_factor_factorization passes it
        names = set(chain) | {y}
        c["vs"] = [S_convert(g, V(v)) for v in sorted(names)]
    else:
        c["e"] = ev
    return c


def S_convert(g, v):
    """naive ctf-factor form of one variable (used by the generator and by the oracle)"""
    pa = sorted(S.parents(g, S.name(v)))
    ivs = []
    for p in pa:
        own = [[a, s] for a, s in S.ivs(v) if a == p]
        ivs += own if own else [[p, "m"]]
    return V(S.name(v), ivs)


# ------------------------------------------------------------------------------------------ real code

def _dec_val(x):
    from y0.dsl import Intervention

    if x == "n":
        return None
    return Intervention(name=G.vname(int(x[0])), star=(x[1] == "p"))


def _enc_val(x):
    if x is None:
        return "n"
    return [str(G.name_to_int(x.name)), "p" if x.star else "m"]


def _enc_var(v):
    return to_str_tree(enc_var(v))


def _enc_event(e):
    return [[_enc_var(v), _enc_val(x)] for v, x in e]


def _dec_event(e):
    return [(dec_var(v), _dec_val(x)) for v, x in e]


def _bag(xs):
    """a list compared as a multiset"""
    return sorted(xs, key=C.sort_key)


def _enc_factorisation(expr, event):
    """(Sum over ranges of a Product of joint probabilities, event) -> canonical form, sets as sets"""
    from y0.dsl import Probability, Product, Sum
    from ..enc_expr import enc_expr

    ranges = []
    inner = expr
    if isinstance(inner, Sum):
        ranges = [_enc_var(r) for r in inner.ranges]
        inner = inner.expression
    fs = list(inner.expressions) if isinstance(inner, Product) else [inner]
    if all(isinstance(f, Probability) and not f.parents for f in fs):
        factors = C.as_set([C.as_set([_enc_var(v) for v in f.children]) for f in fs])
        if len(factors) != len(fs):
            return ["odd", to_str_tree(enc_expr(expr)), _enc_event(event)]
        return ["fact", C.as_set(ranges), factors, _bag(_enc_event(event))]
    return ["odd", to_str_tree(enc_expr(expr)), _enc_event(event)]


def _outside(case):
    nodes = set(S.all_nodes(case["g"]))
    return any(S.name(v) not in nodes for v in case.get("vs", []))


def _call(case):
    """returns (canonical output, exception class name | None, well-formedness complaint | None)"""
    from y0.algorithm.counterfactual_transport import ancestor_utils as au
    from y0.algorithm.counterfactual_transport import api
    from y0.dsl import CounterfactualVariable, Intervention, Variable

    op = case["op"]
    fm = _forms(case)
    ctor = fm.get("ctor", "from_edges")
    try:
        graph = FM.build_graph(case["g"], ctor, seed=case.get("seed", 0))
    except Exception as e:  # noqa: BLE001
        return ["err"], "ConstructorFault", f"constructor {ctor} raised {type(e).__name__}: {str(e)[:100]}"
    wf = FM.constructor_fault(case["g"], graph, ctor)
    if wf:
        return ["err"], "ConstructorFault", wf
    before = (set(graph.directed.nodes()), set(graph.directed.edges()), set(graph.undirected.edges()))
    kwcall = fm.get("call") == "keyword"
    mkset = lambda xs: FM.container(list(xs), fm.get("set", "set"))            # noqa: E731
    mkevent = lambda e: FM.container(_dec_event(e), fm.get("event", "list"))    # noqa: E731
    try:
        if op == "minimize":
            v = dec_var(case["v"])
            r = au.minimize_counterfactual(variable=v, graph=graph) if kwcall else au.minimize_counterfactual(v, graph)
            if isinstance(r, CounterfactualVariable):
                if not r.interventions or not all(isinstance(i, Intervention) for i in r.interventions):
                    wf = "minimize_counterfactual returned a CounterfactualVariable without (proper) interventions"
            elif not isinstance(r, Variable):
                wf = f"minimize_counterfactual returned a {type(r).__name__}"
            out = ["ok", _enc_var(r)]
        elif op == "minimize_event":
            out = ["ok", _bag(_enc_event(api.minimize_event(event=mkevent(case["e"]), graph=graph)))]
        elif op == "simplify":
            r = api.simplify(event=mkevent(case["e"]), graph=graph)
            out = ["ok", "none"] if r is None else ["ok", ["some", C.as_set(_enc_event(r))]]
            if r is not None and len({v for v, _ in r}) != len(r):
                wf = "simplify returned an event with a repeated variable"
        elif op == "ancestors":
            r = au.get_ancestors_of_counterfactual(event=dec_var(case["v"]), graph=graph) if kwcall else \
                au.get_ancestors_of_counterfactual(dec_var(case["v"]), graph)
            out = ["ok", C.as_set([_enc_var(v) for v in r])]
        elif op == "components_from_sets":
            sets = mkset({frozenset(dec_var(v) for v in s) for s in case["sets"]})
            r = au._compute_ancestral_components_from_ancestral_sets(ancestral_sets=sets, graph=graph)
            out = ["ok", C.as_set([C.as_set([_enc_var(v) for v in s]) for s in r])]
        elif op == "ancestral_components":
            r = au.get_ancestral_components(conditioned_variables=mkset({dec_var(v) for v in case["cond"]}),
                                            root_variables=mkset({dec_var(v) for v in case["roots"]}), graph=graph)
            out = ["ok", C.as_set([C.as_set([_enc_var(v) for v in s]) for s in r])]
        elif op == "is_factor_form":
            r = api.is_counterfactual_factor_form(event=mkset({dec_var(v) for v in case["vs"]}), graph=graph)
            out = ["ok", "true" if r else "false"]
            if not r and _outside(case):
                out = ["ok", "false-or-err"]   # set iteration order decides whether the non-node is reached
        elif op == "factors":
            r = api.get_counterfactual_factors(event=mkset({dec_var(v) for v in case["vs"]}), graph=graph)
            out = ["ok", C.as_set([C.as_set([_enc_var(v) for v in s]) for s in r])]
            if sum(len(s) for s in r) != len({dec_var(v) for v in case["vs"]}):
                wf = "get_counterfactual_factors: the factors do not partition the event"
        elif op == "factors_values":
            r = api.get_counterfactual_factors_retaining_variable_values(event=mkset(set(_dec_event(case["e"]))), graph=graph)
            out = ["ok", C.as_set([C.as_set(_enc_event(s)) for s in r])]
        elif op == "convert":
            out = ["ok", _bag(_enc_event(api.convert_to_counterfactual_factor_form(event=mkevent(case["e"]), graph=graph)))]
        elif op == "factorize":
            expr, ev = api.do_counterfactual_factor_factorization(variables=mkevent(case["e"]), graph=graph)
            out = ["ok", _enc_factorisation(expr, ev)]
        elif op == "cond_in_ancestral_set":
            r = au._get_conditioned_variables_in_ancestral_set(
                conditioned_variables=mkset({dec_var(v) for v in case["cond"]}),
                ancestral_set_root_variable=dec_var(case["v"]), graph=graph)
            out = ["ok", C.as_set([str(G.name_to_int(v.name)) for v in r])]
            if not all(type(v) is Variable and v.star is None for v in r):
                wf = "_get_conditioned_variables_in_ancestral_set returned something that is not a graph vertex"
        elif op == "ancestral_set_after":
            r = au._get_ancestral_set_after_intervening_on_conditioned_variables(
                conditioned_variables=mkset({dec_var(v) for v in case["cond"]}),
                ancestral_set_root_variable=dec_var(case["v"]), graph=graph)
            out = ["ok", C.as_set([_enc_var(v) for v in r])]
        elif op == "merge_common":
            sets = mkset({frozenset(dec_var(v) for v in s) for s in case["sets"]})
            r = au._merge_frozen_sets_with_common_vertices(input_sets=sets) if kwcall else au._merge_frozen_sets_with_common_vertices(sets)
            out = ["ok", C.as_set([C.as_set([_enc_var(v) for v in s]) for s in r])]
        elif op == "merge_bidirected":
            sets = mkset({frozenset(dec_var(v) for v in s) for s in case["sets"]})
            r = au._merge_frozen_sets_linked_by_bidirectional_edges(input_sets=sets, graph=graph) if kwcall else \
                au._merge_frozen_sets_linked_by_bidirectional_edges(sets, graph)
            out = ["ok", C.as_set([C.as_set([_enc_var(v) for v in s]) for s in r])]
            if not _disjoint_bases(case["sets"]) or any(not s for s in case["sets"]):
                out = ["ok", "unspecified"]   # only reached with non-empty sets that are disjoint on graph vertices
        elif op == "sem_values":
            # SPEC cross-check: P(query) and the value of the returned sum-product, Python oracle vs Lean specification
            expr, ev = api.do_counterfactual_factor_factorization(variables=_dec_event(case["e"]), graph=graph)
            fact = _enc_factorisation(expr, ev)
            if not _sem_eligible(case) or fact[0] != "fact":
                out = ["ok", "skip"]
            else:
                m, nu = _models(case, case["g"])[0]
                q = case["e"]
                out = ["ok", [_frac(F.prob_event(m, q, nu)),
                              _frac(F.eval_factorised(m, nu, [r[1] for r in fact[1]], fact[2], fact[3]))]]
        elif op == "factorize_classes":
            # no y0 code involved: the Python key functions of the known findings vs the Lean predicates of the theorem
            cs = _factorise_causes(case["g"], case["e"])
            out = ["ok", [("true" if c in cs else "false") for c in ("multi-world", "literal-bound", "outcome-parent-value")]
                   + ["true" if _readable_query(case["e"]) else "false"]]
        elif op == "simplify_factorize":
            r = api.simplify(event=mkevent(case["e"]), graph=graph)
            if r is None:
                out = ["ok", "none"]
            else:
                expr, ev = api.do_counterfactual_factor_factorization(variables=r, graph=graph)
                out = ["ok", ["some", C.as_set(_enc_event(r)), _enc_factorisation(expr, ev)]]
        else:
            raise AssertionError(op)
        exc = None
    except AssertionError:
        raise
    except Exception as e:  # every exception class of the library is a result here
        out, exc = ["err"], type(e).__name__
        if op == "is_factor_form" and _outside(case):
            out = ["ok", "false-or-err"]
    after = (set(graph.directed.nodes()), set(graph.directed.edges()), set(graph.undirected.edges()))
    if before != after:
        wf = "the graph argument was modified by the call"
    return out, exc, wf


# ------------------------------------------------------------------------------------------ oracle

def _t(x):
    return to_str_tree(x)


def _sets(xss):
    return C.as_set([C.as_set([_t(v) for v in s]) for s in xss])


def _disjoint_bases(sets):
    """distinct input sets share no graph vertex (the invariant under which the second merge pass is reached)"""
    seen = {}
    for s in sets:
        key = frozenset(S.vkey(v) for v in s)
        for n in {S.name(v) for v in s}:
            if seen.setdefault(n, key) != key:
                return False
    return True


def _var_ok(g, v, allow_star=True):
    """v is a counterfactual variable over V(G) in the sense of the property"""
    return S.in_graph(g, v) and str(v[3]) == "0" and (allow_star or v[2] == "n")


def _models(case, g, ternary=False):
    rng = random.Random(case.get("seed", 0))
    ms = []
    for k in range(case.get("models", 0)):
        card = 2
        if k % 2 == 1:
            card = {v: rng.choice([2, 3]) for v in S.all_nodes(g)}
        m = F.FSCM(g, rng, card=card, noise_card=2)
        ms.append((m, F.rand_nu(rng, m)))
    return ms


def _expected_factorisation(g, q):
    """shape of Eq. 11-15 in y0's representation: D_* = An(Y_*), every D in ctf-factor form, grouped by the districts of
    G[V(D_*)], summed over V(D_*) minus V(Y_*)"""
    D = {}
    for v, _ in q:
        for a in S.ctf_ancestors(g, v):
            D[S.vkey(a)] = a
    Dc = {}
    for a in D.values():
        c = S_convert(g, a)
        Dc[S.vkey(c)] = c
    names = {S.name(c) for c in Dc.values()}
    outcome = {S.name(v) for v, _ in q}
    factors = []
    for d in S.districts(g, names):
        f = [c for c in Dc.values() if S.name(c) in d]
        if f:
            factors.append(f)
    revent = _bag([[_t(S_convert(g, v)), _t(x)] for v, x in q])
    return ["fact", C.as_set([_t(V(n)) for n in names - outcome]), _sets(factors), revent]


def _check_factor_value(case, g, q, fact, label):
    """semantic clause: the factorised sum-product equals P(query) in every sampled functional SCM"""
    if not case.get("models") or fact[0] != "fact":
        return None
    if not F.readable_event(g, q) or any(S.name(v) in [a for a, _ in S.ivs(v)] for v, _ in q):
        return None
    _, ranges, factors, revent = fact
    for m, nu in _models(case, g):
        want = F.prob_event(m, q, nu)
        got = F.eval_factorised(m, nu, [r[1] for r in ranges], factors, revent)
        if want != got:
            return (f"{label}: the factorised sum-product evaluates to {got} but P(query) = {want} in a functional SCM "
                    f"(seed {case.get('seed')}, nu={nu})")
    return None


def _factorise_causes(g, q):
    """the three syntactic query classes on which y0's two-symbol representation cannot express the factorisation
    (Lean: Y0.Ctf.multiWorld / literalBound / outcomeParentValue, cross-checked by the op `factorize_classes`; theorem
    factorisation_den_partial: outside these classes the value IS P(query)).  Used to group known findings; the verdict
    itself always comes from exact evaluation."""
    causes = set()
    D = {}
    for v, _ in q:
        for a in S.ctf_ancestors(g, v):
            D.setdefault(S.name(a), {})[S.vkey(a)] = a
    if any(len(s) > 1 for s in D.values()):
        causes.add("multi-world")        # one vertex occurs as two different counterfactual variables in An(Y_*)
    outcome = {}
    for v, x in q:
        outcome.setdefault(S.name(v), set()).add("n" if x == "n" else ("m" if x == [S.name(v), "m"] else "p"))
    lit = {a for v, _ in q for a, st in S.ivs(v) if st == "m"}     # a starred subscript +X cannot be captured
    bases = set(D)
    for w in bases:
        for a in D[w].values():
            own = {x for x, _ in S.ivs(a)}
            for p in (S.parents(g, w) & bases) - own:
                if p in outcome and outcome[p] != {"m"}:
                    causes.add("outcome-parent-value")   # the ADDED subscript -P is literal but P's event value is +P / None
    if lit & (bases - set(outcome)):
        causes.add("literal-bound")       # a literal subscript of the query is captured by the summation index
    return sorted(causes)


def _sem_eligible(case):
    """queries on which both specifications (Lean Spec/CtfSem.lean, Python oracles/ctf_fscm.py) are defined"""
    g, q = case["g"], case["e"]
    return bool(q) and all(_var_ok(g, v) for v, _ in q) and F.readable_event(g, q) and _readable_query(q) \
        and len(g["bi"]) <= 4 and S.is_acyclic(g)


def _frac(x):
    return [str(x.numerator), str(x.denominator)]


def _model_sexp(m, nu):
    mechs = []
    for v in m.nodes:
        rows = [[list(k), val_] for k, val_ in sorted(m.f[v].items())]
        mechs.append([v, list(m.pa[v]), list(m.lat_of[v]), rows])
    model = ["model", list(m.order), [list(w) for w in m.weights], mechs]
    nus = [[v, nu[v][0], nu[v][1]] for v in m.nodes]
    card = [[v, m.card[v]] for v in m.nodes]
    return model, nus, card


def _readable_query(q):
    """Lean: Y0.Ctf.readableQuery — no variable intervenes on itself or twice on one name"""
    for v, _ in q:
        names = [a for a, _ in S.ivs(v)]
        if S.name(v) in names or len(names) != len(set(names)):
            return False
    return True


def _oracle(case, out, exc, wf):
    g, op = case["g"], case["op"]
    if wf:
        return wf
    if op == "minimize":
        v = case["v"]
        if not S.in_graph(g, v):
            return None
        if out[0] == "err":
            return (f"minimize_counterfactual raised {exc} on a counterfactual variable over V(G); the property says it "
                    f"always yields a well-formed variable")
        exp = S.minimise(g, v)
        exp = exp[:3] + [v[3]] + [exp[4]] if not exp[4] else exp
        if out[1] != _t(exp):
            return f"minimize_counterfactual: result {out[1]} differs from ||Y_x|| = {_t(exp)}"
        if case.get("models") and F.consistent_subscripts(v):
            r = [out[1][0], int(out[1][1]), out[1][2], out[1][3], [[int(a), s] for a, s in out[1][4]]]
            for m, nu in _models(case, g):
                d = m.same_rv(S.name(v), F.do_of(v, nu), F.do_of(r, nu))
                if d is not None:
                    return f"minimize_counterfactual: the minimised variable differs from the original at noise point {d}"
        return None
    if op == "minimize_event":
        if not all(S.in_graph(g, v) for v, _ in case["e"]):
            return None
        if out[0] == "err":
            return f"minimize_event raised {exc} on an event over V(G)"
        exp = []
        for v, x in case["e"]:
            e = S.minimise(g, v)
            e = e[:3] + [v[3]] + [e[4]] if not e[4] else e
            exp.append([_t(e), _t(x)])
        exp = _bag(exp)
        return None if out[1] == exp else f"minimize_event: {out[1]} differs from the item-wise ||.|| {exp}"
    if op == "simplify":
        e = case["e"]
        if not F.readable_event(g, e):
            return None
        has_none = any(x == "n" for _, x in e)
        if out[0] == "err":
            if exc == "TypeError" and has_none:
                return None
            return f"simplify raised {exc} on a well-formed event over V(G)"
        for m, nu in _models(case, g):
            p = F.prob_event(m, e, nu)
            if out[1] == "none":
                if p != 0:
                    return f"simplify answered None (impossible) but the event has probability {p} in a functional SCM (nu={nu})"
            else:
                r = [[[v[0], int(v[1]), v[2], v[3], [[int(a), s] for a, s in v[4]]], x if x == "n" else [int(x[0]), x[1]]]
                     for v, x in out[1][1]]
                if not F.readable_event(g, r):
                    return f"simplify returned an event that is not over V(G): {out[1][1]}"
                p2 = F.prob_event(m, r, nu)
                if p != p2:
                    return (f"simplify changed the probability of the event: {p} -> {p2} in a functional SCM "
                            f"(seed {case.get('seed')}, nu={nu})")
        return None
    if op == "ancestors":
        v = case["v"]
        if not _var_ok(g, v) or (not v[4] and v[2] != "n"):
            return None
        if out[0] == "err":
            return f"get_ancestors_of_counterfactual raised {exc} on a counterfactual variable over V(G)"
        exp = C.as_set([_t(a) for a in S.ctf_ancestors(g, v)])
        return None if out[1] == exp else f"ancestors {out[1]} differ from Def. 2.1: {exp}"
    if op == "components_from_sets":
        if not all(S.in_graph(g, v) for s in case["sets"] for v in s):
            return None
        if out[0] == "err":
            return f"_compute_ancestral_components_from_ancestral_sets raised {exc}"
        exp = _sets(S.components_from_sets(g, case["sets"]))
        return None if out[1] == exp else f"ancestral components {out[1]} differ from the finest partition of Def. 4.2: {exp}"
    if op == "ancestral_components":
        vs = case["cond"] + case["roots"]
        if not all(_var_ok(g, v, allow_star=False) for v in vs):
            return None
        if out[0] == "err":
            return f"get_ancestral_components raised {exc} on counterfactual variables over V(G)"
        exp = _sets(S.ancestral_components(g, case["cond"], case["roots"]))
        return None if out[1] == exp else f"ancestral components {out[1]} differ from Def. 4.2: {exp}"
    if op in ("cond_in_ancestral_set", "ancestral_set_after"):
        vs = case["cond"] + [case["v"]]
        if not all(_var_ok(g, v, allow_star=False) for v in vs):
            return None
        fn = "_get_conditioned_variables_in_ancestral_set" if op == "cond_in_ancestral_set" else \
            "_get_ancestral_set_after_intervening_on_conditioned_variables"
        if out[0] == "err":
            return f"{fn} raised {exc} on counterfactual variables over V(G)"
        if op == "cond_in_ancestral_set":
            exp = C.as_set([str(n) for n in S.cond_in_ancestral_set(g, case["cond"], case["v"])])
            return None if out[1] == exp else f"{fn}: {out[1]} differs from V(||X*|| ∩ An(W_t)) = {exp}"
        exp = C.as_set([_t(a) for a in S.ancestral_set_after(g, case["cond"], case["v"])])
        return None if out[1] == exp else f"{fn}: {out[1]} differs from An(W_t) in G with the edges out of X*(W_t) removed: {exp}"
    if op in ("merge_common", "merge_bidirected"):
        if not all(S.in_graph(g, v) for s in case["sets"] for v in s):
            return None
        if out[0] == "err":
            return f"_merge_frozen_sets ({op}) raised {exc}"
        if op == "merge_common":
            exp = _sets(S.merge_common(case["sets"]))
            return None if out[1] == exp else f"first merge pass {out[1]} differs from the finest partition closed under overlap: {exp}"
        if not _disjoint_bases(case["sets"]) or any(not s for s in case["sets"]):
            return None   # the second pass is only specified for non-empty sets that are disjoint on graph vertices
        exp = _sets(S.merge_bidirected(g, case["sets"]))
        return None if out[1] == exp else f"second merge pass {out[1]} differs from the finest partition closed under bidirected adjacency: {exp}"
    if op in ("is_factor_form", "factors", "factors_values"):
        vs = case["vs"] if "vs" in case else [v for v, _ in case["e"]]
        if not all(S.in_graph(g, v) for v in vs):
            return None
        loose = all(S.factor_form_loose(g, v) if v[4] else not S.parents(g, S.name(v)) for v in vs)
        exact = all(S.factor_form_exact(g, v) for v in vs)
        if op == "is_factor_form":
            if out[0] == "err":
                return f"is_counterfactual_factor_form raised {exc} on variables over V(G)"
            if exact and out[1] != "true":
                return "is_counterfactual_factor_form rejected variables of the form W_{pa_W} (Def. 3.4)"
            if not loose and out[1] != "false":
                return "is_counterfactual_factor_form accepted a variable that misses a parent or intervenes on itself"
            return None
        if not loose:
            return None if out[0] == "err" else f"{op}: accepted an event that is not in ctf-factor form"
        if out[0] == "err":
            return f"{op} raised {exc} on an event in ctf-factor form" if exact else None
        V_all = S.all_nodes(g)
        ds = S.districts(g, V_all)
        blocks = []
        for f in out[1]:
            names = {int(v[1]) for v in f} if op == "factors" else {int(it[0][1]) for it in f}
            hit = [d for d in ds if names & d]
            if len(hit) != 1:
                return f"{op}: a factor spans several districts: {f}"
            blocks.append(tuple(sorted(hit[0])))
        if len(set(blocks)) != len(blocks):
            return f"{op}: two factors belong to the same district"
        return None
    if op == "convert":
        e = case["e"]
        if not all(S.name(v) in S.all_nodes(g) for v, _ in e):
            return None
        if out[0] == "err":
            return f"convert_to_counterfactual_factor_form raised {exc} on an event over V(G)"
        exp = _bag([[_t(S_convert(g, v)), _t(x)] for v, x in e])
        return None if out[1] == exp else f"convert_to_counterfactual_factor_form: {out[1]} differs from W_(pa_W): {exp}"
    if op == "factorize":
        q = case["e"]
        if not q or not all(_var_ok(g, v) for v, _ in q):
            return None
        if out[0] == "err":
            return f"do_counterfactual_factor_factorization raised {exc} on a query over V(G)"
        exp = _expected_factorisation(g, q)
        if out[1] != exp:
            return f"factorisation {out[1]} differs in shape from Eq. 11-15: {exp}"
        return _check_factor_value(case, g, q, out[1], "do_counterfactual_factor_factorization")
    if op == "simplify_factorize":
        q = case["e"]
        if not F.readable_event(g, q):
            return None
        if out[0] == "err" or out[1] == "none":
            return None   # the simplify stream judges these
        r = [[[v[0], int(v[1]), v[2], v[3], [[int(a), s] for a, s in v[4]]], x if x == "n" else [int(x[0]), x[1]]]
             for v, x in out[1][1]]
        # compare with the probability of the SIMPLIFIED event (the simplify stream judges simplify itself)
        if r and all(_var_ok(g, v) for v, _ in r):
            exp = _expected_factorisation(g, r)
            if out[1][2] != exp:
                return f"SIMPLIFY then factorisation: {out[1][2]} differs in shape from Eq. 11-15 for the simplified event: {exp}"
        return _check_factor_value(case, g, r, out[1][2], "SIMPLIFY then factorisation")
    return None


def run_python(case):
    g = case["g"]
    out, exc, wf = _call(case)
    fail = _oracle(case, out, exc, wf)
    nodes = S.all_nodes(g)
    arg_vars = ([case["v"]] if "v" in case else []) + [v for v, _ in case.get("e", [])] + case.get("vs", []) \
        + case.get("roots", []) + case.get("cond", []) + [v for s in case.get("sets", []) for v in s]
    nsub = max([len(v[4]) for v in arg_vars], default=0)
    nontrivial = len(nodes) >= 3 and bool(g["di"]) and (nsub >= 1 or len(case.get("sets", [])) >= 2)
    tags = {"op": case["op"], "n_nodes": len(nodes), "outcome": out[0] if out[0] == "err" else "ok",
            "exception": exc or "-", "max_subscripts": nsub, "malformed": bool(case.get("malformed")),
            "scm_models": case.get("models", 0)}
    tags["op_exception"] = f"{case['op']}:{exc}" if exc else "-"
    tags.update(FM.tags(_forms(case)))
    if case["op"] in ("components_from_sets", "ancestral_components") and out[0] == "ok":
        n_in = len(case["sets"]) if "sets" in case else len(case["roots"])
        tags["components"] = f"{n_in}->{len(out[1])}"
    if case["op"] == "factorize" and out[0] == "ok" and out[1][0] == "fact":
        tags["factorisation"] = f"{len(out[1][2])} factors, {len(out[1][1])} summed"
    if case["op"] in ("simplify", "simplify_factorize") and out[0] == "ok":
        tags["simplify_result"] = "none" if out[1] == "none" else "event"
    if case["op"] == "minimize" and out[0] == "ok":
        tags["minimize_dropped"] = len(case["v"][4]) - len(out[1][4])
    if any(S.name(v) in [a for a, _ in S.ivs(v)] for v in arg_vars):
        tags["has_reflexive"] = True
    return {"out": out, "fail": fail, "nontrivial": nontrivial, "tags": tags}


# ------------------------------------------------------------------------------------------ model side

def _g(case):
    g = case["g"]
    return C.graph_sexp(g["nodes"], g["di"], g["bi"])


def request(case):
    op = case["op"]
    g = _g(case)
    if op in ("minimize", "ancestors"):
        return C.enc(["ctf", op, g, case["v"]])
    if op in ("minimize_event", "simplify", "factors_values", "convert", "factorize", "simplify_factorize", "factorize_classes"):
        return C.enc(["ctf", op, g, case["e"]])
    if op in ("components_from_sets", "merge_common", "merge_bidirected"):
        return C.enc(["ctf", op, g, case["sets"]])
    if op in ("cond_in_ancestral_set", "ancestral_set_after"):
        return C.enc(["ctf", op, g, case["cond"], case["v"]])
    if op == "sem_values":
        if not _sem_eligible(case):
            return C.enc(["ctf", "factorize", g, case["e"]])
        m, nu = _models(case, case["g"])[0]
        model, nus, card = _model_sexp(m, nu)
        return C.enc(["ctf", op, g, case["e"], model, nus, card])
    if op == "ancestral_components":
        return C.enc(["ctf", op, g, case["cond"], case["roots"]])
    if op in ("is_factor_form", "factors"):
        return C.enc(["ctf", op, g, case["vs"]])
    raise AssertionError(op)


def _m_fact(body):
    expr, ev = body
    ranges = []
    inner = expr
    if isinstance(inner, list) and inner and inner[0] == "sum":
        ranges = list(inner[1])
        inner = inner[2]
    fs = inner[1:] if isinstance(inner, list) and inner and inner[0] == "prod" else [inner]
    if all(isinstance(f, list) and f and f[0] == "P" and not f[2] for f in fs):
        return ["fact", C.as_set(ranges), C.as_set([C.as_set(list(f[1])) for f in fs]), _bag([list(it) for it in ev])]
    return ["odd", expr, [list(it) for it in ev]]


def canon_model(case, rep):
    op = case["op"]
    if rep[0] == "err":
        return ["ok", "false-or-err"] if op == "is_factor_form" and _outside(case) else ["err"]
    body = rep[1]
    if op == "minimize":
        return ["ok", body]
    if op in ("minimize_event", "convert"):
        return ["ok", _bag([list(it) for it in body])]
    if op == "simplify":
        return ["ok", "none"] if body == "none" else ["ok", ["some", C.as_set([list(it) for it in body[1]])]]
    if op in ("ancestors", "ancestral_set_after"):
        return ["ok", C.as_set(list(body))]
    if op == "cond_in_ancestral_set":
        return ["ok", C.as_set([str(x) for x in body])]
    if op == "merge_bidirected" and (not _disjoint_bases(case["sets"]) or any(not s for s in case["sets"])):
        return ["ok", "unspecified"]
    if op in ("merge_common", "merge_bidirected"):
        return ["ok", C.as_set([C.as_set(list(s)) for s in body])]
    if op in ("components_from_sets", "ancestral_components", "factors"):
        return ["ok", C.as_set([C.as_set(list(s)) for s in body])]
    if op == "factors_values":
        return ["ok", C.as_set([C.as_set([list(it) for it in s]) for s in body])]
    if op == "is_factor_form":
        return ["ok", "false-or-err" if body == "false" and _outside(case) else body]
    if op == "sem_values":
        if not _sem_eligible(case) or len(body) != 2 or not all(isinstance(x, list) and len(x) == 2 and isinstance(x[0], str) for x in body):
            return ["ok", "skip"]
        return ["ok", [list(body[0]), list(body[1])]]
    if op == "factorize_classes":
        return ["ok", list(body)]
    if op == "factorize":
        return ["ok", _m_fact(body)]
    if op == "simplify_factorize":
        if body == "none":
            return ["ok", "none"]
        return ["ok", ["some", C.as_set([list(it) for it in body[1]]), _m_fact(body[2])]]
    raise AssertionError(op)


# ------------------------------------------------------------------------------------------ shrinking / findings

def _shrink_var(v):
    for k in range(len(v[4])):
        yield V(S.name(v), v[4][:k] + v[4][k + 1:], v[2], v[3])
    if v[2] != "n" and str(v[3]) == "0":
        yield V(S.name(v), v[4], "n", v[3])


def shrink(case):
    for key in ("e", "vs", "roots", "cond", "sets"):
        if key in case:
            xs = case[key]
            for k in range(len(xs)):
                c = dict(case)
                c[key] = xs[:k] + xs[k + 1:]
                yield c
    if "v" in case:
        for v in _shrink_var(case["v"]):
            c = dict(case)
            c["v"] = v
            yield c
    if "e" in case:
        for k, (v, x) in enumerate(case["e"]):
            for v2 in _shrink_var(v):
                c = dict(case)
                c["e"] = case["e"][:k] + [[v2, x]] + case["e"][k + 1:]
                yield c
    for key in ("vs", "roots", "cond"):
        if key in case:
            for k, v in enumerate(case[key]):
                for v2 in _shrink_var(v):
                    c = dict(case)
                    c[key] = case[key][:k] + [v2] + case[key][k + 1:]
                    yield c
    if "sets" in case:
        for k, s in enumerate(case["sets"]):
            for j in range(len(s)):
                c = dict(case)
                c["sets"] = case["sets"][:k] + [s[:j] + s[j + 1:]] + case["sets"][k + 1:]
                yield c
    used = set()
    for v in ([case["v"]] if "v" in case else []) + [v for v, _ in case.get("e", [])] + case.get("vs", []) \
            + case.get("roots", []) + case.get("cond", []) + [v for s in case.get("sets", []) for v in s]:
        used.add(S.name(v))
        used |= {a for a, _ in S.ivs(v)}
    for x in case.get("e", []):
        if x[1] != "n":
            used.add(int(x[1][0]))
    for g in G.shrink_graph(case["g"]):
        if used <= set(G.all_nodes(g)):
            c = dict(case)
            c["g"] = g
            yield c


def _self_star(v):
    """star of the subscript by which v intervenes on itself: "m" / "p", None when not reflexive, "both" when ill-formed"""
    own = [st for a, st in S.ivs(v) if a == S.name(v)]
    return None if not own else (own[0] if len(own) == 1 else "both")


def _reflexive_cause(g, e, kind):
    """SYNTACTIC cause of the two known SIMPLIFY findings (y0 reads the tautology Y_y = y as the event Y = y):
      prob: the event has a consistent self-intervened item (Y_{..y..}, y);
      none: it has one, and a second item on the same vertex -- a variable that minimises to the plain Y, or another
            consistent self-intervened item -- with the OTHER value of Y."""
    cons = [(S.name(v), x[1]) for v, x in e if x != "n" and _self_star(v) in ("m", "p") and x[1] == _self_star(v)]
    if not cons:
        return False
    if kind == "prob":
        return True
    for v, x in e:
        if x == "n":
            continue
        st = _self_star(v)
        plain_after_min = st is None and not S.minimise(g, v)[4]
        if (plain_after_min or (st in ("m", "p") and x[1] == st)) and any(n == S.name(v) and s != x[1] for n, s in cons):
            return True
    return False


def _explained_by_reflexive_rewrite(case, out, kind):
    """the failure is EXACTLY the known one: replacing every consistent item (Y_{..y..}, y) of the input by (Y, y) gives
    an event whose probability is the one SIMPLIFY's answer has (kind prob) / is 0 (kind none), in every sampled model.
    Anything else on an event with a self-intervened variable is a new failing input."""
    g, e = case["g"], case["e"]
    if not F.readable_event(g, e):
        return False
    e2, zero = [], False
    for v, x in e:
        st = _self_star(v)
        if st is None or x == "n":
            e2.append([v, x])
        elif st in ("m", "p") and x[1] == st:
            e2.append([V(S.name(v)), x])
        else:
            zero = True          # Y_y = y' has probability 0 under either reading
    r = None
    if kind == "prob":
        if out[0] != "ok" or out[1] == "none":
            return False
        r = [[[v[0], int(v[1]), v[2], v[3], [[int(a), s] for a, s in v[4]]], x if x == "n" else [int(x[0]), x[1]]]
             for v, x in out[1][1]]
        if not F.readable_event(g, r):
            return False
    for m, nu in _models(case, g):
        p2 = 0 if zero else F.prob_event(m, e2, nu)
        if kind == "none" and p2 != 0:
            return False
        if kind == "prob" and p2 != F.prob_event(m, r, nu):
            return False
    return True


def finding_key(case, res):
    """known findings of the semantic clauses are grouped by a syntactic cause computed from the input alone;
    everything else is keyed by the full input"""
    fail = (res or {}).get("fail") or ""
    op = case["op"]
    g = case["g"]
    if "the factorised sum-product evaluates" in fail:
        q = case["e"]
        if op == "simplify_factorize":
            out = res["out"]
            q = [[[v[0], int(v[1]), v[2], v[3], [[int(a), s] for a, s in v[4]]], x if x == "n" else [int(x[0]), x[1]]]
                 for v, x in out[1][1]]
        causes = _factorise_causes(g, q)
        for c in ("multi-world", "literal-bound", "outcome-parent-value"):   # fixed priority: one key per input
            if c in causes:
                return "factorisation-value:" + c
    if op == "simplify" and ("simplify changed the probability" in fail or "simplify answered None" in fail):
        kind = "none" if "answered None" in fail else "prob"
        if _reflexive_cause(g, case["e"], kind) and _explained_by_reflexive_rewrite(case, res["out"], kind):
            return "simplify-reflexive:" + kind
    c = {k: case[k] for k in ("op", "g", "v", "e", "vs", "sets", "roots", "cond") if k in case}
    return json.dumps(c, sort_keys=True)


MANIFEST = {
    "text": ("Partial proof. 44 Lean theorems about executable models of ancestor_utils.py / api.py, tied to the code on every run "
             "by differential correspondence (0 disagreements): minimisation is total on graph variables (F8a fixed), well formed, "
             "equal to the published ||Y_x||, idempotent, and the SAME RANDOM VARIABLE in every compatible functional SCM, for "
             "every reading of the value symbols, at every noise point (minimize_same_rv); counterfactual ancestors are exactly "
             "Def. 2.1 (sound, complete, total); Def. 4.2 in full: each merge pass separately (merge_common_spec, "
             "merge_bidirected_spec; F8b fixed), the conditioned variables X*(W_t) (cond_in_ancestral_set_spec), and "
             "get_ancestral_components as a whole (ancestral_components_full: per root An(W_t) in the graph without the edges "
             "out of X*(W_t), then the finest partition); ctf-factor form / conversion meet Def. 3.4; the factorisation has the "
             "shape of Eq. 11-15 (factorisation_shape) and its VALUE is P(query) for every query outside three decidable "
             "syntactic classes (factorisation_den_partial: composition + exclusion restriction along the evaluation order, "
             "independence of the noise blocks of different c-components, marginalisation - all mechanised). On the three "
             "classes (multi-world, captured literal subscript, added parent subscript of an outcome with value +P/None) the "
             "statement is false for the code - open findings keyed by class with minimal inputs; the Lean class predicates are "
             "cross-checked against the Python key functions on every run. SIMPLIFY preserves probability and answers None only "
             "for probability 0: proved for all events WITHOUT a self-intervened variable (simplify_prob_partial, "
             "simplify_none_zero_partial); the full statement is false for the code (SIMPLIFY reads the tautology Y_y=y as Y=y; "
             "the paper removes it) - open finding, pinned by the test-suite, keyed by syntactic cause + outcome kind + exact "
             "explanation by the rewrite, so that any other failure on such events is a violation; and relative to that "
             "reading SIMPLIFY is proved right on ALL events (simplify_prob_y0reading, simplify_none_zero_y0reading), i.e. "
             "the reading is the whole deviation."),
    "note": ("Trusted: Lean kernel; axioms propext/Classical.choice/Quot.sound; the hand-written models; the specifications "
             "Spec/CtfSpec.lean, Spec/CtfSem.lean (what an event and the returned sum-product denote) and Spec/Fscm.lean "
             "(functional SCMs with shared noise, owned by the cf family); the correspondence is differential sampling (about "
             "45 000 cases per quick run, 4 000 of them structured), not proof. "
             "Readings fixed by the specification: '-N'/'+N' are two values of N; Def. 2.1 without removing Y itself; "
             "Def. 4.2 'not disjoint' on graph vertices; a '-N' subscript bound by the enclosing Sum denotes the bound value. "
             "Known findings of the semantic clauses are grouped by a syntactic cause computed from the input; a failing input "
             "outside the listed causes is reported as a VIOLATION."),
    "technique": ("Lean 4 theorems (closure = ReflTransGen, connected components of link graphs, induction along the SCM "
                  "evaluation order, product structure of the noise space, dictionary invariants) about executable models + "
                  "differential correspondence with the real functions + set-theoretic and exact functional-SCM oracles"),
}
