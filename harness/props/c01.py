"""C01 — ID estimands equal the true interventional distribution.

Correspondence: `identify(Identification)` of the real code vs the Lean model `Y0.identify` (Y0/Model/Id.lean):
estimands compared structurally (up to the order of factors); on a structural difference both are evaluated
exactly on shared random SCMs (agreement only by value is counted as `syntactic_drift`).

Oracle (from the property statement): exact-rational semi-Markovian SCMs (harness/oracles/scm_eval.py) —
several random positive models compatible with the graph (cardinalities 2-3; one/several latents per
bidirected edge or one per bidirected clique); the real estimand is evaluated on the model's observational
joint and compared with P(y | do(x)) computed by truncated factorisation at EVERY assignment of X ∪ Y ∪ free
variables of the estimand (so a dependence on a variable outside X ∪ Y is a failure).
"""
from __future__ import annotations

import atexit
import json
import random

from .. import common as C
from .. import enc_expr as E
from .. import forms as F
from .. import gen_graph as G
from ..oracles import id_run as R
from ..oracles import scm_eval as S

PROP = "C01"
RULE = ("ADMGs with 2-5 nodes (thorough: up to 6; half random, half mutations of textbook seeds: napkin, front door, "
        "Verma, bow, line-7 chains; isolated and irrelevant nodes, several districts) x disjoint non-empty X, Y; plus "
        "structured napkin-like graphs with 5-7 nodes (outcome district of 2-3 nodes, optional outer napkin layer / "
        "mediator district / irrelevant node, random relabelling) that drive ID through 7->6, 7->2->6 and 7->7 with "
        "conditionals read off a carried estimand for a child that is not last (tag pp_carried_nonlast); nested napkins with 2-3 levels "
        "(line 7 three times in a row, 8 binary nodes), line 4 into several multi-node districts with outcomes in 2-3 districts and "
        "|Y| <= 4, random 6-node graphs with |X|, |Y| <= 3 (gap review round 5); corpus = "
        "y0.examples graphs with <= 6 nodes and the F3 witness (napkin). Every returned estimand is evaluated exactly on "
        "2-3 random positive SCMs compatible with the graph at every assignment. A case is non-trivial when ID returned "
        "an estimand and the run used at least one of lines 4, 6, 7."
        " A SMALL-SCOPE EXHAUSTIVE stream: every labelled ADMG on 2-3 nodes x every valid query (thorough: all 2412; quick: a fixed 1-in-4 stride), two random positive models each.")
FORMS_NOTE = ("argument FORMS (harness/forms.py, harness/oracles/id_run.py id_slots; chosen deterministically per case, stored in the case, "
              "tagged form_*): treatments / outcomes / conditions as set / frozenset / list / tuple / dict keys / generator / iterator / "
              "map or a bare Variable for a one-element set (`Variable | set[Variable]`, normalised by _ensure_set); the "
              "Identification made by Identification(query=Query(..), graph=..) by keyword or by position, by "
              "Identification.from_parts, or by Identification.from_expression from P[X](Y | Z) and from P(Y @ X | Z @ X); "
              "identify_outcomes positional or by keyword; 'no conditions' as omitted / None / an empty set; the graph through "
              "every public constructor of NxMixedGraph. The model takes lists; independence of the form is a runtime clause "
              "decided by correspondence + oracle")
ASSUMPTIONS = [
    FORMS_NOTE,
    "model class of the theorem and of the oracle: discrete variables, positive rational parameters, independent root latents each shared by a bidirected clique (Y0/Spec/Scm.lean `Scm.Compatible`); latents with parents, continuous variables and non-positive distributions are outside the class",
    "`graph.topological_sort()` is a parameter `topo` of the model; `id_sound` assumes only that it returns linear extensions (trusted: networkx)",
    "reading convention of expressions: Y0/Spec/Sem.lean `den` (P(C|Pa) = pr(C ∪ Pa)/pr(Pa), Sum binds its ranges, field division)",
]
EXHAUSTIVE = {"quick": False, "thorough": False}
LEANCHECK_MODULES = ["Y0.Model.Id", "Y0.Model.IdDsl", "Y0.Props.C01"]
CORPUS_DIR = C.VERIF / "corpus" / "C01"
_drift = {"n": 0, "structural": 0}


def _corpus():
    out = []
    if CORPUS_DIR.exists():
        for f in sorted(CORPUS_DIR.glob("*.json")):
            d = json.loads(f.read_text())
            out.extend(d if isinstance(d, list) else [d])
    return out


def _example_cases(max_nodes):
    out = []
    for name, g, idx in R.example_corpus(max_nodes):
        nodes = G.all_nodes(g)
        if not R.is_acyclic(g):
            continue
        rng = random.Random(len(name) * 104729 + len(nodes))
        pairs = []
        if "X" in idx and "Y" in idx:
            pairs.append(([idx["X"]], [idx["Y"]]))
        for _ in range(2):
            q = R.rand_query(rng, nodes)
            if q:
                pairs.append(q)
        for X, Y in pairs:
            out.append({"g": g, "X": X, "Y": Y, "label": "example:" + name, "seed": len(name)})
    return out


VIA = {"via": ("identify", "identify", "identify_outcomes")}      # the low-level entry point and the idiomatic wrapper


def _slots(case):
    via = F.forms_of(case, VIA)["via"]
    sl = R.id_slots(case["X"], case["Y"], None, via)
    # an EMPTY conditions collection sends identify_outcomes through IDC (see C02); C01 is about ID estimands
    if "no_conditions" in sl:
        sl["no_conditions"] = tuple(o for o in sl["no_conditions"] if via == "identify" or not o.startswith("empty"))
    return dict(sl, **VIA)


def _forms(case):
    return F.forms_of(case, _slots(case))


def cases(rng: random.Random, tier: str):
    return [F.assign(c, _slots(c)) for c in _cases(rng, tier)]


def _cases(rng: random.Random, tier: str):
    nmax = 5 if tier == "quick" else 6
    out = [dict(c) for c in _corpus()] + _example_cases(nmax + 1 if tier == "quick" else 7)
    # structured: napkin-like graphs whose outcome district has several nodes (line 7 -> 6 / 7 -> 2 -> 6 / 7 -> 7 with
    # conditionals read off a carried estimand for a child that is not last in the order), see R.napkin_family
    ns = 900 if tier == "quick" else 5000
    for k in range(ns):
        g, X, Y, kind = R.napkin_family(rng, (5, 6, 7, 6, 7, 5)[k % 6])
        big = len(G.all_nodes(g)) >= 6
        # the exact evaluation is exponential in the number of nodes: binary variables and one model for >= 6 nodes
        out.append({"g": g, "X": X, "Y": Y, "label": "structured:" + kind, "seed": rng.randrange(1 << 30),
                    "max_states": 64 if big else 250, "models": 1 if big else 2})
    n = 3500 if tier == "quick" else 24000
    for k in range(n):
        g = R.gen_graph(rng, 2, nmax if k % 4 else 4)
        nodes = G.all_nodes(g)
        q = R.rand_query(rng, nodes)
        if q is None:
            continue
        out.append({"g": g, "X": q[0], "Y": q[1], "label": "random", "seed": rng.randrange(1 << 30)})
    # structured (gap review round 5; appended so that the earlier cases of a seed are unchanged): nested napkins (line 7
    # two / three times in a row: 6 / 8 nodes, all binary = 64 / 256 states, one model), line 4 into several MULTI-NODE
    # districts with outcomes in 2-3 districts and |Y| up to 4, and a few random graphs with 6 nodes and |X|, |Y| up to 3
    nt = 24 if tier == "quick" else 150
    for k in range(nt):
        g, X, Y, kind = R.napkin_tower(rng, levels=3 if k % 3 else 2)
        out.append({"g": g, "X": X, "Y": Y, "label": "structured:" + kind, "seed": rng.randrange(1 << 30),
                    "max_states": 256, "models": 1})
    nd = 150 if tier == "quick" else 1200
    for k in range(nd):
        g, X, Y, kind = R.multi_district_family(rng, (5, 6, 7, 5, 6)[k % 5])
        big = len(G.all_nodes(g)) >= 6
        out.append({"g": g, "X": X, "Y": Y, "label": "structured:" + kind, "seed": rng.randrange(1 << 30),
                    "max_states": 128 if big else 250, "models": 1 if big else 2})
    n6 = 60 if tier == "quick" else 600
    for k in range(n6):
        g = R.gen_graph(rng, 6, 6)
        q = R.big_query(rng, G.all_nodes(g))
        X, Y = q[0][:3], q[1][:3]
        out.append({"g": g, "X": X, "Y": Y, "label": "random6", "seed": rng.randrange(1 << 30), "max_states": 64, "models": 1})
    # SMALL-SCOPE EXHAUSTIVE stream (session 4; appended): every labelled ADMG on 2-3 nodes x every valid query (2412
    # cases) in the thorough tier, a fixed 1-in-4 stride of it in the quick tier; two random positive models each
    k = 0
    for nn in (2, 3):
        for g in G.all_labelled_admgs(nn):
            for r in G.all_role_assignments(nn, ("X", "Y"), ("X", "Y")):
                k += 1
                if tier == "thorough" or k % 4 == 0:
                    out.append({"g": g, "X": r["X"], "Y": r["Y"], "label": "smallscope:%d" % nn,
                                "seed": rng.randrange(1 << 30), "models": 2})
    return out


def is_valid(case):
    V = set(G.all_nodes(case["g"]))
    X, Y = set(case["X"]), set(case["Y"])
    return bool(X) and bool(Y) and not (X & Y) and X <= V and Y <= V and R.is_acyclic(case["g"])


def n_models(case):
    if case.get("models"):
        return case["models"]
    n = len(G.all_nodes(case["g"]))
    return 3 if n <= 4 else 2


def semantic_check(case, expr, *, models=None):
    """None when the expression equals P(Y | do(X)) on every sampled model at every assignment, else a message"""
    g = case["g"]
    for i in range(models or n_models(case)):
        seed = (case.get("seed", 0) * 31 + i * 7919 + 5) & 0x7FFFFFFF
        scm = S.random_scm(random.Random(seed), g, max_states=case.get("max_states", 250),
                           drop_parent=0.15 if i == 2 else 0.0)
        truth = scm.do_table(case["X"], case["Y"])
        try:
            est = S.eval_expr(expr, scm)
        except (ValueError, ZeroDivisionError) as e:
            return f"estimand cannot be evaluated on the observational joint of a compatible positive SCM: {e}"
        d = S.tables_differ(est, truth, scm.card)
        if d is not None:
            extra = sorted(set(est.vars) - set(case["X"]) - set(case["Y"]))
            return (f"estimand != P(Y|do(X)) on a random positive SCM (seed {seed}, {json.dumps(scm.describe())}) at {d}"
                    + (f"; the estimand's value depends on variables outside X ∪ Y: {extra}" if extra else ""))
    return None


def run_python(case):
    g = case["g"]
    fm = _forms(case)
    r = R.run_identify(g, case["X"], case["Y"], via=fm["via"], forms=fm)
    valid = is_valid(case)
    V = G.all_nodes(g)
    tags = {"kind": case.get("label", "?").split(":")[0], "n_nodes": len(V), "valid": valid,
            "outcome": "ok" if r["exc"] is None else r["exc"], "n_x": len(case["X"]), "n_y": len(case["Y"]),
            "has_isolated": len(V) > len({x for e in g["di"] + g["bi"] for x in e})}
    tags.update(R.line_tags(r["lines"]))
    tags.update(R.pp_tags(r.get("pp")))
    tags.update(R.id_form_tags(case, fm))
    if tags["kind"] == "structured":
        tags["structured_kind"] = case["label"].split(":", 1)[1]
    fail = None
    if r["exc"] == "ConstructorFault":
        fail = r["exc_msg"]
    if valid and r["exc"] is None:
        fail = semantic_check(case, r["expr"])
        tags["evaluated_on_scms"] = n_models(case)
        tags["estimand_has_fraction"] = "frac" in json.dumps(r["out"])
    nontrivial = valid and r["exc"] is None and any(k in r["lines"] for k in "467")
    return {"out": r["out"], "fail": fail, "nontrivial": nontrivial, "tags": tags}


_memo = {}


def _run_memo(case):
    """the real run of a case, once per process for `request` and `canon_model` (both run serially in the main
    process; the run is deterministic within a process — same hash seed, same recorded topological orders)"""
    fm = _forms(case)
    k = json.dumps([case["g"], case["X"], case["Y"], fm], sort_keys=True)
    if k not in _memo:
        if len(_memo) > 50000:
            _memo.clear()
        _memo[k] = R.run_identify(case["g"], case["X"], case["Y"], via=fm["via"], forms=fm)
    return _memo[k]


def request(case):
    r = _run_memo(case)
    tape, _ = R.tape_sexp(r["tape"])
    g = case["g"]
    gs = C.graph_sexp(G.all_nodes(g), g["di"], g["bi"])
    return C.enc(["id", _forms(case)["via"], gs, sorted(set(case["X"])), sorted(set(case["Y"])), tape])


def canon_model(case, rep):
    m = R.model_out(rep)
    if m[0] != "ok":
        return m
    r = _run_memo(case)
    if r["out"] == m:
        _drift["structural"] += 1
        return m
    if r["out"][0] != "ok" or not is_valid(case):
        return m
    # structurally different estimands: compare by exact value on shared random models
    try:
        mexpr = E.dec_expr(_untree(m[1]))
    except Exception as e:  # noqa: BLE001
        return ["undecodable-model-expression", str(e)[:100]]
    g = case["g"]
    for i in range(3):
        scm = S.random_scm(random.Random(case.get("seed", 0) * 131 + i), g, max_states=250)
        try:
            a = S.eval_expr(mexpr, scm)
            b = S.eval_expr(r["expr"], scm)
        except (ValueError, ZeroDivisionError):
            return m
        if S.tables_differ(a, b, scm.card) is not None:
            return m
    _drift["n"] += 1
    return r["out"]


def _untree(x):
    return x


def _report_drift():
    if _drift["n"] or _drift["structural"]:
        print(f"[C01] correspondence: structural_agreement={_drift['structural']} syntactic_drift(value-only agreement)={_drift['n']}")


atexit.register(_report_drift)


def shrink(case):
    for g in G.shrink_graph(case["g"]):
        live = set(G.all_nodes(g))
        c = dict(case)
        c["g"] = g
        c["X"] = [v for v in case["X"] if v in live]
        c["Y"] = [v for v in case["Y"] if v in live]
        if c["X"] and c["Y"]:
            yield c
    for key in ("X", "Y"):
        if len(case[key]) > 1:
            for k in range(len(case[key])):
                c = dict(case)
                c[key] = case[key][:k] + case[key][k + 1:]
                yield c


def finding_key(case, res):
    g = case["g"]
    return json.dumps({"di": sorted(map(list, g["di"])), "bi": sorted(sorted(e) for e in g["bi"]),
                       "nodes": sorted(G.all_nodes(g)), "X": sorted(case["X"]), "Y": sorted(case["Y"])}, sort_keys=True)


MANIFEST = {
    "text": ("Proof. Lean theorem id_sound: for every well-formed acyclic mixed graph G, all X and non-empty Y ⊆ V(G) with "
             "X ∩ Y = ∅, whenever the model of identify() returns an estimand e, then for EVERY structural causal model M "
             "compatible with G (discrete variables of any cardinality, positive rational parameters, independent root "
             "latents shared only across bidirected edges) and EVERY assignment, the value of e on M's observational joint "
             "equals M's P(y | do(x)) (truncated factorisation); id_free_irrelevant: the value depends on the assignment only "
             "through X ∪ Y. Proved by the recursion invariant 'the carried estimand denotes Q[V_cur]' over lines 1-7 "
             "(idAlg_sound) on top of the c-factor lemmas sink/split/ratio (Tian-Pearl Lemmas 1, 3, 4; Lemmas/QFactor.lean). "
             "id_sound_acyclic: the same with an executable, provably correct topological sorter and relational acyclicity, "
             "no assumption left about networkx. The model is of the FIXED code (fix d44daed: lines 6/7 take their "
             "conditionals from the carried estimand; the pinned code returned P(Y|X) on the napkin graph) and is tied to "
             "identify() on every run by differential correspondence; every returned estimand is additionally evaluated "
             "exactly on random compatible SCMs at every assignment."),
    "note": ("Trusted: Lean kernel; axioms propext/Classical.choice/Quot.sound; the specifications Y0/Spec/{Prob,Sem,Scm}.lean "
             "(meaning of expressions, model class: latents with parents, continuous variables, non-positive distributions are "
             "outside); the hand-written model tied to the code by sampling; networkx's topological_sort enters as a parameter "
             "assumed to return a linear extension (TopoSound), which the correspondence feeds with the observed orders."),
    "technique": "Lean 4 theorems (c-factor algebra over finite sums, recursion invariant over a well-founded model) + differential correspondence + exact-rational SCM evaluation oracle",
}
