"""C16 — LV-DAG conversion round-trips; Evans simplification keeps the observed model.

Correspondence: `to_latent_variable_dag` / `_latent_dag`, `from_latent_variable_dag`, the four rules and
`simplify_latent_dag`, `evans_simplify`, `taheri_design._get_result` — real code vs the Lean model (Y0.Model.Latent), compared as sets
(nodes, edges, latent tags, reported widow / unidirectional / redundant sets; mixed graphs up to `__eq__`).

Oracle (harness/oracles/latent_proj.py, written from the property statement): round trip returns an equal
graph; simplification is total on DAGs, keeps exactly the observed nodes, is idempotent (the real simplifier is run
a second time on its own output), the mixed graph read off the result equals the latent projection of the INPUT
computed by path enumeration, d-connection among observed nodes (brute force over skeleton paths) is the same in
the input DAG, the output DAG and the canonical DAG of the projection, and ID verdicts agree.

Node names are strings in the cases; for the model they are ranked by Python's own string order per case
(so int order == `Variable` order by construction) and the two naming functions of the code (`u_{i}`,
`{v}_prime`) are sent as tables.
"""
from __future__ import annotations

import itertools as itt
import json
import random

from .. import common as C
from .. import forms as F
from .. import gen_graph as G
from ..oracles import latent_proj as O

PROP = "C16"
SUF = "_prime"
RULE = ("ops: roundtrip (ADMGs 0-8 nodes with isolated / bidirected-only nodes, up to 28 bidirected edges), simplify "
        "(random DAGs <=8 nodes with random latent tags + structured families: chains of latents, widow chains, latents "
        "with parents, with 0/1/many children, duplicate and nested child sets, isolated latents/observed), evans "
        "(ADMG + extra latent set), from_lv (arbitrary tagged DAGs incl. untagged nodes), design (taheri _get_result: verdict and the four node/edge counts "
        "compared with the model, verdict checked by ID on the independent projection); malformed stream: cyclic graphs, untagged nodes; name-collision stream (a node already called "
        "u_i / v_prime); rule-1 stream (hard_dag: R->U->L->C with U->A, three nested latents, latents whose children are "
        "partly latent, a latent parent above the head, `<latent>_prime` names already taken); u_i stream (hard_admg: "
        ">=2 bidirected edges and 1-3 observed nodes called u_j, j <= number of bidirected edges); prefix stream (tags prefix_collides, "
        "prefix_kind, start_negative, fresh_names_skipped: to_latent_variable_dag(prefix=, start=) chosen per graph so that the generated "
        "names run into node names -- `A0`+7 for a node A07, `X1`+0 / `X`+10 for X10, a start shortly before the hit, negative starts, the "
        "empty prefix); evans_simplify(latents=) naming a variable that is NOT a node, alone or beside members, with probability 0.1 (tag "
        "extra_foreign); mixed-name stream (tag names=mixed: roundtrip / simplify / evans / from_lv cases of the streams above over "
        "gen_graph.MIXED_NAMES -- one-letter names beside X10, X_1, aB; `left > right` of remove_redundant_latents, the _prime and u_i "
        "loops see other orders); the VALUE under the latent tag is a bool, the int 1/0, a numpy bool, True/None or a mixture (tag "
        "form_tag_values); small-scope slice: every DAG on <=3 (quick) / <=5 (thorough) nodes x every latent subset; thorough "
        "adds DAGs up to 11 nodes with sampled separation triples. A simplify/evans case is non-trivial when at least one rule changed the graph "
        "and at least two observed nodes remain; a roundtrip case when it has an edge-less node or >=2 bidirected edges."
        " A SMALL-SCOPE EXHAUSTIVE stream: every labelled ADMG on <= 3 nodes through the round trip and through evans_simplify with every subset of nodes declared latent, every labelled DAG on <= 3 (thorough: 4) nodes with every latent tagging through simplify_latent_dag.")
ASSUMPTIONS = [
    "clause 'separation relations among observed nodes are unchanged': proved in full for observed a != b and observed conditioning sets not containing them. The walk formulation used by simplify_dsep_invariant / dsep_iff_msep_projection is proved equal to the textbook simple-PATH definition MG.MConnPath of property C04 (dconn_walk_iff_path, mconn_walk_iff_path), and the clause is restated with it and with the executable C04 model MG.dSeparated (lvdag_dsep_model_eq_projection, simplify_preserves_dsep_model, simplify_dsep_verdict_iff_no_path). What ties MG.dSeparated to y0's are_d_separated is property C04's correspondence check, not C16's; the C16 oracle still cross-checks walk vs path enumeration on every generated case, on the DAG and on the projection",
    "clause 'identifiability verdicts unchanged': proved without a congruence hypothesis for the ID MODEL of property C02 (Y0/Model/Id.lean): id_verdict_equiv_congr (the verdict of `identify` is the same on two graphs that are NxMixedGraph.__eq__, for every pair of admissible topological sorters: the orders networkx returns may differ between the two graphs), simplify_id_verdict, evans_id_verdict, evans_id_verdict_latents. Assumed about networkx: TopoGood (topological_sort of a well-formed acyclic graph returns a list of exactly the nodes). What ties the ID model to y0's identify() is property C02's correspondence check, not C16's; the C16 harness still runs identify_outcomes on the independent projection and on y0's output for sampled queries",
    "theorem hypotheses: D.WF (distinct nodes/edges, edge endpoints are nodes, every node tagged: what building an nx.DiGraph gives), D.Acyclic, and for the names only `Function.Injective fresh` (u_i distinct) and `forall n, n < prime n` (a primed name is a longer string); bidirected self-loops are excluded from the round trip (not an ADMG)",
    "networkx topological_sort on a graph mutated during iteration is modelled as the order of the input graph (argued in Model/Latent.lean); correspondence compares results as sets, names invented for new latents are compared by their child sets",
    "in-place mutation: simplify_latent_dag mutates its argument and leaves it half-rewritten when it raises; the model is pure and returns the final graph (runtime clause, not claimed)",
    "taheri_design._get_result: modelled up to the verdict (identify succeeded / Unidentifiable), the four counts and the returned ADMG; `canonicalize` of the returned estimand and the echoed `latents` / `observed` arguments are not modelled; the driver runs the ID model with the model of nx.topological_sort (the verdict does not depend on the order: id_verdict_equiv_congr)",
    "non-Variable nodes (_assert_variable_nodes TypeError), counterfactual graphs (raise_on_counterfactual) and a non-default suffix are outside the model",
    "latent tag VALUES: the code reads the tag by truthiness (`if graph.nodes[node][tag]`, `if not data[tag]`), nothing restricts it to bool; the model only knows latent / observed, so the value style (bool, int 1/0, numpy bool, True/None, mixed; recorded as form tag_values) is a runtime clause decided by correspondence + oracle, and the harness itself reads the tags of returned DAGs by truthiness",
    "evans_simplify(latents=...) may name variables that are not nodes of the graph: definition used by the oracle and the model = they are ignored (`Additional variables to mark as latent`)",
    "to_latent_variable_dag(prefix=, start=): the model takes the table of names prefix+str(start+i) in order and skips the taken ones, so every prefix (also the empty one) and every start (also negative) is expressed; the names the latents GET are compared exactly in the round trip",
    "argument FORMS (harness/forms.py; chosen deterministically per case, stored in the case, tagged form_*): to_latent_variable_dag with prefix / start / tag omitted, None, the defaults written out, or NON-default values (prefix 'lat', start 1 or 3, tag 'is_latent'; the model takes the table of fresh names, so it follows prefix and start; the tag only names the attribute) and from_latent_variable_dag with the matching tag omitted / None / positional / keyword; simplify_latent_dag, evans_simplify, _get_result and from_latent_variable_dag with the tag omitted / None / 'hidden' / a custom key on a DAG tagged accordingly; evans_simplify's extra latents as every collection type, one-shot iterable or bare Variable (`None | Variable | Iterable[Variable]`), no extra latents as omitted / None / empty; _get_result's latents / observed as list / tuple / set / frozenset / dict keys (Collection); the ADMG through every public constructor of NxMixedGraph (order preserving ones for the round trip, whose LV-DAG is compared by name). Independence of the form is a runtime clause decided by correspondence + oracle",
]
EXHAUSTIVE = {"quick": False, "thorough": False}
LEANCHECK_MODULES = ["Y0.Model.Latent", "Y0.Props.C16"]
TRUSTED_EXTRA = ["lean/Y0/Spec/LatentSpec.lean", "lean/Y0/Spec/SepSpec.lean (MConnPath)", "lean/Y0/Lemmas/IdTotal.lean (ValidQuery, TopoGood)"]

ERRS = None  # filled lazily (needs networkx)


def _errs():
    global ERRS
    if ERRS is None:
        # whatever the class (NetworkXError, KeyError, RuntimeError 'dictionary changed size', AttributeError, RecursionError ...):
        # an error outcome of the real code, never a harness error
        ERRS = (Exception,)
    return ERRS


def nm(i: int) -> str:
    return f"A{i:02d}"


# ------------------------------------------------------------------------------------------ corpus

def _d(edges, latent, nodes=(), untagged=()):
    ns = list(nodes)
    for e in edges:
        for x in e:
            if x not in ns:
                ns.append(x)
    return {"nodes": ns, "edges": [list(e) for e in edges], "latent": list(latent), "untagged": list(untagged)}


CORPUS = [
    # F7a: edge-less node must survive the round trip
    {"op": "roundtrip", "g": {"nodes": ["Z"], "di": [["A", "B"]], "bi": [["B", "C"]]}},
    {"op": "roundtrip", "g": {"nodes": ["Z"], "di": [], "bi": []}},
    {"op": "roundtrip", "g": {"nodes": ["A", "B", "C"], "di": [["A", "B"]], "bi": []}},
    # F7b: widow chain U1 -> U2 (both latent): one pass leaves U1 behind, second run removes it
    {"op": "simplify", "d": _d([["U1", "U2"]], ["U1", "U2"], nodes=["X"])},
    {"op": "simplify", "d": _d([["X", "U1"], ["U1", "U2"], ["U2", "U3"]], ["U1", "U2", "U3"], nodes=["Y"])},
    # evans_simplify must keep isolated nodes too
    {"op": "evans", "g": {"nodes": ["Z"], "di": [["A", "B"]], "bi": [["B", "C"]]}, "extra": []},
    {"op": "evans", "g": {"nodes": [], "di": [["A", "M"], ["M", "B"], ["M", "C"]], "bi": [["A", "B"]]}, "extra": ["M"]},
    # tests/test_simplify_latent.py figures
    {"op": "simplify", "d": _d([["X1", "X2"], ["X2", "W"], ["U", "X2"], ["U", "X3"], ["U", "W"]], ["U", "W"])},
    {"op": "simplify", "d": _d([["X1", "U"], ["X2", "U"], ["U", "Y1"], ["U", "Y2"], ["U", "Y3"]], ["U"])},
    {"op": "simplify", "d": _d([["U", "X1"], ["U", "X2"], ["U", "X3"], ["W", "X1"], ["W", "X2"]], ["U", "W"])},
    {"op": "simplify", "d": _d([["U1", "U2"], ["U3", "U2"]], ["U3"])},
    {"op": "simplify", "d": _d([["EGF", "SOS"], ["EGF", "PI3K"], ["IGF", "SOS"], ["IGF", "PI3K"], ["SOS", "Ras"],
                                ["Ras", "PI3K"], ["Ras", "Raf"], ["PI3K", "Akt"], ["Akt", "Raf"], ["Raf", "Mek"],
                                ["Mek", "Erk"]], ["EGF", "IGF", "Akt", "Erk"])},
    # chain of middle latents; duplicate child sets with both name orders; nested child sets
    {"op": "simplify", "d": _d([["PA", "L1"], ["L1", "L2"], ["L2", "X"], ["L2", "Y"], ["L1", "Z"]], ["L1", "L2"])},
    {"op": "simplify", "d": _d([["L2", "X"], ["L2", "Y"], ["L1", "X"], ["L1", "Y"], ["L3", "X"]], ["L1", "L2", "L3"])},
    # name collisions: a node already called like a generated latent (u_i / v_prime)
    {"op": "simplify", "d": _d([["PA", "L"], ["L", "C"], ["L_prime", "D"]], ["L"])},
    {"op": "simplify", "d": _d([["PA", "L"], ["L", "C"], ["L", "D"], ["L_prime", "C"], ["L_prime", "D"], ["L_prime", "E"]], ["L", "L_prime"])},
    {"op": "roundtrip", "g": {"nodes": ["u_0", "A", "B"], "di": [["u_0", "B"]], "bi": [["A", "B"]]}},
    {"op": "evans", "g": {"nodes": ["u_0", "A", "B"], "di": [], "bi": [["A", "B"]]}, "extra": []},
    # rule 1 on a chain headed by a latent with a parent: R -> U -> L -> C, U -> A (projection has A <-> C);
    # three nested latents; a latent whose children are partly latent (witnesses of seeded bug C16b)
    {"op": "simplify", "d": _d([["R", "U"], ["U", "L"], ["L", "C"], ["U", "A"]], ["U", "L"])},
    {"op": "simplify", "d": _d([["PA", "U1"], ["U1", "U2"], ["U2", "U3"], ["U3", "C"], ["U1", "A"], ["U2", "B"]], ["U1", "U2", "U3"])},
    {"op": "simplify", "d": _d([["R", "U"], ["U", "L1"], ["U", "L2"], ["U", "A"], ["L1", "C1"], ["L2", "C2"]], ["U", "L1", "L2"])},
    {"op": "simplify", "d": _d([["R", "U"], ["U", "L"], ["L", "C"], ["U", "A"], ["U_prime", "A"], ["U_prime", "R"]], ["U", "L"])},
    # several bidirected edges next to observed nodes called u_1 / u_0,u_2 (witnesses of seeded bug C16a)
    {"op": "roundtrip", "g": {"nodes": ["u_1", "A", "B"], "di": [], "bi": [["A", "B"], ["B", "u_1"]]}},
    {"op": "roundtrip", "g": {"nodes": ["u_0", "u_2", "A", "B", "C"], "di": [["u_0", "A"]], "bi": [["A", "B"], ["B", "C"], ["u_2", "C"]]}},
    {"op": "evans", "g": {"nodes": ["u_1", "A", "B", "M"], "di": [["A", "M"], ["M", "B"]], "bi": [["A", "B"], ["M", "u_1"]]}, "extra": ["M"]},
    {"op": "from_lv", "d": _d([["L", "X"], ["L", "Y"], ["X", "Y"]], ["L"], nodes=["Z"])},
    {"op": "from_lv", "d": _d([["L", "X"]], ["L"], nodes=["Q1"], untagged=["Q1"])},
    {"op": "design", "d": _d([["L", "X"], ["L", "Y"], ["X", "Y"]], ["L"]), "cause": "X", "effect": "Y"},
]


# ------------------------------------------------------------------------------------------ generators

def _names_for(rng, n, pool=14, exotic=0.0):
    codes = rng.sample(range(pool), n)
    out = [nm(c) for c in codes]
    if exotic and rng.random() < exotic and out:
        k = rng.randrange(len(out))
        out[k] = rng.choice(["u_0", "u_1", "u_10", "u_2", out[(k + 1) % len(out)] + SUF, "A00" + SUF])
        out = list(dict.fromkeys(out))
    return out


def rand_dag(rng, nmax=8, collide=0.0):
    n = rng.randint(1, nmax)
    names = _names_for(rng, n, exotic=collide)
    n = len(names)
    pd = rng.choice([0.15, 0.3, 0.5, 0.7])
    edges = [[names[i], names[j]] for i in range(n) for j in range(i + 1, n) if rng.random() < pd]
    rng.shuffle(edges)
    pl = rng.choice([0.2, 0.4, 0.6, 0.8])
    latent = [v for v in names if rng.random() < pl]
    nodes = list(names)
    rng.shuffle(nodes)
    return {"nodes": nodes, "edges": edges, "latent": latent, "untagged": []}


def structured_dag(rng):
    """families named by the property's quantifier"""
    kind = rng.choice(["chain", "widow_chain", "dup", "nested", "star", "middle_mesh", "mixed"])
    obs = [nm(i) for i in rng.sample(range(6), rng.randint(2, 4))]
    lat_pool = [nm(i) for i in rng.sample(range(6, 14), 5)]
    edges, latent = [], []
    if kind == "chain":
        k = rng.randint(1, 4)
        ls = lat_pool[:k]
        latent = ls
        edges = [[ls[i], ls[i + 1]] for i in range(k - 1)] + [[ls[-1], o] for o in obs[:rng.randint(1, len(obs))]]
        if rng.random() < 0.6:
            edges.append([obs[-1], ls[0]])
        if rng.random() < 0.5 and k > 1:
            edges.append([ls[0], obs[0]])
    elif kind == "widow_chain":
        k = rng.randint(2, 4)
        ls = lat_pool[:k]
        latent = ls
        edges = [[ls[i], ls[i + 1]] for i in range(k - 1)]
        if rng.random() < 0.5:
            edges.append([obs[0], ls[0]])
        if rng.random() < 0.5:
            edges.append([ls[0], lat_pool[4]])
            latent = ls + [lat_pool[4]]
        if rng.random() < 0.5:
            edges.append([obs[0], obs[1]])
    elif kind == "dup":
        k = rng.randint(2, 3)
        ls = lat_pool[:k]
        latent = ls
        cs = obs[:rng.randint(1, len(obs))]
        edges = [[l, c] for l in ls for c in cs]
        if rng.random() < 0.4:
            edges.append([obs[-1], ls[0]])
    elif kind == "nested":
        k = rng.randint(2, 4)
        ls = lat_pool[:k]
        latent = ls
        for j, l in enumerate(ls):
            for c in obs[:max(0, len(obs) - j)]:
                edges.append([l, c])
        rng.shuffle(ls)
    elif kind == "star":
        ls = lat_pool[:3]
        latent = ls
        edges = [[ls[0], o] for o in obs]            # many children
        edges += [[ls[1], obs[0]]]                    # one child
        # ls[2]: no child
        if rng.random() < 0.5:
            edges.append([obs[-1], ls[2]])
    elif kind == "middle_mesh":
        ls = lat_pool[:3]
        latent = ls
        edges = [[obs[0], ls[0]], [ls[0], ls[1]], [ls[0], ls[2]], [ls[1], obs[-1]], [ls[2], obs[-1]], [ls[2], obs[1 % len(obs)]]]
        if rng.random() < 0.5:
            edges.append([ls[1], ls[2]])
    else:
        ls = lat_pool[:4]
        latent = ls
        edges = [[ls[0], ls[1]], [ls[1], obs[0]], [ls[1], obs[-1]], [ls[2], obs[0]], [ls[2], obs[-1]], [obs[0], ls[3]]]
    # sprinkle observed-observed edges forward in list order
    for i in range(len(obs)):
        for j in range(i + 1, len(obs)):
            if rng.random() < 0.3:
                edges.append([obs[i], obs[j]])
    edges = [list(x) for x in dict.fromkeys(tuple(e) for e in edges)]
    # keep acyclic: observed -> latent edges only from obs[-1]/obs[0] as built above may close a cycle; filter by DFS
    nodes = list(dict.fromkeys(obs + latent + [x for e in edges for x in e]))
    good = []
    for e in edges:
        if O.is_acyclic(nodes, good + [e]):
            good.append(e)
    rng.shuffle(nodes)
    rng.shuffle(good)
    if rng.random() < 0.3:
        nodes.append("A15")  # isolated observed
    if rng.random() < 0.2:
        nodes.append("A16")
        latent = latent + ["A16"]  # isolated latent
    return {"nodes": nodes, "edges": good, "latent": list(latent), "untagged": [], "kind": kind}


def rand_admg(rng, nmax=8, collide=0.0):
    g = G.rand_graph(rng, 0, nmax, acyclic=True, pb=rng.choice([0.0, 0.15, 0.3, 0.5, 0.9]))
    pool = list(range(14))
    rng.shuffle(pool)
    ren = {i: nm(pool[i]) for i in range(nmax + 1)}
    if collide and rng.random() < collide and g["nodes"]:
        ren[rng.choice(G.all_nodes(g))] = rng.choice(["u_0", "u_1", "u_2"])
    return {"nodes": [ren[v] for v in g["nodes"]], "di": [[ren[u], ren[v]] for u, v in g["di"]],
            "bi": [[ren[u], ren[v]] for u, v in g["bi"]]}


def hard_dag(rng):
    """families aimed at rule 1 (a latent WITH a parent heading a chain of latents; latents whose children are
    partly latent; three nested latents) and at the names the code invents (`v_prime` already a node)"""
    kind = rng.choice(["headed_chain", "three_nested", "partly_latent_children", "latent_parent_of_head"])
    o = [nm(i) for i in rng.sample(range(8), 6)]          # observed pool
    lp = [nm(i) for i in rng.sample(range(8, 14), 5)]     # latent pool
    edges, latent = [], []
    if kind == "headed_chain":
        # R -> U -> L -> C, U -> A (U, L latent): the exogenous copy of U must reach C through L
        R, A, Cn, B = o[0], o[1], o[2], o[3]
        U, L = lp[0], lp[1]
        latent = [U, L]
        edges = [[R, U], [U, L], [L, Cn], [U, A]]
        if rng.random() < 0.4:
            edges.append([L, B])
        if rng.random() < 0.3:
            edges.append([R, A])
        if rng.random() < 0.3:
            edges.append([A, Cn])
    elif kind == "three_nested":
        # P -> U1 -> U2 -> U3 -> C3, side children A1 <- U1, A2 <- U2 (at least two observed leaves)
        P, A1, A2, C3 = o[0], o[1], o[2], o[3]
        U1, U2, U3 = lp[0], lp[1], lp[2]
        latent = [U1, U2, U3]
        edges = [[U1, U2], [U2, U3], [U3, C3]]
        side = [[U1, A1], [U2, A2]]
        rng.shuffle(side)
        edges += side[:rng.randint(1, 2)]
        if rng.random() < 0.8:
            edges.append([P, U1])
        if rng.random() < 0.3:
            edges.append([U3, o[4]])
        if rng.random() < 0.3:
            edges.append([U1, U3])
    elif kind == "partly_latent_children":
        # U -> {L1, L2, A}; L1 -> C1; L2 -> C2: children of U partly latent
        U, L1, L2 = lp[0], lp[1], lp[2]
        A, C1, C2, R = o[0], o[1], o[2], o[3]
        latent = [U, L1, L2]
        edges = [[U, L1], [L1, C1]]
        if rng.random() < 0.7:
            edges.append([U, A])
        if rng.random() < 0.7:
            edges += [[U, L2], [L2, C2]]
        if rng.random() < 0.6:
            edges.append([R, U])
        if rng.random() < 0.3:
            edges.append([L1, L2])
        if rng.random() < 0.3:
            edges.append([R, L1])
    else:
        # W -> U -> L -> C, U -> A with W latent too (W exogenous or with an observed parent)
        W, U, L = lp[0], lp[1], lp[2]
        A, Cn, R, B = o[0], o[1], o[2], o[3]
        latent = [W, U, L]
        edges = [[W, U], [U, L], [L, Cn], [U, A]]
        if rng.random() < 0.5:
            edges.append([R, W])
        if rng.random() < 0.5:
            edges.append([W, B])
    for i in range(4):
        for j in range(i + 1, 4):
            if rng.random() < 0.12:
                edges.append([o[i], o[j]])
    edges = [list(x) for x in dict.fromkeys(tuple(e) for e in edges)]
    nodes = list(dict.fromkeys([x for e in edges for x in e]))
    good = []
    for e in edges:
        if O.is_acyclic(nodes, good + [e]):
            good.append(e)
    # the names rule 1 wants to use are already taken (observed or latent nodes called `<latent>_prime…`)
    if rng.random() < 0.45:
        pa = {v for _, v in good}
        ch = {u for u, _ in good}
        mids = [l for l in latent if l in pa and l in ch]
        for l in rng.sample(mids, min(len(mids), rng.randint(1, 2))):
            for depth in range(1, rng.choice([1, 1, 2]) + 1):
                new = l + SUF * depth
                nodes.append(new)
                if rng.random() < 0.4:
                    latent = latent + [new]
                obs_now = [v for v in nodes if v not in latent and v != new]
                for t in rng.sample(obs_now, min(len(obs_now), rng.randint(0, 2))):
                    good.append([new, t])
    rng.shuffle(nodes)
    rng.shuffle(good)
    return {"nodes": nodes, "edges": good, "latent": list(latent), "untagged": []}


def hard_admg(rng):
    """ADMGs with several bidirected edges in which observed nodes are already called like the latents
    `_latent_dag` generates (`u_0`, `u_1`, …), some of them endpoints of bidirected edges"""
    n = rng.randint(3, 6)
    k_u = rng.randint(1, 3)
    base = [nm(i) for i in rng.sample(range(14), n)]
    pairs = list(itt.combinations(range(n + k_u), 2))
    m = rng.randint(2, min(6, len(pairs)))
    us = [f"u_{j}" for j in rng.sample(range(m + 1), min(m + 1, k_u))]
    names = base + us
    rng.shuffle(names)
    bi = [[names[i], names[j]] if rng.random() < 0.5 else [names[j], names[i]] for i, j in rng.sample(pairs, m)]
    di = [[names[i], names[j]] for i, j in pairs if rng.random() < 0.2]
    nodes = [v for v in names if rng.random() < 0.7]
    return {"nodes": nodes, "di": di, "bi": bi}


FOREIGN_NAMES = ("Qx", "A77", "zz", "u_0", "u_1", "A00" + SUF)


def _add_foreign(rng, g, extra, p=0.1):
    """G16-2: `latents` may name variables that are not nodes of the graph (they are ignored), alone or beside members"""
    if rng.random() < p:
        have = set(G.all_nodes(g))
        cand = [x for x in FOREIGN_NAMES if x not in have and x not in extra]
        if cand:
            extra = list(extra)
            extra.insert(rng.randrange(len(extra) + 1), rng.choice(cand))
    return extra


def _split_numeric(name):
    """all (prefix, start) with f"{prefix}{start}" == name"""
    out = []
    k = len(name)
    while k > 0 and name[k - 1].isdigit():
        k -= 1
        if name[k] != "0" or k == len(name) - 1:
            out.append((name[:k], int(name[k:])))
    return out


def colliding_lv(rng, g):
    """G16-3: a (prefix, start) for to_latent_variable_dag whose generated names run into node names of g: the prefix is the
    head of a node name that ends in digits (`A0` + 7 for A07, `X1` + 0 / `X` + 10 for X10, `u_` + 1), the start at or
    shortly before that number (also negative: `A0-1`, `A00`); or the empty prefix"""
    nodes = G.all_nodes(g)
    cands = [ps for n in nodes for ps in _split_numeric(n)]
    if not cands or rng.random() < 0.08:
        return {"prefix": "", "start": rng.choice([0, 1, -1])}
    prefix, k = rng.choice(cands)
    return {"prefix": prefix, "start": k - rng.choice([0, 0, 1, 2, 3])}


def _base(name):
    while name.endswith(SUF):
        name = name[:-len(SUF)]
    return name


def _rename(name, ren):
    k = 0
    while name.endswith(SUF):
        name, k = name[:-len(SUF)], k + 1
    return ren.get(name, name) + SUF * k


def mixed_names(rng, case):
    """the case over names of mixed length / case / suffix style (gen_graph.MIXED_NAMES) instead of A00..A15: a random
    injection (the model ranks the names of each case by Python's string order, so nothing has to be order preserving).
    `u_i` and `..._prime` names keep their meaning (the suffix is re-attached to the new base name)."""
    names, _ = _case_names(case)
    bases = sorted({_base(n) for n in names if not n.startswith("u_")})
    pool = [x for x in G.MIXED_NAMES if x not in names]
    if len(bases) > len(pool):
        return case
    ren = dict(zip(bases, rng.sample(pool, len(bases))))
    f = lambda n: _rename(n, ren)  # noqa: E731
    c = dict(case)
    if "g" in c:
        g = c["g"]
        c["g"] = {"nodes": [f(v) for v in g["nodes"]], "di": [[f(a), f(b)] for a, b in g["di"]], "bi": [[f(a), f(b)] for a, b in g["bi"]]}
    if "d" in c:
        d = c["d"]
        c["d"] = {"nodes": [f(v) for v in d["nodes"]], "edges": [[f(a), f(b)] for a, b in d["edges"]],
                  "latent": [f(v) for v in d["latent"]], "untagged": [f(v) for v in d.get("untagged", [])]}
    for k in ("cause", "effect"):
        if k in c:
            c[k] = f(c[k])
    if "extra" in c:
        c["extra"] = [f(v) for v in c["extra"]]
    c["names"] = "mixed"
    return c


def _corpus_files():
    """witnesses kept under corpus/C16/*.json (replay files of past violations: key "case")"""
    out = []
    d = C.VERIF / "corpus" / PROP
    if d.is_dir():
        for f in sorted(d.glob("*.json")):
            try:
                c = json.loads(f.read_text())
            except ValueError:
                continue
            c = c.get("case", c)
            if isinstance(c, dict) and "op" in c:
                out.append(c)
    return out


TAG_FORMS = ("omitted", "none", "explicit_default", "custom")
# the VALUE written under the tag of each node (the code tests truthiness: simplify_latent.iter_latents `if ...[tag]`,
# from_latent_variable_dag `if not data[tag]`): Python bools; the ints 1 / 0 (what nx.set_node_attributes(g, 0, tag) followed by
# g.nodes[u][tag] = 1 gives); numpy bools (a tag column that came out of an array / data frame); True / None (only the latents
# marked, the others explicitly None); a mixture of them
TAG_VALUES = ("bool", "bool", "int", "numpy_bool", "none_observed", "mixed")
CUSTOM_TAG = "is_latent"
LV_ARGS = ("omitted", "omitted", "none", "defaults_explicit", "custom_prefix", "custom_start", "custom_tag", "custom_all")
LATENTS_FORMS = F.CONTAINERS + (F.SINGLE, F.SINGLE)


def _slots(case):
    op = case["op"]
    if op == "roundtrip":
        return {"ctor": F.CTORS_SAME_ORDER, "lv_args": LV_ARGS, "from_tag": ("omitted", "none", "positional", "keyword")}
    if op == "simplify":
        return {"tag": TAG_FORMS, "tag_values": TAG_VALUES}
    if op == "from_lv":
        return {"tag": TAG_FORMS, "call": ("positional", "keyword"), "tag_values": TAG_VALUES}
    if op == "evans":
        return {"ctor": F.CTORS, "tag": TAG_FORMS, "call": ("positional", "keyword"),
                "latents": LATENTS_FORMS if case.get("extra") else ("omitted", "none", "empty_set", "empty_tuple")}
    if op == "design":
        return {"tag": TAG_FORMS, "latents": F.REITERABLE, "observed": F.REITERABLE, "tag_values": TAG_VALUES}
    return {}


def _forms(case):
    return F.forms_of(case, _slots(case))


def _tag_of(fm, key="tag"):
    """(the node-attribute key the DAG is tagged with, the keyword arguments that tell the callee)"""
    t = fm.get(key, "omitted")
    if t == "custom":
        return CUSTOM_TAG, {"tag": CUSTOM_TAG}
    return "hidden", {"omitted": {}, "none": {"tag": None}, "explicit_default": {"tag": "hidden"}}[t]


def _lv_kwargs(fm, case=None):
    """keyword arguments of to_latent_variable_dag for the recorded form, and (prefix, start, tag) they mean.
    A case of the prefix stream carries its own `lv = {"prefix", "start"}` (chosen so that the generated names hit node
    names); the form then only decides about the tag."""
    a = fm.get("lv_args", "omitted")
    kw = {"omitted": {}, "none": {"prefix": None, "tag": None}, "defaults_explicit": {"prefix": "u_", "start": 0, "tag": "hidden"},
          "custom_prefix": {"prefix": "lat"}, "custom_start": {"start": 3}, "custom_tag": {"tag": CUSTOM_TAG},
          "custom_all": {"prefix": "lat", "start": 1, "tag": CUSTOM_TAG}}[a]
    if case is not None and case.get("lv"):
        kw = {k: v for k, v in kw.items() if k == "tag"}
        kw.update({k: case["lv"][k] for k in ("prefix", "start") if k in case["lv"]})
    prefix = kw.get("prefix")
    return kw, ("u_" if prefix is None else prefix, kw.get("start", 0), kw.get("tag") or "hidden")


def _assign(c):
    """derive the forms of a case; forms a corpus witness was recorded with (and that are still legal) are kept"""
    rec = dict(c.get("forms") or {})
    sl = _slots(c)
    F.assign(c, sl)
    c["forms"].update({k: v for k, v in rec.items() if k in sl and v in sl[k]})
    return c


def cases(rng: random.Random, tier: str):
    return [_assign(c) for c in _cases(rng, tier)]


def _small_scope(tier):
    """SMALL-SCOPE EXHAUSTIVE stream (session 4): every labelled ADMG on 1-3 nodes (207) through the round trip and
    through evans_simplify with EVERY subset of its nodes declared latent (1642 cases); every labelled DAG on 1-3 nodes
    (thorough: 1-4 nodes, 543 more DAGs) with EVERY latent tagging through simplify_latent_dag (228 / 8916 cases)."""
    import itertools as itt
    out = []
    for n in (1, 2, 3):
        for g in G.all_labelled_admgs(n):
            gg = {"nodes": [nm(v) for v in g["nodes"]], "di": [[nm(u), nm(v)] for u, v in g["di"]],
                  "bi": [[nm(u), nm(v)] for u, v in g["bi"]]}
            out.append({"op": "roundtrip", "g": gg, "label": "smallscope"})
            for r in range(n + 1):
                for extra in itt.combinations(range(n), r):
                    out.append({"op": "evans", "g": json.loads(json.dumps(gg)), "extra": [nm(v) for v in extra],
                                "label": "smallscope"})
    for n in (1, 2, 3, 4) if tier == "thorough" else (1, 2, 3):
        for g in G.all_labelled_admgs(n):
            if g["bi"]:
                continue
            for r in range(n + 1):
                for lat in itt.combinations(range(n), r):
                    out.append({"op": "simplify", "label": "smallscope",
                                "d": {"nodes": [nm(v) for v in g["nodes"]], "edges": [[nm(u), nm(v)] for u, v in g["di"]],
                                      "latent": [nm(v) for v in lat], "untagged": []}})
    return out


def _cases(rng: random.Random, tier: str):
    return _cases0(rng, tier) + _small_scope(tier)


def _cases0(rng: random.Random, tier: str):
    out = [json.loads(json.dumps(c)) for c in CORPUS] + _corpus_files()
    k = 8 if tier == "quick" else 60
    for _ in range(260 * k):
        out.append({"op": "roundtrip", "g": rand_admg(rng, collide=0.03)})
    for _ in range(420 * k):
        out.append({"op": "simplify", "d": rand_dag(rng, collide=0.04)})
    for _ in range(320 * k):
        d = structured_dag(rng)
        d.pop("kind", None)
        out.append({"op": "simplify", "d": d})
    for _ in range(220 * k):
        g = rand_admg(rng, nmax=7, collide=0.03)
        nodes = G.all_nodes(g)
        extra = [v for v in nodes if rng.random() < rng.choice([0.0, 0.0, 0.3, 0.6])]
        out.append({"op": "evans", "g": g, "extra": _add_foreign(rng, g, extra)})
    for _ in range(120 * k):
        d = rand_dag(rng) if rng.random() < 0.6 else structured_dag(rng)
        d.pop("kind", None)
        if rng.random() < 0.15 and d["nodes"]:
            v = rng.choice(d["nodes"])
            d["untagged"] = [v]
            d["latent"] = [x for x in d["latent"] if x != v]
        out.append({"op": "from_lv", "d": d})
    for _ in range(40 * k):  # malformed: cycles, untagged nodes
        d = rand_dag(rng, nmax=6)
        if d["edges"] and rng.random() < 0.6:
            u, v = rng.choice(d["edges"])
            d["edges"].append([v, u])
        elif d["nodes"]:
            v = rng.choice(d["nodes"])
            d["untagged"] = [v]
            d["latent"] = [x for x in d["latent"] if x != v]
        out.append({"op": "simplify", "d": d})
    for _ in range(60 * k):
        d = rand_dag(rng, nmax=7) if rng.random() < 0.5 else structured_dag(rng)
        d.pop("kind", None)
        obs = [v for v in d["nodes"] if v not in d["latent"]]
        if len(obs) >= 2:
            c, e = rng.sample(obs, 2)
            out.append({"op": "design", "d": d, "cause": c, "effect": e})
    for _ in range(60 * k):  # name collisions: nodes already called like the generated latents
        if rng.random() < 0.5:
            d = structured_dag(rng) if rng.random() < 0.6 else rand_dag(rng)
            d.pop("kind", None)
            pa = {v for _, v in d["edges"]}
            ch = {u for u, _ in d["edges"]}
            mids = [l for l in d["latent"] if l in pa and l in ch] or d["latent"] or d["nodes"]
            l = rng.choice(mids)
            for depth in range(1, rng.choice([1, 1, 2]) + 1):
                new = l + SUF * depth
                if new in d["nodes"]:
                    continue
                d["nodes"].append(new)
                if rng.random() < 0.4:
                    d["latent"] = d["latent"] + [new]
                for t in rng.sample(d["nodes"][:-1], min(len(d["nodes"]) - 1, rng.randint(0, 2))):
                    if t != l and O.is_acyclic(d["nodes"], [tuple(e) for e in d["edges"]] + [(new, t)]):
                        d["edges"].append([new, t])
            out.append({"op": "simplify", "d": d})
        else:
            g = rand_admg(rng, nmax=6)
            m = len(g["bi"])
            for j in rng.sample(range(m + 1), min(m + 1, rng.randint(1, 2))):
                new = f"u_{j}"
                g["nodes"].append(new)
                others = [v for v in G.all_nodes(g) if v != new]
                if others and rng.random() < 0.5:
                    g["di"].append([new, rng.choice(others)])
                if others and rng.random() < 0.5:
                    g["bi"].append([new, rng.choice(others)])
            if rng.random() < 0.5:
                out.append({"op": "roundtrip", "g": g})
            else:
                nodes = G.all_nodes(g)
                out.append({"op": "evans", "g": g, "extra": _add_foreign(rng, g, [v for v in nodes if rng.random() < 0.3])})
    for _ in range(110 * k):  # rule 1 on chains headed by a latent with a parent, partly latent children, taken names
        out.append({"op": "simplify", "d": hard_dag(rng)})
    for _ in range(50 * k):   # observed nodes called u_0, u_1, … next to several bidirected edges
        g = hard_admg(rng)
        if rng.random() < 0.6:
            out.append({"op": "roundtrip", "g": g})
        else:
            obs = [v for v in G.all_nodes(g)]
            out.append({"op": "evans", "g": g, "extra": _add_foreign(rng, g, [v for v in obs if rng.random() < rng.choice([0.0, 0.3])])})
    for _ in range(60 * k):   # G16-3: prefix / start of to_latent_variable_dag chosen to run into node names
        g = rand_admg(rng, nmax=7, collide=0.1) if rng.random() < 0.7 else hard_admg(rng)
        if not g["bi"] and G.all_nodes(g) and rng.random() < 0.8:
            vs = G.all_nodes(g)
            g["bi"] = [rng.sample(vs, 2)] if len(vs) >= 2 else []
        out.append({"op": "roundtrip", "g": g, "lv": colliding_lv(rng, g)})
    mixed = []
    for _ in range(150 * k):  # names of mixed length / case: a case of one of the streams above, renamed
        r = rng.random()
        if r < 0.25:
            c = {"op": "roundtrip", "g": rand_admg(rng, collide=0.05) if rng.random() < 0.7 else hard_admg(rng)}
        elif r < 0.7:
            d = rng.choice([rand_dag, structured_dag, hard_dag, hard_dag])(rng)
            d.pop("kind", None)
            c = {"op": "simplify", "d": d}
        elif r < 0.9:
            g = rand_admg(rng, nmax=7, collide=0.05) if rng.random() < 0.7 else hard_admg(rng)
            c = {"op": "evans", "g": g, "extra": _add_foreign(rng, g, [v for v in G.all_nodes(g) if rng.random() < rng.choice([0.0, 0.3, 0.6])])}
        else:
            d = rand_dag(rng) if rng.random() < 0.6 else structured_dag(rng)
            d.pop("kind", None)
            c = {"op": "from_lv", "d": d}
        c = mixed_names(rng, c)
        if c["op"] == "roundtrip" and rng.random() < 0.4:
            c["lv"] = colliding_lv(rng, c["g"])
        mixed.append(c)
    out += mixed
    # small-scope exhaustive slice: every DAG on n nodes (edges i -> j for i < j) x every latent subset,
    # names assigned by one random permutation per graph (so name order vs topological order varies)
    nmax_ex = 3 if tier == "quick" else 5
    for n in range(1, nmax_ex + 1):
        pairs = list(itt.combinations(range(n), 2))
        for mask in range(1 << len(pairs)):
            es = [p for b, p in enumerate(pairs) if mask >> b & 1]
            perm = list(range(n))
            rng.shuffle(perm)
            for lm in range(1 << n):
                out.append({"op": "simplify", "d": {
                    "nodes": [nm(perm[i]) for i in range(n)], "edges": [[nm(perm[u]), nm(perm[v])] for u, v in es],
                    "latent": [nm(perm[i]) for i in range(n) if lm >> i & 1], "untagged": []}})
    if tier != "quick":
        for _ in range(400):
            out.append({"op": "simplify", "d": rand_dag(rng, nmax=11)})
    for c in out:
        c.setdefault("sub", rng.randrange(1 << 30))
    return out


# ------------------------------------------------------------------------------------------ names <-> ints

def _case_names(case):
    names = set()
    m = 0
    if "g" in case:
        g = case["g"]
        names |= set(G.all_nodes(g))
        m = len(g["bi"])
        names |= set(case.get("extra", []))
    if "d" in case:
        d = case["d"]
        names |= set(d["nodes"]) | {x for e in d["edges"] for x in e} | set(d["latent"]) | set(d.get("untagged", []))
    return names, m


def _fresh_names(case):
    """the names to_latent_variable_dag may give to latents, in order, for the prefix / start of the recorded form"""
    if case["op"] != "roundtrip":
        names, m = _case_names(case)
        return [f"u_{i}" for i in range(m + len(names) + 1)]
    _, (prefix, start, _tag) = _lv_kwargs(_forms(case), case)
    g = case["g"]
    return [f"{prefix}{start + i}" for i in range(len(g["bi"]) + len(G.all_nodes(g)) + 1)]


def table(case):
    """sorted universe of names (Python string order == Variable order); index = the model's Nat"""
    names, m = _case_names(case)
    uni = set(names) | {f"u_{i}" for i in range(m + len(names) + 1)} | set(_fresh_names(case))
    depth = 2 + sum(1 for n in names if n.endswith(SUF))
    for n in list(uni):
        for k in range(1, depth + 1):
            uni.add(n + SUF * k)
    uni = sorted(uni)
    rank = {n: i for i, n in enumerate(uni)}
    return uni, rank


def collides(case):
    """the default names of the code (u_i, v_prime) would hit an existing node (F13/F14 witnesses); tag only"""
    names, m = _case_names(case)
    if any(f"u_{i}" in names for i in range(m)):
        return True
    if case["op"] in ("simplify", "evans", "design"):
        if any(n + SUF in names for n in names):
            return True
        if any(f"u_{i}{SUF}" in names for i in range(m)):
            return True
    return False


# ------------------------------------------------------------------------------------------ real code

def _V(n):
    from y0.dsl import Variable
    return Variable(n)


def _tag_value(is_latent, style, k=0):
    """the value written under the tag of a node (truthy iff latent)"""
    if style == "mixed":
        style = ("bool", "int", "numpy_bool", "none_observed")[k % 4]
    if style == "int":
        return 1 if is_latent else 0
    if style == "numpy_bool":
        try:
            import numpy
            return numpy.bool_(is_latent)
        except ImportError:
            return bool(is_latent)
    if style == "none_observed":
        return True if is_latent else None
    return bool(is_latent)


def build_dag(d, tag="hidden", values="bool"):
    import networkx as nx
    g = nx.DiGraph()
    lat = set(d["latent"])
    unt = set(d.get("untagged", []))
    for k, n in enumerate(d["nodes"]):
        if n in unt:
            g.add_node(_V(n))
        else:
            g.add_node(_V(n), **{tag: _tag_value(n in lat, values, k + len(n))})
    for u, v in d["edges"]:
        g.add_edge(_V(u), _V(v))
    return g


def build_mixed(g, ctor="from_edges", seed=0):
    from y0.graph import NxMixedGraph
    if ctor != "from_edges":
        graph = F.build_graph(g, ctor, seed=seed, name=lambda s: s)
        fault = F.constructor_fault(g, graph, ctor, name=lambda s: s)
        if fault:
            raise RuntimeError(fault)
        return graph
    return NxMixedGraph.from_edges(nodes=[_V(n) for n in g["nodes"]], directed=[(_V(u), _V(v)) for u, v in g["di"]],
                                   undirected=[(_V(u), _V(v)) for u, v in g["bi"]])


def canon_lv_nx(dag, tag="hidden"):
    nodes = [n.name for n in dag.nodes()]
    edges = [[u.name, v.name] for u, v in dag.edges()]
    lat = [n.name for n, data in dag.nodes(data=True) if data.get(tag)]      # by truthiness, as the code reads it
    unt = [n.name for n, data in dag.nodes(data=True) if tag not in data]
    return canon_lv(nodes, edges, lat, unt)


def canon_lv(nodes, edges, lat, unt):
    return ["lv", C.as_set(list(nodes)), C.as_set([list(e) for e in edges]), C.as_set(list(lat)), C.as_set(list(unt))]


def neutral_simplify_out(lv, widows, uni, red, input_names):
    """canonical simplify output that does not depend on the NAMES the code invents for new latents
    (`v_prime…`): a generated latent is named after its child set, generated names in the reported sets
    become '<new>' (with multiplicity).  Names of input nodes are compared exactly."""
    _, nodes, edges, lat, unt = lv
    ch = {}
    for u, v in edges:
        ch.setdefault(u, []).append(v)
    ren = {n: (n if n in input_names else "<new:" + ",".join(sorted(ch.get(n, []))) + ">") for n in nodes}
    f = lambda x: ren.get(x, x)  # noqa: E731
    g = lambda xs: sorted(x if x in input_names else "<new>" for x in xs)  # noqa: E731
    return ["ok", ["lv", sorted(f(n) for n in nodes), sorted([f(u), f(v)] for u, v in edges), sorted(f(n) for n in lat),
                   sorted(f(n) for n in unt)], g(widows), g(uni), g(red)]


def canon_mixed_nx(graph):
    return C.canon_graph(["graph", [n.name for n in graph.nodes()], [[u.name, v.name] for u, v in graph.directed.edges()],
                          [[u.name, v.name] for u, v in graph.undirected.edges()]])


def canon_mixed(nodes, di, bi):
    return C.canon_graph(["graph", list(nodes), [list(e) for e in di], [sorted(e) for e in bi]])


def _lv_parts(dag, tag="hidden"):
    nodes = [n.name for n in dag.nodes()]
    edges = [(u.name, v.name) for u, v in dag.edges()]
    lat = [n.name for n, data in dag.nodes(data=True) if data.get(tag)]
    return nodes, edges, lat


def _id_verdict(nodes, di, bi, X, Y):
    from y0.algorithm.identify import Unidentifiable, identify_outcomes
    from y0.graph import NxMixedGraph
    g = NxMixedGraph.from_edges(nodes=[_V(n) for n in sorted(nodes)], directed=[(_V(u), _V(v)) for u, v in sorted(di)],
                                undirected=[tuple(_V(x) for x in sorted(e)) for e in sorted(bi, key=sorted)])
    try:
        return identify_outcomes(g, {_V(x) for x in X}, {_V(y) for y in Y}) is not None
    except Unidentifiable:
        return False
    except Exception as e:  # a crash of ID is C02's business; here only "same on both sides" matters
        return "raise:" + type(e).__name__


def _proj_checks(case, in_nodes, in_edges, in_lat, out_dag, back, rng, tag="hidden"):
    """the projection / separation / ID clauses for a simplification input -> output; returns fail or None"""
    obs, di, bi = O.projection(in_nodes, in_edges, in_lat)
    exp = canon_mixed(obs, di, bi)
    got = canon_mixed_nx(back)
    if got != exp:
        return f"graph read off the simplified DAG differs from the latent projection of the input: expected {exp} got {got}"
    o_nodes, o_edges, o_lat = _lv_parts(out_dag, tag)
    if not O.is_acyclic(o_nodes, o_edges):
        return "simplified graph is not acyclic"
    # separation among observed nodes: input DAG vs output DAG vs canonical DAG of the projection
    n_tot = len(in_nodes)
    limit = None if n_tot <= 6 else (40 if n_tot <= 8 else 16)
    triples = O.all_triples(obs, rng, limit)
    if triples:
        a = O.sep_relation(in_nodes, in_edges, obs, triples)
        b = O.sep_relation(o_nodes, o_edges, obs, triples)
        cn, ce, _ = O.canonical_dag(obs, di, bi)
        c = O.sep_relation(cn, ce, obs, triples)
        ws = O.WalkSep(in_nodes, in_edges)
        for t, x in zip(triples, a):  # the walk formulation of the Lean spec must agree with path enumeration
            if ws.connected(t[0], t[1], t[2]) != x:
                raise AssertionError(f"oracle self-check: walk and path d-connection differ on {t} in {in_edges}")
        ms = O.MixedWalkSep(obs, di, bi)
        for t, z in zip(triples, c):  # walk m-connection on the projection vs path d-connection in its canonical DAG
            if ms.connected(t[0], t[1], t[2]) != z:
                raise AssertionError(f"oracle self-check: mixed walk and canonical-DAG path connection differ on {t}")
        for t, x, y, z in zip(triples, a, b, c):
            if x != y:
                return f"d-connection of {t[0]},{t[1]} given {list(t[2])} changed by the simplification: before {x} after {y}"
            if x != z:
                return f"d-connection of {t[0]},{t[1]} given {list(t[2])} in the LV-DAG ({x}) differs from m-connection in its projection ({z})"
    # ID verdicts on the independent projection vs on y0's output graph
    ob = sorted(obs)
    if len(ob) >= 2:
        bn = [n.name for n in back.nodes()]
        bdi = [(u.name, v.name) for u, v in back.directed.edges()]
        bbi = [frozenset((u.name, v.name)) for u, v in back.undirected.edges()]
        for _ in range(3):
            k = rng.randint(1, max(1, len(ob) // 2))
            X = rng.sample(ob, k)
            rest = [v for v in ob if v not in X]
            Y = rng.sample(rest, rng.randint(1, max(1, len(rest) // 2)))
            v1 = _id_verdict(obs, di, bi, X, Y)
            v2 = _id_verdict(bn, bdi, bbi, X, Y)
            if v1 != v2:
                return f"identifiability of P({Y}|do({X})) differs: projection of the input {v1}, simplified graph {v2}"
    return None


def _run_simplify(case):
    import copy
    from y0.algorithm.simplify_latent import simplify_latent_dag
    from y0.graph import NxMixedGraph
    d = case["d"]
    rng = random.Random(case.get("sub", 0))
    tag, tkw = _tag_of(_forms(case))
    dag = build_dag(d, tag, _forms(case).get("tag_values", "bool"))
    in_nodes = list(d["nodes"])
    in_edges = [tuple(e) for e in d["edges"]]
    in_lat = list(d["latent"])
    valid = not d.get("untagged") and O.is_acyclic(in_nodes, in_edges)
    try:
        res = simplify_latent_dag(dag, **tkw)
        names_out = canon_lv_nx(res.graph, tag)
        out = neutral_simplify_out(names_out, [v.name for v in res.widows], [v.name for v in res.unidirectional_latents],
                                   [v.name for v in res.redundant], set(in_nodes))
    except _errs() as e:
        out = ["err"]
        if valid:
            return out, f"simplify_latent_dag raised {type(e).__name__} on a valid LV-DAG", {}
        return out, None, {}
    if not valid:
        return out, None, {}
    o_nodes, o_edges, o_lat = _lv_parts(res.graph, tag)
    obs_in = set(in_nodes) - set(in_lat)
    obs_out = set(o_nodes) - set(o_lat)
    changed = names_out != canon_lv(in_nodes, in_edges, in_lat, [])
    info = {"changed": changed, "n_obs": len(obs_in)}
    if obs_in != obs_out:
        return out, f"observed nodes not kept: before {sorted(obs_in)} after {sorted(obs_out)}", info
    # idempotence: run the real simplifier again on a copy of its own output
    again = copy.deepcopy(res.graph)
    try:
        res2 = simplify_latent_dag(again, **tkw)
        c2 = canon_lv_nx(res2.graph, tag)
    except _errs() as e:
        return out, f"second simplification raised {type(e).__name__}", info
    if c2 != names_out:
        return out, f"not idempotent: first {names_out} second {c2}", info
    try:
        back = NxMixedGraph.from_latent_variable_dag(res.graph, **tkw)
    except _errs() as e:
        return out, f"from_latent_variable_dag raised {type(e).__name__} on a simplified DAG", info
    return out, _proj_checks(case, in_nodes, in_edges, in_lat, res.graph, back, rng, tag), info


def _run_roundtrip(case):
    from y0.graph import NxMixedGraph
    g = case["g"]
    fm = _forms(case)
    try:
        graph = build_mixed(g, fm["ctor"], case.get("sub", 0))
    except Exception as e:  # noqa: BLE001
        return ["err"], f"constructor {fm['ctor']}: {type(e).__name__} {str(e)[:150]}", {}
    lkw, (_prefix, _start, tag) = _lv_kwargs(fm, case)
    ft = fm["from_tag"]
    try:
        lv = graph.to_latent_variable_dag(**lkw)
        if tag != "hidden" and ft in ("omitted", "none"):
            ft = "keyword"          # a custom tag has to be named when reading the DAG back
        if ft == "omitted":
            back = NxMixedGraph.from_latent_variable_dag(lv)
        elif ft == "none":
            back = NxMixedGraph.from_latent_variable_dag(lv, None)
        elif ft == "positional":
            back = NxMixedGraph.from_latent_variable_dag(lv, tag)
        else:
            back = NxMixedGraph.from_latent_variable_dag(graph=lv, tag=tag)
    except Exception as e:  # noqa: BLE001 - the round trip is total on mixed graphs
        return ["err"], f"conversion raised {type(e).__name__}", {}
    out = ["ok", canon_lv_nx(lv, tag), canon_mixed_nx(back)]
    V = G.all_nodes(g)
    exp = canon_mixed(V, [tuple(e) for e in g["di"]], [frozenset(e) for e in g["bi"]])
    info = {"isolated": len(V) > len({x for e in g["di"] + g["bi"] for x in e}), "n_bi": len({frozenset(e) for e in g["bi"]})}
    if not (back == graph) or out[2] != exp:
        return out, f"round trip changed the graph: expected {exp} got {out[2]}", info
    # the LV-DAG itself: its projection (path enumeration) must be the graph, latents exogenous
    n, e, l = _lv_parts(lv, tag)
    obs, di, bi = O.projection(n, e, l)
    if canon_mixed(obs, di, bi) != exp:
        return out, f"latent projection of to_latent_variable_dag(G) is not G: {canon_mixed(obs, di, bi)}", info
    return out, None, info


def _own_lv(g, extra):
    """independent LV-DAG of an ADMG: one private latent per bidirected edge, plus the extra latent marks"""
    nodes = list(G.all_nodes(g))
    edges = [tuple(e) for e in g["di"]]
    lat = [v for v in nodes if v in set(extra)]
    for k, e in enumerate(sorted({frozenset(e) for e in g["bi"]}, key=sorted)):
        a, b = sorted(e)
        l = f"~bi{k}"
        nodes.append(l)
        lat.append(l)
        edges += [(l, a), (l, b)]
    return nodes, edges, lat


def _run_evans(case):
    from y0.algorithm.simplify_latent import evans_simplify
    g = case["g"]
    fm = _forms(case)
    extra = case.get("extra", [])
    try:
        graph = build_mixed(g, fm["ctor"], case.get("sub", 0))
    except Exception as e:  # noqa: BLE001
        return ["err"], f"constructor {fm['ctor']}: {type(e).__name__} {str(e)[:150]}", {}
    _tag, kw = _tag_of(fm)
    kw = dict(kw)
    if extra:
        kw["latents"] = F.varset([_V(x) for x in extra], fm["latents"])
    elif fm["latents"] != "omitted":
        kw["latents"] = {"none": None, "empty_set": set(), "empty_tuple": ()}[fm["latents"]]
    try:
        r = evans_simplify(graph=graph, **kw) if fm["call"] == "keyword" else evans_simplify(graph, **kw)
    except Exception as e:  # noqa: BLE001 - total on ADMGs
        return ["err"], f"evans_simplify raised {type(e).__name__}", {}
    out = ["ok", canon_mixed_nx(r)]
    nodes, edges, lat = _own_lv(g, extra)
    obs, di, bi = O.projection(nodes, edges, lat)
    exp = canon_mixed(obs, di, bi)
    info = {"changed": bool(extra), "n_obs": len(obs)}
    if out[1] != exp:
        return out, f"evans_simplify result is not the latent projection: expected {exp} got {out[1]}", info
    return out, None, info


def _run_from_lv(case):
    from y0.graph import NxMixedGraph
    d = case["d"]
    fm = _forms(case)
    tag, tkw = _tag_of(fm)
    dag = build_dag(d, tag, fm.get("tag_values", "bool"))
    try:
        if fm["call"] == "keyword":
            back = NxMixedGraph.from_latent_variable_dag(graph=dag, **tkw)
        elif "tag" in tkw:
            back = NxMixedGraph.from_latent_variable_dag(dag, tkw["tag"])
        else:
            back = NxMixedGraph.from_latent_variable_dag(dag)
        out = ["ok", canon_mixed_nx(back)]
    except _errs():
        return ["err"], None, {}
    lat = set(d["latent"])
    flat = not d.get("untagged") and all(v not in lat for _, v in d["edges"])
    if flat:  # every latent exogenous with observed children: the graph read off IS the projection
        obs, di, bi = O.projection(d["nodes"], [tuple(e) for e in d["edges"]], lat)
        exp = canon_mixed(obs, di, bi)
        if out[1] != exp:
            return out, f"from_latent_variable_dag of a simplified DAG is not its projection: expected {exp} got {out[1]}", {"flat": True}
    return out, None, {"flat": flat}


def _run_design(case):
    import copy
    from y0.algorithm.taheri_design import _get_result
    d = case["d"]
    fm = _forms(case)
    tag, tkw = _tag_of(fm)
    dag = build_dag(d, tag, fm.get("tag_values", "bool"))
    lat = [x for x in d["latent"]]
    obs_l = [v for v in d["nodes"] if v not in lat]
    try:
        r = _get_result(copy.deepcopy(dag), F.container([_V(x) for x in lat], fm["latents"]),
                        F.container([_V(x) for x in obs_l], fm["observed"]), _V(case["cause"]), _V(case["effect"]), **tkw)
        verdict = bool(r[0])
        out = ["ok", str(verdict).lower(), int(r.pre_nodes), int(r.pre_edges), int(r.post_nodes), int(r.post_edges)]
    except _errs() as e:
        return ["err"], f"_get_result raised {type(e).__name__}: {str(e)[:80]}", {}
    obs, di, bi = O.projection(d["nodes"], [tuple(e) for e in d["edges"]], lat)
    v = _id_verdict(obs, di, bi, [case["cause"]], [case["effect"]])
    if v != verdict:
        return out, f"_get_result says identifiable={verdict}, ID on the latent projection of the input says {v}", {}
    return out, None, {}


def run_python(case):
    op = case["op"]
    out, fail, info = {"simplify": _run_simplify, "roundtrip": _run_roundtrip, "evans": _run_evans,
                       "from_lv": _run_from_lv, "design": _run_design}[op](case)
    d = case.get("d")
    tags = {"op": op, "outcome": out[0], "collision": collides(case), "names": case.get("names") or "plain"}
    fm = dict(_forms(case))
    if op == "roundtrip":
        # does the skip-taken-names loop of _latent_dag have to skip for the prefix / start of THIS call?
        g = case["g"]
        have = set(G.all_nodes(g))
        nb = len({frozenset(e) for e in g["bi"]})
        taken, used = 0, 0
        for name in _fresh_names(case):
            if used >= nb:
                break
            if name in have:
                taken += 1
            else:
                used += 1
        _, (prefix, start, _t) = _lv_kwargs(fm, case)
        tags["prefix_kind"] = "default" if prefix == "u_" else "empty" if prefix == "" else "custom"
        tags["prefix_collides"] = ("no" if not taken else "default_prefix" if prefix == "u_" else "custom_prefix")
        tags["start_negative"] = start < 0
        tags["fresh_names_skipped"] = min(taken, 3)
    if op == "evans":
        ex = case.get("extra", [])
        have = set(G.all_nodes(case["g"]))
        tags["extra_foreign"] = ("none" if set(ex) <= have else "only_foreign" if not set(ex) & have else "mixed_with_members")
    if op == "evans" and case.get("extra"):
        fm["latents"] = F.effective(case["extra"], fm["latents"])
    tags.update(F.tags(fm))
    nontrivial = False
    if d is not None:
        lat = set(d["latent"])
        ch = {}
        pa = {}
        for u, v in d["edges"]:
            ch.setdefault(u, set()).add(v)
            pa.setdefault(v, set()).add(u)
        tags["n_nodes"] = len(d["nodes"])
        tags["n_latent"] = len(lat)
        tags["has_middle_latent"] = any(pa.get(l) and ch.get(l) for l in lat)
        tags["has_latent_chain"] = any(v in lat for l in lat for v in ch.get(l, ()))
        tags["has_widow"] = any(not ch.get(l) for l in lat)
        tags["has_single_child_latent"] = any(len(ch.get(l, ())) == 1 for l in lat)
        cs = [frozenset(ch.get(l, ())) for l in lat if ch.get(l)]
        tags["dup_child_sets"] = len(cs) != len(set(cs))
        tags["nested_child_sets"] = any(a < b for a in cs for b in cs)
        tags["malformed"] = bool(d.get("untagged")) or not O.is_acyclic(d["nodes"], [tuple(e) for e in d["edges"]])
        nontrivial = bool(info.get("changed")) and info.get("n_obs", 0) >= 2
    else:
        g = case["g"]
        tags["n_nodes"] = len(G.all_nodes(g))
        tags["n_bi"] = len(g["bi"])
        if op == "roundtrip":
            tags["has_isolated"] = bool(info.get("isolated"))
            nontrivial = bool(info.get("isolated")) or info.get("n_bi", 0) >= 2
        else:
            tags["extra_latents"] = len(case.get("extra", []))
            nontrivial = bool(info.get("changed")) and info.get("n_obs", 0) >= 2
    return {"out": out, "fail": fail, "nontrivial": nontrivial, "tags": tags}


# ------------------------------------------------------------------------------------------ model side

def _enc_graph(g, rank):
    return C.graph_sexp([rank[n] for n in g["nodes"]], [[rank[u], rank[v]] for u, v in g["di"]],
                        [[rank[u], rank[v]] for u, v in g["bi"]])


def _enc_lv(d, rank):
    return ["lv", [rank[n] for n in d["nodes"]], [[rank[u], rank[v]] for u, v in d["edges"]],
            [rank[n] for n in d["latent"]], [rank[n] for n in d.get("untagged", [])]]


def request(case):
    op = case["op"]
    uni, rank = table(case)
    primes = [[rank[n], rank[n + SUF]] for n in uni if n + SUF in rank]
    if op == "roundtrip":
        fresh = [rank[n] for n in _fresh_names(case)]
        return C.enc(["latent", "roundtrip", _enc_graph(case["g"], rank), fresh])
    if op == "simplify":
        return C.enc(["latent", "simplify", _enc_lv(case["d"], rank), primes])
    if op == "from_lv":
        return C.enc(["latent", "from_lv", _enc_lv(case["d"], rank)])
    if op == "design":
        return C.enc(["latent", "design", _enc_lv(case["d"], rank), primes, rank[case["cause"]], rank[case["effect"]]])
    if op == "evans":
        fresh = [rank[f"u_{i}"] for i in range(len(case["g"]["bi"]) + len(G.all_nodes(case["g"])) + 1)]
        return C.enc(["latent", "evans", _enc_graph(case["g"], rank), [rank[x] for x in case.get("extra", [])], fresh, primes])
    return None


def _dec_lv(s, uni):
    assert s[0] == "lv", s
    f = lambda x: uni[int(x)]  # noqa: E731
    return canon_lv([f(x) for x in s[1]], [[f(u), f(v)] for u, v in s[2]], [f(x) for x in s[3]], [f(x) for x in s[4]])


def _dec_graph(s, uni):
    assert s[0] == "graph", s
    f = lambda x: uni[int(x)]  # noqa: E731
    return C.canon_graph(["graph", [f(x) for x in s[1]], [[f(u), f(v)] for u, v in s[2]], [[f(u), f(v)] for u, v in s[3]]])


def canon_model(case, rep):
    if rep[0] == "err":
        return ["err"]
    uni, _ = table(case)
    op = case["op"]
    body = rep[1]
    if op == "design":
        return ["ok", str(body[0]), int(body[1]), int(body[2]), int(body[3]), int(body[4])]
    if op == "roundtrip":
        return ["ok", _dec_lv(body[0], uni), _dec_graph(body[1], uni)]
    if op == "simplify":
        d = case["d"]
        names = set(d["nodes"]) | {x for e in d["edges"] for x in e}
        return neutral_simplify_out(_dec_lv(body[0], uni), *[[uni[int(x)] for x in s] for s in body[1:4]], names)
    return ["ok", _dec_graph(body, uni)]


# ------------------------------------------------------------------------------------------ shrink / keys

def shrink(case):
    if "d" in case:
        d = case["d"]
        for v in d["nodes"]:
            if v in (case.get("cause"), case.get("effect")):
                continue
            yield dict(case, d={"nodes": [x for x in d["nodes"] if x != v], "edges": [e for e in d["edges"] if v not in e],
                                "latent": [x for x in d["latent"] if x != v],
                                "untagged": [x for x in d.get("untagged", []) if x != v]})
        for k in range(len(d["edges"])):
            yield dict(case, d=dict(d, edges=d["edges"][:k] + d["edges"][k + 1:]))
        for v in d["latent"]:
            if case["op"] != "design":
                yield dict(case, d=dict(d, latent=[x for x in d["latent"] if x != v]))
    else:
        for g in G.shrink_graph(case["g"]):
            live = set(G.all_nodes(g))
            c = dict(case, g=g)
            if "extra" in c:
                was = set(G.all_nodes(case["g"]))
                c["extra"] = [v for v in c["extra"] if v in live or v not in was]
            yield c
        for k in range(len(case.get("extra", []))):
            yield dict(case, extra=case["extra"][:k] + case["extra"][k + 1:])


def finding_key(case, res):
    c = {k: case[k] for k in ("op", "g", "d", "extra", "cause", "effect", "lv") if k in case}
    return json.dumps(c, sort_keys=True)


MANIFEST = {
    "text": ("Proof: 46 Lean theorems about the executable model of graph.py (_latent_dag / to_latent_variable_dag / "
             "from_latent_variable_dag) and simplify_latent.py (four rules, simplify_latent_dag, evans_simplify), for ALL "
             "well-formed inputs, no size bound. Round trip: from(to(G)) == G for every mixed graph incl. edge-less nodes "
             "and nodes already called u_i (roundtrip, toLV_is_projection). Simplification of any well-formed acyclic LV-DAG "
             "with any latent subset: never raises (simplify_total, which includes a proof that the modelled Kahn "
             "topological sort succeeds on every acyclic graph), keeps exactly the observed nodes (simplify_keeps_observed), "
             "is idempotent literally (simplify_idem), yields a flat irredundant DAG (simplify_simplified), and the mixed graph "
             "read off it is exactly the relationally defined latent projection of the ORIGINAL DAG (simplify_projection; one "
             "lemma per rule rule1..rule4_*_sameProj; fromLV_is_projection). evans_simplify returns the projection "
             "(evans_projection, evans_id). 'Consequently' clause, separation: d-connection among observed nodes given any "
             "observed conditioning set is the same inside the simplified and the original LV-DAG (simplify_dsep_invariant, one "
             "lemma per rule) and equals m-connection in the latent projection (dsep_iff_msep_projection); the walk formulation "
             "these are proved with is proved equal to the textbook simple-path definition MConnPath of property C04 "
             "(dconn_walk_iff_path, mconn_walk_iff_path), and the clause is restated with it and with the executable "
             "are_d_separated model of C04: same verdict on the LV-DAG itself (latents as ordinary nodes), on any latent "
             "projection and on the graph read off the simplified DAG (lvdag_dsep_model_eq_projection, "
             "simplify_preserves_dsep_model, simplify_dsep_verdict_iff_no_path). 'Consequently' clause, identifiability: the "
             "verdict of the ID model of C02 does not depend on insertion order nor on the topological orders networkx returns "
             "(id_verdict_equiv_congr, by induction along the ID recursion), hence is the same on the graph read off the "
             "simplified DAG and on any latent projection of the original (simplify_id_verdict, evans_id_verdict, "
             "evans_id_verdict_latents). verdict_invariant: the same for every function of the graph respecting __eq__. "
             "Consumer taheri_design._get_result: never raises for observed cause != effect, reports the counts of the input "
             "and the simplified DAG, returns the latent projection of the input, and its verdict is ID's verdict on any "
             "latent projection of the input (design_result, design_keyError)."),
    "note": ("Trusted: Lean kernel; axioms propext/Classical.choice/Quot.sound; Spec/LatentSpec.lean (definition of latent "
             "projection, WF, Acyclic); Spec/SepSpec.lean (MConnPath: the textbook path definition of m-/d-connection, shared "
             "with C04) and the definitions ValidQuery / TopoGood of Lemmas/IdTotal.lean (shared with C02); the separation and "
             "identifiability clauses are about the C04 / C02 models (MG.dSeparated, identify), which those properties' own "
             "correspondence checks tie to are_d_separated / identify(); the hand-written model tied to the code by differential sampling on every run "
             "(networkx DiGraph/topological_sort behaviour under mutation is modelled); Python string order of names is "
             "passed to the model as a rank table. Five defects were found by this check and fixed in y0 (edge-less nodes "
             "dropped by both conversions, single-pass widow removal, u_i and _prime name collisions); the model follows "
             "the fixed code and their witnesses stay in the corpus."),
    "technique": ("Lean 4 theorems (path calculus on an inductive latent-only-path relation, fold invariants, finite-set "
                  "cardinality arguments for name freshness, Kahn totality) + differential correspondence with the real y0 "
                  "functions + independent oracle (latent projection and d-connection by path enumeration, simplifier run "
                  "twice, identify_outcomes on both projections)"),
}
