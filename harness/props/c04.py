"""C04 — d-separation verdicts equal true m-separation in the mixed graph.

Correspondence: `are_d_separated` (verdict and every field of the returned DSeparationJudgement, or the error
category) real code vs Lean model `Y0.Model.Sep` (`MG.areDSeparated`), on single queries and on whole verdict
tables (every ordered pair x every conditioning set of a small ADMG).
Oracle (from the property statement): brute-force enumeration of d-connecting simple paths in the canonical DAG
(each bidirected edge replaced by a fresh latent common parent), `networkx.is_d_separator` on the same DAG as a
second opinion; symmetry in (a, b); insertion-order independence (same query on a re-shuffled construction of the
same graph); canonical judgement record; on small graphs a reported separation must be an exact conditional
independence of a random compatible discrete SCM (exact rationals).
"""
from __future__ import annotations

import itertools as itt
import json
import random

from .. import common as C
from .. import forms as F
from .. import gen_graph as G
from ..oracles import sep_paths as O

PROP = "C04"
RULE = ("random ADMGs (2-7 nodes; bidirected chains through conditioned nodes and through ancestors of conditioned "
        "nodes, parallel directed+bidirected pairs, isolated nodes, random insertion order) x ordered pairs of distinct "
        "nodes x conditioning sets (empty, sampled, collider-targeted); whole verdict tables (all pairs x all conditioning "
        "sets) for ADMGs on <=4 nodes (quick: sampled, thorough: every ADMG on <=3 nodes and sampled 4-5 node ones); a "
        "malformed stream (endpoint or condition not in the graph, endpoint inside the conditioning set, a == b, cyclic "
        "graphs, non-Variable arguments). A case is non-trivial when it is in the property's scope and either the "
        "conditioning set is non-empty or the true verdict changes when every bidirected edge is deleted.")
ASSUMPTIONS = [
    "argument FORMS (harness/forms.py), chosen deterministically per case, written into the case (`forms`) and tagged form_*: the conditioning set is handed to are_d_separated / DSeparationJudgement.create in every iterable form the signature allows (list, tuple, set, frozenset, dict keys, generator, iterator, map; an empty set also as None or omitted), with different forms for the query, the swapped query and the query on the re-shuffled graph; graph / a / b positional or by keyword; the graph built through every public constructor of NxMixedGraph (from_edges with lists / tuples / generators / iterators / sets, from_str_edges, from_adj, from_str_adj, from_latent_variable_dag, incremental add_* calls). The model takes a list, so independence of the form is a runtime clause decided by correspondence + oracle (seeded/C04b)",
    "the 'compatible models' of the last clause are the semi-Markovian models of lean/Y0/Spec/Scm.lean (Scm.Compatible: discrete "
    "variables of any cardinality, positive rational parameters, independent root latents of any arity, two observed variables "
    "share a latent only across a bidirected edge); latents with parents and non-positive distributions are outside the class",
    "the graph-theoretic theorems need no acyclicity ('verdict <-> no m-connecting path <-> no d-connecting path in dagOf G' holds "
    "for every directed mixed graph); acyclicity is used for dagOf G being a DAG (dagOf_acyclic) and for dsep_sound",
    "Python set iteration order inside are_d_separated is assumed irrelevant (the model uses lists); checked by re-running "
    "each query on a re-shuffled construction of the graph",
    "the TypeError branches (non-Variable arguments) have no model counterpart (the model is typed); they are exercised on the "
    "Python side only",
]
EXHAUSTIVE = {"quick": False, "thorough": True}
LEANCHECK_MODULES = ["Y0.Model.Sep", "Y0.Lemmas.SepMarkov", "Y0.Props.C04"]

CORPUS = [
    # F2 witness (DESIGN section 1): B->A, B<->A, C<->A ; B vs C given A   (A=0, B=1, C=2)
    {"kind": "one", "g": {"nodes": [], "di": [[1, 0]], "bi": [[1, 0], [2, 0]]}, "a": 1, "b": 2, "C": [0], "shuffle_seed": 1},
    # minimal bidirected collider: B<->A<->C given A
    {"kind": "one", "g": {"nodes": [], "di": [], "bi": [[1, 0], [2, 0]]}, "a": 1, "b": 2, "C": [0], "shuffle_seed": 2},
    # collider with a conditioned descendant: B<->A<->C, A->D given D
    {"kind": "one", "g": {"nodes": [], "di": [[0, 3]], "bi": [[1, 0], [2, 0]]}, "a": 1, "b": 2, "C": [3], "shuffle_seed": 3},
    # mixed collider B->A<->C given A
    {"kind": "one", "g": {"nodes": [], "di": [[1, 0]], "bi": [[2, 0]]}, "a": 1, "b": 2, "C": [0], "shuffle_seed": 4},
    # long bidirected chain 1<->0<->3<->2 given {0,3}
    {"kind": "one", "g": {"nodes": [], "di": [], "bi": [[1, 0], [0, 3], [3, 2]]}, "a": 1, "b": 2, "C": [0, 3], "shuffle_seed": 5},
    # the same chain, only one collider conditioned: separated
    {"kind": "one", "g": {"nodes": [], "di": [], "bi": [[1, 0], [0, 3], [3, 2]]}, "a": 1, "b": 2, "C": [0], "shuffle_seed": 6},
    # textbook DAG collider / chain / fork
    {"kind": "one", "g": {"nodes": [], "di": [[0, 2], [1, 2]], "bi": []}, "a": 0, "b": 1, "C": [2], "shuffle_seed": 7},
    {"kind": "one", "g": {"nodes": [], "di": [[0, 1], [1, 2]], "bi": []}, "a": 0, "b": 2, "C": [1], "shuffle_seed": 8},
    {"kind": "one", "g": {"nodes": [], "di": [[1, 0], [1, 2]], "bi": []}, "a": 0, "b": 2, "C": [], "shuffle_seed": 9},
    # napkin graph: W->R->X->Y, W<->X, W<->Y
    {"kind": "one", "g": {"nodes": [], "di": [[0, 1], [1, 2], [2, 3]], "bi": [[0, 2], [0, 3]]}, "a": 1, "b": 3, "C": [2], "shuffle_seed": 10},
    {"kind": "table", "g": {"nodes": [], "di": [[0, 1], [1, 2], [2, 3]], "bi": [[0, 2], [0, 3]]}},
    # error branches
    {"kind": "one", "g": {"nodes": [0, 1], "di": [], "bi": []}, "a": 0, "b": 5, "C": [], "shuffle_seed": 11},
    {"kind": "one", "g": {"nodes": [0, 1], "di": [], "bi": []}, "a": 0, "b": 1, "C": [7], "shuffle_seed": 12},
    {"kind": "one", "g": {"nodes": [0, 1, 2], "di": [[0, 1]], "bi": []}, "a": 0, "b": 1, "C": [0], "shuffle_seed": 13},
    {"kind": "one", "g": {"nodes": [0, 1, 2], "di": [[0, 1]], "bi": []}, "a": 0, "b": 0, "C": [], "shuffle_seed": 14},
    {"kind": "type", "which": "left"}, {"kind": "type", "which": "right"}, {"kind": "type", "which": "conditions"},
    {"kind": "canon", "left": 2, "right": 1, "conds": [3, 0, 3], "sep": True},
    {"kind": "canon", "left": 1, "right": 2, "conds": [0, 3, 3], "sep": False},
    {"kind": "canon", "left": 1, "right": 1, "conds": [], "sep": True},
]


# ------------------------------------------------------------------------------------------ generators

def rand_admg(rng: random.Random, nmin=2, nmax=7):
    """ADMG biased towards bidirected structure: random density, plus (often) an explicit bidirected chain"""
    n = rng.randint(nmin, nmax)
    perm = list(range(n))
    rng.shuffle(perm)
    pd = rng.choice([0.1, 0.25, 0.4, 0.6])
    pb = rng.choice([0.0, 0.15, 0.3, 0.5])
    di, bi = [], []
    for i in range(n):
        for j in range(i + 1, n):
            if rng.random() < pd:
                di.append([perm[i], perm[j]])
            if rng.random() < pb:
                bi.append([perm[i], perm[j]] if rng.random() < 0.5 else [perm[j], perm[i]])
    if n >= 3 and rng.random() < 0.5:
        k = rng.randint(3, min(n, 5))
        chain = rng.sample(range(n), k)
        for u, v in zip(chain, chain[1:]):
            if [u, v] not in bi and [v, u] not in bi:
                bi.append([u, v])
    rng.shuffle(di)
    rng.shuffle(bi)
    nodes = list(range(n))
    rng.shuffle(nodes)
    if rng.random() < 0.3:
        touched = {x for e in di + bi for x in e}
        nodes = [v for v in nodes if v not in touched or rng.random() < 0.5]
    return {"nodes": nodes, "di": di, "bi": bi}


def _desc(g, v):
    seen, todo = {v}, [v]
    while todo:
        x = todo.pop()
        for u, w in g["di"]:
            if u == x and w not in seen:
                seen.add(w)
                todo.append(w)
    return seen


def rand_query(rng, g):
    V = G.all_nodes(g)
    a, b = rng.sample(V, 2)
    rest = [v for v in V if v not in (a, b)]
    mode = rng.random()
    if mode < 0.15:
        Cs = []
    elif mode < 0.55:
        Cs = [v for v in rest if rng.random() < rng.choice([0.2, 0.5, 0.8])]
    else:
        # collider-targeted: endpoints of bidirected edges / common children, or one of their descendants
        heads = [x for e in g["bi"] for x in e] + [v for v in V if sum(1 for e in g["di"] if e[1] == v) >= 2]
        heads = [h for h in heads if h in rest]
        Cs = []
        for h in heads:
            if rng.random() < 0.5:
                d = [x for x in _desc(g, h) if x in rest]
                Cs.append(rng.choice(d) if d and rng.random() < 0.5 else h)
        Cs = sorted(set(Cs))
        if rng.random() < 0.3:
            Cs += [v for v in rest if v not in Cs and rng.random() < 0.3]
    rng.shuffle(Cs)
    if rng.random() < 0.1 and Cs:
        Cs.append(Cs[0])           # a duplicate: the argument is an iterable, the code makes it a set
    return a, b, Cs


COND_FORMS = F.CONTAINERS                    # conditions: Iterable[Variable] | None
EMPTY_FORMS = F.CONTAINERS + ("none", "omitted", "none", "omitted")


def _slots(case):
    kind = case["kind"]
    if kind == "one":
        e = EMPTY_FORMS if not case["C"] else COND_FORMS
        return {"conditions": e, "conditions_swapped": e, "conditions_shuffled": e, "ctor": F.CTORS,
                "ctor_shuffled": F.CTORS, "call": ("positional", "keyword")}
    if kind == "table":
        return {"ctor": F.CTORS}
    if kind == "canon":
        return {"conditions": EMPTY_FORMS if not case["conds"] else COND_FORMS, "call": ("positional", "keyword")}
    return {}


def _forms(case):
    return F.forms_of(case, _slots(case))


def cases(rng: random.Random, tier: str):
    return [F.assign(c, _slots(c)) for c in _cases(rng, tier)]


def _cases(rng: random.Random, tier: str):
    out = [dict(c) for c in CORPUS] + C_load_corpus()
    n_one = 9000 if tier == "quick" else 60000
    for _ in range(n_one):
        g = rand_admg(rng)
        a, b, Cs = rand_query(rng, g)
        out.append({"kind": "one", "g": g, "a": a, "b": b, "C": Cs, "shuffle_seed": rng.randrange(1 << 30)})
    # malformed / out-of-scope stream
    for _ in range(400 if tier == "quick" else 3000):
        g = G.rand_graph(rng, 1, 6, acyclic=rng.random() < 0.4)
        V = G.all_nodes(g)
        if not V:
            continue
        r = rng.random()
        a = rng.choice(V)
        b = rng.choice(V)
        Cs = G.rand_subset(rng, V, p=rng.choice([0.0, 0.3, 0.6]))
        if r < 0.25:
            a = 90
        elif r < 0.4:
            b = 91
        elif r < 0.6:
            Cs = Cs + [92]
        out.append({"kind": "one", "g": g, "a": a, "b": b, "C": Cs, "shuffle_seed": rng.randrange(1 << 30)})
    # DSeparationJudgement.create / is_canonical on arbitrary (also non-canonical) records
    for _ in range(300 if tier == "quick" else 2000):
        n = rng.randint(0, 5)
        conds = [rng.randrange(8) for _ in range(n)]
        if rng.random() < 0.5:
            conds = sorted(conds) if rng.random() < 0.7 else sorted(set(conds))
        out.append({"kind": "canon", "left": rng.randrange(8), "right": rng.randrange(8), "conds": conds,
                    "sep": rng.random() < 0.5})
    # verdict tables
    for _ in range(200 if tier == "quick" else 1500):
        out.append({"kind": "table", "g": rand_admg(rng, 2, 4 if tier == "quick" else 5)})
    if tier == "thorough":
        for k in (2, 3):
            for g in G.enumerate_graphs(k, cyclic=False):
                out.append({"kind": "table", "g": g})
        # every ADMG on 4 nodes in the natural orientation is 4096 graphs x 48 queries: sample a quarter of them
        for g in G.enumerate_graphs(4, cyclic=False):
            if rng.random() < 0.25:
                out.append({"kind": "table", "g": g})
    return out


def C_load_corpus():
    import os
    d = C.VERIF / "corpus" / PROP
    out = []
    if d.is_dir():
        for f in sorted(os.listdir(d)):
            if f.endswith(".json"):
                c = json.loads((d / f).read_text())
                out.append(c.get("case", c))
    return out


# ------------------------------------------------------------------------------------------ real code

def _judgement(j):
    return ["j", "true" if j.separated else "false", str(G.vint(j.left)), str(G.vint(j.right)),
            [str(G.vint(c)) for c in j.conditions]]


def _cell_form(a, b, Cs):
    """verdict tables: one query per cell, the form of the conditioning set a deterministic function of the cell"""
    opts = COND_FORMS if Cs else EMPTY_FORMS
    return opts[(3 * a + 5 * b + 7 * len(Cs) + sum(Cs)) % len(opts)]


def _ads(graph, a, b, Cs, form, kw=False):
    """are_d_separated with the conditioning set in the given form"""
    from y0.algorithm.conditional_independencies import are_d_separated

    if form == "omitted":
        return are_d_separated(graph=graph, a=G.V(a), b=G.V(b)) if kw else are_d_separated(graph, G.V(a), G.V(b))
    conds = None if form == "none" else F.container([G.V(c) for c in Cs], form)
    if kw:
        return are_d_separated(graph=graph, a=G.V(a), b=G.V(b), conditions=conds)
    return are_d_separated(graph, G.V(a), G.V(b), conditions=conds)


def _call(g, a, b, Cs, form="list", ctor="from_edges", kw=False, seed=0):
    import networkx as nx

    try:
        graph = F.build_graph(g, ctor, seed=seed)
    except Exception as e:  # noqa: BLE001 - every graph dict is a legal input of every constructor
        return ["err"], f"constructor {ctor} raised {type(e).__name__}"
    fault = F.constructor_fault(g, graph, ctor)
    if fault:
        return ["err"], fault
    try:
        j = _ads(graph, a, b, Cs, form, kw)
        return ["ok", _judgement(j)], j
    except Exception as e:  # noqa: BLE001 - whatever the class: an error outcome of the real code, never a harness error
        return ["err"], type(e).__name__


def table_order(V):
    V = sorted(V)
    for a in V:
        for b in V:
            if a == b:
                continue
            rest = [v for v in V if v not in (a, b)]
            for r in range(len(rest) + 1):
                for Cs in itt.combinations(rest, r):
                    yield a, b, list(Cs)


def _run_table(case):
    g = case["g"]
    ctor = _forms(case)["ctor"]
    graph = F.build_graph(g, ctor, seed=len(g["di"]) + 7 * len(g["bi"]))
    V = G.all_nodes(g)
    cells = []
    fails = []
    scope = O.is_acyclic(g)
    if F.constructor_fault(g, graph, ctor):
        return "#constructor-fault", [(V[0], V[-1], [], F.constructor_fault(g, graph, ctor), None)] if scope and V else []
    for a, b, Cs in table_order(V):
        try:
            s = bool(_ads(graph, a, b, Cs, _cell_form(a, b, Cs), kw=(a + b) % 2 == 1))
            cells.append("t" if s else "f")
        except Exception:
            cells.append("e")
            s = None
        if scope:
            want = O.d_separated(g, a, b, Cs)
            if s is not want:
                fails.append((a, b, Cs, s, want))
    return "#" + "".join(cells), fails


def _create(cls, fm, left, right, conds, sep):
    if fm["conditions"] == "omitted":
        return cls.create(left=left, right=right, separated=sep) if fm["call"] == "keyword" else cls.create(left, right, separated=sep)
    cc = None if fm["conditions"] == "none" else F.container(conds, fm["conditions"])
    if fm["call"] == "keyword":
        return cls.create(left=left, right=right, conditions=cc, separated=sep)
    return cls.create(left, right, cc, separated=sep)


def _run_canon(case):
    """DSeparationJudgement built directly (possibly non-canonical) and through create()"""
    from y0.struct import DSeparationJudgement

    left, right, conds = G.V(case["left"]), G.V(case["right"]), tuple(G.V(c) for c in case["conds"])
    raw = DSeparationJudgement(case["sep"], left, right, conds)
    fm = _forms(case)
    try:
        made = _create(DSeparationJudgement, fm, left, right, conds, case["sep"])
    except Exception as e:  # noqa: BLE001 - create() is total on Variables
        return {"out": ["err"], "fail": f"DSeparationJudgement.create raised {type(e).__name__}: {str(e)[:100]}",
                "nontrivial": False, "tags": dict({"kind": "canon"}, **F.tags(fm))}
    out = ["ok", ["true" if raw.is_canonical else "false", _judgement(made)]]
    fail = None
    want_raw = case["left"] < case["right"] and list(case["conds"]) == sorted(case["conds"])
    if raw.is_canonical != want_raw:
        fail = f"is_canonical={raw.is_canonical} on ({case['left']},{case['right']}|{case['conds']})"
    elif case["left"] != case["right"] and not made.is_canonical:
        fail = "create() returned a non-canonical judgement"
    elif [G.vint(made.left), G.vint(made.right)] != sorted([case["left"], case["right"]]) or \
            [G.vint(c) for c in made.conditions] != sorted(set(case["conds"])) or made.separated != case["sep"]:
        fail = f"create() does not carry the query: {made}"
    return {"out": out, "fail": fail, "nontrivial": len(case["conds"]) >= 2,
            "tags": dict({"kind": "canon", "raw_canonical": raw.is_canonical}, **F.tags(fm))}


def run_python(case):
    kind = case["kind"]
    if kind == "type":
        return _run_type(case)
    if kind == "canon":
        return _run_canon(case)
    g = case["g"]
    V = G.all_nodes(g)
    if kind == "table":
        cells, fails = _run_table(case)
        fail = None
        if fails:
            a, b, Cs, s, want = fails[0]
            fail = (f"are_d_separated({a},{b}|{Cs}) = {s} but d-separation in the canonical latent DAG is {want} "
                    f"({len(fails)} of {len(cells) - 1} queries of this graph differ)")
        return {"out": ["ok", cells], "fail": fail, "nontrivial": bool(g["bi"]) and len(V) >= 3,
                "tags": dict({"kind": "table", "n_nodes": len(V), "n_bi": min(len(g["bi"]), 6)}, **F.tags(_forms(case)))}
    a, b, Cs = case["a"], case["b"], case["C"]
    fm = _forms(case)
    kw = fm["call"] == "keyword"
    sseed = case.get("shuffle_seed", 0)
    out, j = _call(g, a, b, Cs, fm["conditions"], fm["ctor"], kw, sseed)
    scope = O.in_scope(g, a, b, Cs)
    fail = None
    tags = {"kind": "one", "n_nodes": len(V), "n_bi": min(len(g["bi"]), 6), "csize": len(set(Cs)), "in_scope": scope,
            "outcome": out[0] if out[0] == "err" else out[1][1]}
    tags.update(F.tags(fm))
    nontrivial = False
    if scope:
        want = O.d_separated(g, a, b, Cs)
        nobi = O.d_separated({"nodes": V, "di": g["di"], "bi": []}, a, b, Cs)
        tags["bidirected_matter"] = want != nobi
        tags["truth"] = want
        nontrivial = bool(Cs) or want != nobi
        if out[0] != "ok":
            fail = f"are_d_separated raised {j} on a valid query" if "constructor" not in str(j) else str(j)
        else:
            got = out[1][1] == "true"
            if got != want:
                path = None if want else O.d_connecting_path(g, a, b, Cs)
                fail = (f"verdict separated={got} but d-separation in the canonical latent DAG is {want}"
                        + (f"; d-connecting path {path}" if path else ""))
            elif not j.is_canonical:
                fail = "returned judgement is not canonical"
            elif [out[1][2], out[1][3]] != [str(x) for x in sorted([a, b])] or \
                    out[1][4] != [str(x) for x in sorted(set(Cs))]:
                fail = f"judgement record {out[1]} does not carry the query ({a},{b}|{sorted(set(Cs))}) in canonical order"
        if fail is None:
            out2, _ = _call(g, b, a, Cs, fm["conditions_swapped"], fm["ctor"], not kw, sseed)
            if out2 != out:
                fail = f"not symmetric: (a,b) gives {out}, (b,a) gives {out2}"
        if fail is None:
            g2 = G.shuffled(random.Random(case.get("shuffle_seed", 0)), g)
            Cs2 = list(reversed(Cs))
            out3, _ = _call(g2, a, b, Cs2, fm["conditions_shuffled"], fm["ctor_shuffled"], kw, sseed + 1)
            if out3 != out:
                fail = f"depends on insertion order: {out} vs {out3} on {g2}"
        if fail is None and out[1][1] == "true" and len(V) <= 5 and len(g["bi"]) <= 4:
            rng = random.Random(case.get("shuffle_seed", 0) + 7)
            if not O.ci_holds(g, a, b, sorted(set(Cs)), rng):
                fail = "reported separation is not a conditional independence of a compatible SCM (exact evaluation)"
            tags["ci_checked"] = True
    return {"out": out, "fail": fail, "nontrivial": nontrivial, "tags": tags}


def _run_type(case):
    from y0.algorithm.conditional_independencies import are_d_separated

    graph = G.to_nx_mixed({"nodes": [0, 1, 2], "di": [[0, 1]], "bi": [[1, 2]]})
    args = {"left": ("A00", G.V(1), []), "right": (G.V(0), "A01", []), "conditions": (G.V(0), G.V(1), ["A02"])}[case["which"]]
    try:
        are_d_separated(graph, args[0], args[1], conditions=args[2])
        out = ["ok"]
    except TypeError:
        out = ["err"]
    # documented behaviour: TypeError.  Not part of the property's quantifier; reported as a tag only.
    return {"out": out, "fail": None, "nontrivial": False, "tags": {"kind": "type", "type_error_raised": out == ["err"]}}


# ------------------------------------------------------------------------------------------ model side

def request(case):
    if case["kind"] == "type":
        return None
    if case["kind"] == "canon":
        return C.enc(["sep", "canon", case["sep"], case["left"], case["right"], case["conds"]])
    g = case["g"]
    gs = C.graph_sexp(g["nodes"], g["di"], g["bi"])
    if case["kind"] == "table":
        return C.enc(["sep", "dsep_table", gs])
    return C.enc(["sep", "are_d_separated", gs, case["a"], case["b"], case["C"]])


def canon_model(case, rep):
    if rep[0] == "err":
        return ["err"]
    if case["kind"] == "canon":
        return ["ok", [rep[1], rep[2]]]
    return ["ok", rep[1]]


def shrink(case):
    if case["kind"] == "table":
        _, fails = _run_table(case)
        for a, b, Cs, _, _ in fails[:3]:
            yield {"kind": "one", "g": case["g"], "a": a, "b": b, "C": Cs, "shuffle_seed": 1}
        return
    if case["kind"] != "one":
        return
    for g in G.shrink_graph(case["g"]):
        live = set(G.all_nodes(g))
        if case["a"] in live and case["b"] in live:
            c = dict(case)
            c["g"] = g
            c["C"] = [v for v in case["C"] if v in live]
            yield c
    for k in range(len(case["C"])):
        c = dict(case)
        c["C"] = case["C"][:k] + case["C"][k + 1:]
        yield c


def finding_key(case, res):
    c = {k: case[k] for k in ("kind", "g", "a", "b", "C", "which", "left", "right", "conds", "sep") if k in case}
    if "g" in c:
        c["g"] = {"nodes": sorted(G.all_nodes(c["g"])), "di": sorted(c["g"]["di"]), "bi": sorted(sorted(e) for e in c["g"]["bi"])}
    if "C" in c:
        c["C"] = sorted(set(c["C"]))
    return json.dumps(c, sort_keys=True)


MANIFEST = {
    "text": ("Proof: 33 Lean theorems about the executable model of are_d_separated / DSeparationJudgement (the code after the "
             "fix of defect F2), every clause of the property. For every graph from_edges can build, all distinct a, b and all C "
             "not containing them: the test never raises (dsep_total) and says 'separated' exactly when a, b are not connected in "
             "the augmented ancestral graph minus C (dsep_iff_augmented), which holds exactly when there is no m-connecting path "
             "(augmented_iff_mconn: the Lauritzen/Richardson theorem, proved from first principles in both directions, "
             "including walk-to-path shortening), which holds exactly when a, b are d-separated given C in the canonical DAG "
             "with one fresh latent parent per bidirected edge (mconn_iff_dconn_canonical; dsep_iff_dsep_canonical is the "
             "property's main clause, dagOf_acyclic shows that graph is a DAG). Symmetry in (a, b) (dsep_symm, verdicts and "
             "errors alike), insertion-order independence (dsep_equiv_congr: congruence under NxMixedGraph.__eq__; "
             "dsep_cond_congr: C matters only as a set), the canonical judgement record (judgement_canonical, judgement_fields, "
             "areDSeparated_symm) and the exact error taxonomy (dsep_invalid, dsep_endpoint_conditioned). The final clause is "
             "dsep_sound: on every ADMG a reported separation is a conditional independence P(a,b,C)P(C) = P(a,C)P(b,C) of the "
             "observational distribution of EVERY compatible semi-Markovian model (global Markov property, Lemmas/SepMarkov.lean, "
             "on top of the c-factor lemmas of Lemmas/QFactor.lean). The model is tied to conditional_independencies.py on every "
             "run by differential correspondence (single queries, whole verdict tables, judgement records); an independent "
             "brute-force path oracle on the canonical latent DAG (networkx.is_d_separator as second opinion) and exact-rational "
             "evaluation of random compatible SCMs search for a concrete failing input."),
    "note": ("Trusted: Lean kernel; axioms propext/Classical.choice/Quot.sound; the hand-written model and networkx "
             "(ancestors, has_path) tied to the code by sampling; the definitions of m-connecting path and canonical DAG in "
             "Spec/SepSpec.lean, of the model class in Spec/Scm.lean and of conditional independence in Spec/SepCI.lean. "
             "Models with latents that have parents, or with zero-probability events, are outside the class the last clause "
             "quantifies over."),
    "technique": "Lean 4 theorems (closure = ReflTransGen; walk induction with re-routing; loop cutting; latent-fork surgery; c-factor factorisation and finite-sum algebra for the global Markov property) + differential correspondence with are_d_separated + brute-force d-connecting-path oracle on the canonical latent DAG + exact-rational SCM evaluation",
}
