"""C04 — d-separation verdicts equal true m-separation in the mixed graph.

Correspondence: `are_d_separated` (verdict and every field of the returned DSeparationJudgement, or the error
category) real code vs Lean model `Y0.Model.Sep` (`MG.areDSeparated`), on single queries and on whole verdict
tables (every ordered pair x every conditioning set of a small ADMG).
Oracle (from the property statement): brute-force enumeration of d-connecting simple paths in the canonical DAG
(each bidirected edge replaced by a fresh latent common parent), `networkx.is_d_separator` on the same DAG as a
second opinion; symmetry in (a, b); insertion-order independence (same query on a re-shuffled construction of the
same graph); canonical judgement record; on small graphs a reported separation must be an exact conditional
independence of a random compatible discrete SCM (exact rationals).
"""
from __future__ import annotations

import itertools as itt
import json
import random

from .. import common as C
from .. import forms as F
from .. import gen_graph as G
from ..oracles import sep_paths as O

PROP = "C04"
RULE = ("random ADMGs (2-7 nodes; bidirected chains through conditioned nodes and through ancestors of conditioned "
        "nodes, parallel directed+bidirected pairs, isolated nodes, random insertion order) x ordered pairs of distinct "
        "nodes x conditioning sets (empty, sampled, collider-targeted); STRUCTURED shapes in which one deep feature decides the "
        "verdict (tags shape / collider_depth / anc_depth / c04c_decisive count them): a single route whose colliders are opened "
        "only by a conditioned descendant 0-5 directed steps below, long forks (common ancestor 1-4 steps above each endpoint), "
        "bidirected chains of 3-5 inner colliders (all / all but one / some conditioned, directly or through descendants), fully "
        "conditioned districts of 2-4 nodes marrying private parents of different members (seeded/C04c, C03c), sparse 7-10 node "
        "ADMGs with up to 8 conditions, disconnected graphs; name tables other than A%02d for a share of the cases (tag names: "
        "mixed lengths / case, and counterfactual-variable nodes in two worlds of one base name); whole verdict tables (all pairs x all conditioning "
        "sets) for ADMGs on <=4 nodes and structured 5-6 node graphs (quick: sampled, thorough: every ADMG on <=3 nodes, sampled 4-5 node ones); a "
        "malformed stream (endpoint or condition not in the graph, endpoint inside the conditioning set, a == b, cyclic "
        "graphs, non-Variable arguments). A case is non-trivial when it is in the property's scope and either the "
        "conditioning set is non-empty or the true verdict changes when every bidirected edge is deleted.")
ASSUMPTIONS = [
    "node NAMES: the model works on integers; the real code is driven through three ORDER-PRESERVING name tables (integer order = order of str(node), which is what DSeparationJudgement.create sorts by): A00.., gen_graph.MIXED_NAMES (B, Ba, C1, C10, C2, .., X1, X10, X2, .., a, aB, ..) and counterfactual-variable nodes (A00, A00 @ +A09, A00 @ -A09, ..). That the verdict and the record do not depend on the kind of node is a runtime clause decided by correspondence + oracle (it found the is_canonical defect fixed by bc09ee6)",
    "argument FORMS (harness/forms.py), chosen deterministically per case, written into the case (`forms`) and tagged form_*: the conditioning set is handed to are_d_separated / DSeparationJudgement.create in every iterable form the signature allows (list, tuple, set, frozenset, dict keys, generator, iterator, map; an empty set also as None or omitted), with different forms for the query, the swapped query and the query on the re-shuffled graph; graph / a / b positional or by keyword; the graph built through every public constructor of NxMixedGraph (from_edges with lists / tuples / generators / iterators / sets, from_str_edges, from_adj, from_str_adj, from_latent_variable_dag, incremental add_* calls). The model takes a list, so independence of the form is a runtime clause decided by correspondence + oracle (seeded/C04b)",
    "the 'compatible models' of the last clause are the semi-Markovian models of lean/Y0/Spec/Scm.lean (Scm.Compatible: discrete "
    "variables of any cardinality, positive rational parameters, independent root latents of any arity, two observed variables "
    "share a latent only across a bidirected edge); latents with parents and non-positive distributions are outside the class",
    "the graph-theoretic theorems need no acyclicity ('verdict <-> no m-connecting path <-> no d-connecting path in dagOf G' holds "
    "for every directed mixed graph); acyclicity is used for dagOf G being a DAG (dagOf_acyclic) and for dsep_sound",
    "Python set iteration order inside are_d_separated is assumed irrelevant (the model uses lists); checked by re-running "
    "each query on a re-shuffled construction of the graph",
    "the TypeError branches (non-Variable arguments) have no model counterpart (the model is typed); they are exercised on the "
    "Python side only",
]
EXHAUSTIVE = {"quick": False, "thorough": True}
LEANCHECK_MODULES = ["Y0.Model.Sep", "Y0.Lemmas.SepMarkov", "Y0.Props.C04"]

CORPUS = [
    # F2 witness (DESIGN section 1): B->A, B<->A, C<->A ; B vs C given A   (A=0, B=1, C=2)
    {"kind": "one", "g": {"nodes": [], "di": [[1, 0]], "bi": [[1, 0], [2, 0]]}, "a": 1, "b": 2, "C": [0], "shuffle_seed": 1},
    # minimal bidirected collider: B<->A<->C given A
    {"kind": "one", "g": {"nodes": [], "di": [], "bi": [[1, 0], [2, 0]]}, "a": 1, "b": 2, "C": [0], "shuffle_seed": 2},
    # collider with a conditioned descendant: B<->A<->C, A->D given D
    {"kind": "one", "g": {"nodes": [], "di": [[0, 3]], "bi": [[1, 0], [2, 0]]}, "a": 1, "b": 2, "C": [3], "shuffle_seed": 3},
    # mixed collider B->A<->C given A
    {"kind": "one", "g": {"nodes": [], "di": [[1, 0]], "bi": [[2, 0]]}, "a": 1, "b": 2, "C": [0], "shuffle_seed": 4},
    # long bidirected chain 1<->0<->3<->2 given {0,3}
    {"kind": "one", "g": {"nodes": [], "di": [], "bi": [[1, 0], [0, 3], [3, 2]]}, "a": 1, "b": 2, "C": [0, 3], "shuffle_seed": 5},
    # the same chain, only one collider conditioned: separated
    {"kind": "one", "g": {"nodes": [], "di": [], "bi": [[1, 0], [0, 3], [3, 2]]}, "a": 1, "b": 2, "C": [0], "shuffle_seed": 6},
    # textbook DAG collider / chain / fork
    {"kind": "one", "g": {"nodes": [], "di": [[0, 2], [1, 2]], "bi": []}, "a": 0, "b": 1, "C": [2], "shuffle_seed": 7},
    {"kind": "one", "g": {"nodes": [], "di": [[0, 1], [1, 2]], "bi": []}, "a": 0, "b": 2, "C": [1], "shuffle_seed": 8},
    {"kind": "one", "g": {"nodes": [], "di": [[1, 0], [1, 2]], "bi": []}, "a": 0, "b": 2, "C": [], "shuffle_seed": 9},
    # napkin graph: W->R->X->Y, W<->X, W<->Y
    {"kind": "one", "g": {"nodes": [], "di": [[0, 1], [1, 2], [2, 3]], "bi": [[0, 2], [0, 3]]}, "a": 1, "b": 3, "C": [2], "shuffle_seed": 10},
    {"kind": "table", "g": {"nodes": [], "di": [[0, 1], [1, 2], [2, 3]], "bi": [[0, 2], [0, 3]]}},
    # error branches
    {"kind": "one", "g": {"nodes": [0, 1], "di": [], "bi": []}, "a": 0, "b": 5, "C": [], "shuffle_seed": 11},
    {"kind": "one", "g": {"nodes": [0, 1], "di": [], "bi": []}, "a": 0, "b": 1, "C": [7], "shuffle_seed": 12},
    {"kind": "one", "g": {"nodes": [0, 1, 2], "di": [[0, 1]], "bi": []}, "a": 0, "b": 1, "C": [0], "shuffle_seed": 13},
    {"kind": "one", "g": {"nodes": [0, 1, 2], "di": [[0, 1]], "bi": []}, "a": 0, "b": 0, "C": [], "shuffle_seed": 14},
    {"kind": "type", "which": "left"}, {"kind": "type", "which": "right"}, {"kind": "type", "which": "conditions"},
    {"kind": "canon", "left": 2, "right": 1, "conds": [3, 0, 3], "sep": True},
    {"kind": "canon", "left": 1, "right": 2, "conds": [0, 3, 3], "sep": False},
    {"kind": "canon", "left": 1, "right": 1, "conds": [], "sep": True},
]


# ------------------------------------------------------------------------------------------ generators

def rand_admg(rng: random.Random, nmin=2, nmax=7):
    """ADMG biased towards bidirected structure: random density, plus (often) an explicit bidirected chain"""
    n = rng.randint(nmin, nmax)
    perm = list(range(n))
    rng.shuffle(perm)
    pd = rng.choice([0.1, 0.25, 0.4, 0.6])
    pb = rng.choice([0.0, 0.15, 0.3, 0.5])
    di, bi = [], []
    for i in range(n):
        for j in range(i + 1, n):
            if rng.random() < pd:
                di.append([perm[i], perm[j]])
            if rng.random() < pb:
                bi.append([perm[i], perm[j]] if rng.random() < 0.5 else [perm[j], perm[i]])
    if n >= 3 and rng.random() < 0.5:
        k = rng.randint(3, min(n, 5))
        chain = rng.sample(range(n), k)
        for u, v in zip(chain, chain[1:]):
            if [u, v] not in bi and [v, u] not in bi:
                bi.append([u, v])
    rng.shuffle(di)
    rng.shuffle(bi)
    nodes = list(range(n))
    rng.shuffle(nodes)
    if rng.random() < 0.3:
        touched = {x for e in di + bi for x in e}
        nodes = [v for v in nodes if v not in touched or rng.random() < 0.5]
    return {"nodes": nodes, "di": di, "bi": bi}


def _desc(g, v):
    seen, todo = {v}, [v]
    while todo:
        x = todo.pop()
        for u, w in g["di"]:
            if u == x and w not in seen:
                seen.add(w)
                todo.append(w)
    return seen


def rand_query(rng, g):
    V = G.all_nodes(g)
    a, b = rng.sample(V, 2)
    rest = [v for v in V if v not in (a, b)]
    mode = rng.random()
    if mode < 0.15:
        Cs = []
    elif mode < 0.55:
        Cs = [v for v in rest if rng.random() < rng.choice([0.2, 0.5, 0.8])]
    else:
        # collider-targeted: endpoints of bidirected edges / common children, or one of their descendants
        heads = [x for e in g["bi"] for x in e] + [v for v in V if sum(1 for e in g["di"] if e[1] == v) >= 2]
        heads = [h for h in heads if h in rest]
        Cs = []
        for h in heads:
            if rng.random() < 0.5:
                d = [x for x in _desc(g, h) if x in rest]
                Cs.append(rng.choice(d) if d and rng.random() < 0.5 else h)
        Cs = sorted(set(Cs))
        if rng.random() < 0.3:
            Cs += [v for v in rest if v not in Cs and rng.random() < 0.3]
    rng.shuffle(Cs)
    if rng.random() < 0.1 and Cs:
        Cs.append(Cs[0])           # a duplicate: the argument is an iterable, the code makes it a set
    return a, b, Cs



# ------------------------------------------------------------------------------------------ structured shapes
# (sepG, gap review round 5: G04-1..4, G15-2/3, G20-4)  Random ADMGs with edge probability >= 0.1 almost always have a second
# open path, so no verdict of the random stream ever depended on anything deeper than a parent.  Each template below makes ONE
# deep feature decisive: the graph is a tree-like skeleton around a single connecting route, labels are a random permutation
# (so no label order is correlated with the role of a node), edge lists are shuffled.  Every template returns
# (g, a, b, Cs, shape); `structured_query` draws one.  The same templates feed C15 (graphs only) and C20 (acyclic side).

class _B:
    """tiny graph builder with fresh node numbers"""

    def __init__(self):
        self.n = 0
        self.di, self.bi, self.iso = [], [], []

    def new(self):
        self.n += 1
        return self.n - 1

    def chain_below(self, v, d):
        """v -> c1 -> ... -> cd ; returns [c1..cd]"""
        out = []
        for _ in range(d):
            c = self.new()
            self.di.append([v, c])
            v = c
            out.append(c)
        return out

    def finish(self, rng, a, b, Cs, shape, extra_labels=0):
        lab = list(range(self.n + extra_labels))
        rng.shuffle(lab)
        m = lambda v: lab[v]  # noqa: E731
        di = [[m(u), m(v)] for u, v in self.di]
        bi = [[m(u), m(v)] if rng.random() < 0.5 else [m(v), m(u)] for u, v in self.bi]
        rng.shuffle(di)
        rng.shuffle(bi)
        touched = {x for e in di + bi for x in e}
        nodes = [m(v) for v in range(self.n) if m(v) not in touched or rng.random() < 0.3]
        rng.shuffle(nodes)
        Cs = [m(c) for c in Cs]
        rng.shuffle(Cs)
        if rng.random() < 0.5:
            a, b = b, a
        return {"nodes": nodes, "di": di, "bi": bi}, m(a), m(b), Cs, shape


def _noise(rng, B, protect, k=None):
    """0-2 nodes that cannot open or close anything: an isolated node, a leaf child, or a root parent of a single node"""
    for _ in range(rng.choice([0, 0, 1, 1, 2]) if k is None else k):
        x = B.new()
        r = rng.random()
        if r < 0.35 or B.n <= 1:
            continue                                         # isolated (listed by finish)
        v = rng.randrange(B.n - 1)
        if r < 0.7:
            B.di.append([v, x])                              # a leaf below v (unconditioned: opens nothing)
        else:
            B.di.append([x, v])                              # a root above v with this single child


def shape_deep_path(rng, dmax=5, budget=10):
    """ONE route a ... b of 2-4 edges (->, <- or <->) with at least one collider; every collider is opened by its nearest
    conditioned descendant at distance 0..dmax (mostly >= 2) down a private directed chain.  Variants: one collider left
    closed (separated), a non-collider conditioned (separated), the conditioned node one step too high is NOT a variant - the
    whole chain below a collider is unconditioned except its last node, so the depth of the chain is what decides."""
    B = _B()
    k = rng.choice([2, 2, 2, 3, 3, 4])
    p = [B.new() for _ in range(k + 1)]
    kinds = [rng.choice(["fwd", "back", "bi"]) for _ in range(k)]
    i = rng.randrange(k - 1)
    kinds[i] = rng.choice(["fwd", "bi"])
    kinds[i + 1] = rng.choice(["back", "bi"])
    head = [set() for _ in range(k + 1)]
    for j, kind in enumerate(kinds):
        u, w = p[j], p[j + 1]
        if kind == "fwd":
            B.di.append([u, w]); head[j + 1].add(j)
        elif kind == "back":
            B.di.append([w, u]); head[j].add(j)
        else:
            B.bi.append([u, w]); head[j].add(j); head[j + 1].add(j)
    colliders = [j for j in range(1, k) if len(head[j]) == 2]
    Cs, depths = [], []
    for j in colliders:
        d = min(rng.choice([0, 1, 2, 2, 3, 3, 4, 4, 5]), dmax, max(0, budget - B.n - 2 * (len(colliders) - len(depths) - 1)))
        ch = B.chain_below(p[j], d)
        Cs.append(ch[-1] if ch else p[j])
        depths.append(d)
        if ch and rng.random() < 0.25:                        # an unconditioned side branch off the chain
            x = B.new()
            B.di.append([rng.choice([p[j]] + ch[:-1]), x])
    r = rng.random()
    variant = "open"
    if r < 0.15:
        Cs.pop(rng.randrange(len(Cs)))
        variant = "collider_closed"
    elif r < 0.25:
        non = [j for j in range(1, k) if j not in colliders]
        if non:
            Cs.append(p[rng.choice(non)])
            variant = "noncollider_conditioned"
    _noise(rng, B, p)
    return B.finish(rng, p[0], p[-1], Cs, f"deep_path:{variant}")


def shape_long_fork(rng):
    """a <- p1 <- ... <- r -> ... -> q1 -> b (1-4 steps on each side, >= 3 in all; the top optionally a bidirected edge):
    the only connection is a common ancestor several steps above both endpoints"""
    B = _B()
    dl, dr = rng.randint(1, 4), rng.randint(1, 4)
    while dl + dr < 3:
        dl, dr = rng.randint(1, 4), rng.randint(1, 4)
    a, b = B.new(), B.new()
    if rng.random() < 0.3:                                    # top is l <-> r, both sides are directed chains down
        l, r_ = B.new(), B.new()
        B.bi.append([l, r_])
        left = [l] + B.chain_below(l, dl - 1)
        right = [r_] + B.chain_below(r_, dr - 1)
    else:
        root = B.new()
        left = B.chain_below(root, dl - 1)
        right = B.chain_below(root, dr - 1)
        left, right = [root] + left, [root] + right
    B.di.append([left[-1], a])
    B.di.append([right[-1], b])
    inner = sorted(set(left + right))
    r = rng.random()
    Cs, variant = [], "open"
    if r < 0.25:
        Cs, variant = [rng.choice(inner)], "inner_conditioned"
    elif r < 0.45:
        x = B.new()                                           # a conditioned CHILD of an inner node: still open
        B.di.append([rng.choice(inner), x])
        Cs, variant = [x], "child_conditioned"
    _noise(rng, B, inner)
    return B.finish(rng, a, b, Cs, f"long_fork:{variant}")


def shape_bidirected_chain(rng):
    """a ?-> c1 <-> c2 <-> ... <-> ck <-? b with k = 3..5 inner colliders (end edges directed or bidirected); all of them
    conditioned (directly or through a descendant at distance 1-3): connected; one left out / a random subset: separated"""
    B = _B()
    k = rng.choice([3, 3, 4, 4, 5])
    a, b = B.new(), B.new()
    c = [B.new() for _ in range(k)]
    for u, v in zip(c, c[1:]):
        B.bi.append([u, v])
    for end, first in ((a, c[0]), (b, c[-1])):
        (B.bi if rng.random() < 0.5 else B.di).append([end, first])
    r = rng.random()
    variant = "all"
    chosen = list(c)
    if r < 0.2:
        chosen.remove(rng.choice(chosen)); variant = "one_missing"
    elif r < 0.35:
        chosen = [x for x in c if rng.random() < 0.6]; variant = "some"
    Cs = []
    for x in chosen:
        d = rng.choice([0, 0, 0, 1, 2, 3]) if B.n < 10 else 0
        ch = B.chain_below(x, d)
        Cs.append(ch[-1] if ch else x)
    _noise(rng, B, c, k=rng.choice([0, 0, 1]))
    return B.finish(rng, a, b, Cs, f"bidirected_chain:{variant}")


def shape_married_parents(rng):
    """the seeded C04c / C03c shape: a district of k = 2..4 nodes (bidirected chain or star), EVERY member conditioned, each
    member with its own private parent (sometimes a grandparent above it); a and b sit above DIFFERENT members and nothing else
    connects them: a -> m1 <-> ... <-> mk <- b given {m1..mk} is connected.  Variants: one member unconditioned (separated when
    it lies between the two), a conditioned member replaced by its conditioned child"""
    B = _B()
    k = rng.choice([2, 2, 2, 3, 3, 4])
    mem = [B.new() for _ in range(k)]
    star = k >= 3 and rng.random() < 0.3
    for j in range(1, k):
        B.bi.append([mem[0] if star else mem[j - 1], mem[j]])
    tops = []
    for x in mem:
        pa = B.new()
        B.di.append([pa, x])
        if rng.random() < 0.3:
            gp = B.new()
            B.di.append([gp, pa])
            pa = gp
        tops.append(pa)
    i, j = rng.sample(range(k), 2)
    if rng.random() < 0.6:
        i, j = (1 if star else 0), k - 1                    # the two ends: every member lies on the route
    a, b = tops[i], tops[j]
    Cs = list(mem)
    variant = "all"
    r = rng.random()
    if r < 0.15:
        Cs.remove(rng.choice(Cs)); variant = "one_missing"
    elif r < 0.3:
        x = rng.choice(Cs)
        Cs.remove(x)
        Cs.append(B.chain_below(x, rng.choice([1, 2]))[-1]); variant = "via_child"
    if rng.random() < 0.3:                                    # a second private parent of a member, unconditioned
        x = B.new()
        B.di.append([x, rng.choice(mem)])
    _noise(rng, B, mem, k=rng.choice([0, 0, 1]))
    return B.finish(rng, a, b, Cs, f"married_parents:{variant}")


def shape_sparse_big(rng):
    """sparse ADMG on 7-10 nodes (edge probabilities <= 0.25), query by `rand_query` (|C| up to 8)"""
    n = rng.randint(7, 10)
    perm = list(range(n))
    rng.shuffle(perm)
    pd, pb = rng.choice([0.1, 0.18, 0.25]), rng.choice([0.0, 0.08, 0.15])
    di, bi = [], []
    for i in range(n):
        for j in range(i + 1, n):
            if rng.random() < pd:
                di.append([perm[i], perm[j]])
            if rng.random() < pb:
                bi.append([perm[i], perm[j]] if rng.random() < 0.5 else [perm[j], perm[i]])
    nodes = list(range(n))
    rng.shuffle(nodes)
    g = {"nodes": nodes, "di": di, "bi": bi}
    a, b, Cs = rand_query(rng, g)
    if rng.random() < 0.15:
        Cs = [v for v in nodes if v not in (a, b) and rng.random() < 0.85]
    return g, a, b, Cs, "sparse_big"


def shape_disconnected(rng):
    """two or three components without any edge between them (the seeded C15d shape): endpoints in different components are
    separated by every set, endpoints in one component see only that component"""
    comps = rng.choice([2, 2, 3])
    nodes, di, bi, parts = [], [], [], []
    off = 0
    for _ in range(comps):
        r = rng.random()
        if r < 0.25:
            h = {"nodes": [0], "di": [], "bi": []}
        elif r < 0.4:
            h = {"nodes": [], "di": [], "bi": [[0, 1]] + ([[1, 2]] if rng.random() < 0.5 else [])}
        else:
            h = rand_admg(rng, 2, 4)
        V = G.all_nodes(h)
        k = max(V) + 1 if V else 0
        parts.append([v + off for v in V])
        nodes += [v + off for v in h["nodes"]]
        di += [[u + off, v + off] for u, v in h["di"]]
        bi += [[u + off, v + off] for u, v in h["bi"]]
        off += k
    lab = list(range(off))
    rng.shuffle(lab)
    g = {"nodes": [lab[v] for v in nodes], "di": [[lab[u], lab[v]] for u, v in di], "bi": [[lab[u], lab[v]] for u, v in bi]}
    rng.shuffle(g["nodes"]), rng.shuffle(g["di"]), rng.shuffle(g["bi"])
    parts = [[lab[v] for v in p] for p in parts if p]
    V = G.all_nodes(g)
    if len(parts) >= 2 and rng.random() < 0.7:
        pa, pb_ = rng.sample(parts, 2)
        a, b = rng.choice(pa), rng.choice(pb_)
    else:
        a, b = rng.sample(V, 2)
    Cs = [v for v in V if v not in (a, b) and rng.random() < rng.choice([0.0, 0.3, 0.7])]
    return g, a, b, Cs, "disconnected"


SHAPES = ((shape_deep_path, 30), (shape_long_fork, 12), (shape_bidirected_chain, 14), (shape_married_parents, 16),
          (shape_sparse_big, 14), (shape_disconnected, 8))


def structured_query(rng, only=None):
    fs = [(f, w) for f, w in SHAPES if only is None or f.__name__[6:] in only]
    f = rng.choices([f for f, _ in fs], weights=[w for _, w in fs])[0]
    g, a, b, Cs, shape = f(rng)
    if rng.random() < 0.08 and Cs:
        Cs = Cs + [Cs[0]]
    return g, a, b, Cs, shape


# ---- measurements for the generator_distribution tags (never part of a verdict) ----

def _dsep_depth(g, a, b, C, depth):
    """the path oracle with ONE change: a collider is open only if a descendant within `depth` directed steps is conditioned.
    Equal to the truth for depth >= |V|; the smallest depth at which it reaches the truth is how deep the verdict looks."""
    nodes, pa, ch = O.canonical_dag(g)
    Cs = set(C)

    def near(v):
        seen, layer = {v}, {v}
        for _ in range(depth):
            layer = {w for x in layer for w in ch[x]} - seen
            seen |= layer
        return bool(seen & Cs)
    ok = {v: near(v) for v in nodes}
    nb = {v: [(w, True) for w in ch[v]] + [(w, False) for w in pa[v]] for v in nodes}   # (w, arrowhead at w)

    def dfs(path, arrived_head):
        cur = path[-1]
        for w, head_w in nb[cur]:
            if w in path:
                continue
            leaves_head = not head_w          # edge cur <- w has its head at cur
            if len(path) > 1:
                if arrived_head and leaves_head:
                    if not ok[cur]:
                        continue
                elif cur in Cs:
                    continue
            if w == b or dfs(path + [w], head_w):
                return True
        return False
    return not dfs([a], False)


def _msep_truncated(g, a, b, C, k, skip_full=False):
    """m-separation by the ancestral-moral-graph criterion with the ancestral set TRUNCATED at k parent steps (the emulated
    mutant of the gap review): equals the truth when k >= the depth of the ancestral closure"""
    V = G.all_nodes(g)
    pa = {v: set() for v in V}
    for u, v in g["di"]:
        pa[v].add(u)
    keep = {a, b} | set(C)
    layer = set(keep)
    for _ in range(k):
        layer = {p for x in layer for p in pa[x]} - keep
        keep |= layer
    adj = {v: set() for v in keep}

    def link(u, v):
        if u != v:
            adj[u].add(v); adj[v].add(u)
    for u, v in g["di"]:
        if u in keep and v in keep:
            link(u, v)
    bi = [(u, v) for u, v in g["bi"] if u in keep and v in keep]
    comp = {v: v for v in keep}

    def find(v):
        while comp[v] != v:
            v = comp[v]
        return v
    for u, v in bi:
        comp[find(u)] = find(v)
    dist = {}
    for v in keep:
        dist.setdefault(find(v), set()).add(v)
    for d in dist.values():
        if skip_full and d <= set(C):
            continue                      # the emulated seeded/C04c change
        cl = set(d) | {p for x in d for p in pa[x] if p in keep}
        for u in cl:
            for v in cl:
                link(u, v)
    Cs = set(C)
    seen, todo = {a}, [a]
    while todo:
        x = todo.pop()
        for w in adj[x]:
            if w not in seen and w not in Cs:
                seen.add(w); todo.append(w)
    return b not in seen


def depth_tags(g, a, b, Cs, want):
    """{collider_depth: how many directed steps below a collider the verdict looks, anc_depth: how many parent steps of the
    ancestral closure it needs, c04c_decisive: skipping the cliques of fully conditioned districts changes it}"""
    t = {}
    n = len(G.all_nodes(g))
    if not want:
        d = 0
        while d < n and _dsep_depth(g, a, b, Cs, d) != want:
            d += 1
        t["collider_depth"] = min(d, 5)
    k = 0
    for j in range(n, -1, -1):
        if _msep_truncated(g, a, b, Cs, j) != want:
            k = j + 1
            break
    t["anc_depth"] = min(k, 5)
    t["c04c_decisive"] = _msep_truncated(g, a, b, Cs, n, skip_full=True) != want
    return t


# ---- name tables: the model works in integer space, the real code sees Variables named through an ORDER-PRESERVING table ----
# plain: A00..A99 (gen_graph.vname); mixed: gen_graph.MIXED_NAMES (lengths 1-4, both cases, X1 < X10 < X2);
# cf: counterfactual-variable NODES as in the graphs ID* / IDC* hand to are_d_separated (idc_star.py:202): each of five base
# names plain and in the two worlds @+A09 / @-A09, numbered by the string order that DSeparationJudgement.create sorts with

def _cf_pool():
    from y0.dsl import Variable

    w = Variable("A09")
    pool = []
    for i in range(5):
        v = Variable(G.vname(i))
        pool += [v, v @ +w, v @ -w]
    return sorted(pool, key=str)


_TABLES = {}


def name_table(names):
    """(int -> Variable, Variable -> int, capacity)"""
    if names not in _TABLES:
        if names == "cf":
            pool = _cf_pool()
            _TABLES[names] = (pool.__getitem__, pool.index, len(pool))
        elif names == "mixed":
            from y0.dsl import Variable

            _TABLES[names] = (lambda i: Variable(G.vname_mixed(i)), lambda v: G.mixed_to_int(v.name), len(G.MIXED_NAMES))
        else:
            _TABLES[names] = (G.V, G.vint, 100)
    return _TABLES[names]


_CUR = {"names": None}


def _V(i):
    try:
        return name_table(_CUR["names"])[0](i)
    except IndexError:
        return G.V(i)           # a foreign node of the malformed stream (90, 91, 92)


def _vint(v):
    try:
        return name_table(_CUR["names"])[1](v)
    except ValueError:
        return G.vint(v)


def with_names(rng, case, p_mixed=0.04, p_cf=0.04):
    """hand a share of the cases to the other name tables (where the labels fit the table)"""
    top = max(G.all_nodes(case["g"]) + [0])
    r = rng.random()
    if r < p_mixed and top < len(G.MIXED_NAMES):
        case["names"] = "mixed"
    elif r < p_mixed + p_cf and top < 15:
        case["names"] = "cf"
    return case


def build_graph(g, ctor, seed, names=None):
    """(graph, constructor fault or None) under the name table `names`"""
    if names == "cf":
        from y0.graph import NxMixedGraph

        tv = name_table("cf")[0]
        graph = NxMixedGraph.from_edges(nodes=[tv(i) for i in g["nodes"]], directed=[(tv(u), tv(v)) for u, v in g["di"]],
                                        undirected=[(tv(u), tv(v)) for u, v in g["bi"]])
        want = {tv(i) for i in G.all_nodes(g)}
        if set(graph.nodes()) != want or set(graph.directed.nodes()) != want or set(graph.undirected.nodes()) != want:
            return graph, f"from_edges built the nodes {sorted(map(str, graph.nodes()))} instead of {sorted(map(str, want))}"
        if {(u, v) for u, v in graph.directed.edges()} != {(tv(u), tv(v)) for u, v in g["di"]} or \
                {frozenset(e) for e in graph.undirected.edges()} != {frozenset((tv(u), tv(v))) for u, v in g["bi"]}:
            return graph, "from_edges built other edges than it was given (counterfactual-variable nodes)"
        return graph, None
    name = G.vname_mixed if names == "mixed" else G.vname
    graph = F.build_graph(g, ctor, seed=seed, name=name)
    return graph, F.constructor_fault(g, graph, ctor, name=name)


COND_FORMS = F.CONTAINERS                    # conditions: Iterable[Variable] | None
EMPTY_FORMS = F.CONTAINERS + ("none", "omitted", "none", "omitted")


def _slots(case):
    kind = case["kind"]
    if kind == "one":
        e = EMPTY_FORMS if not case["C"] else COND_FORMS
        return {"conditions": e, "conditions_swapped": e, "conditions_shuffled": e, "ctor": F.CTORS,
                "ctor_shuffled": F.CTORS, "call": ("positional", "keyword")}
    if kind == "table":
        return {"ctor": F.CTORS}
    if kind == "canon":
        return {"conditions": EMPTY_FORMS if not case["conds"] else COND_FORMS, "call": ("positional", "keyword")}
    return {}


def _forms(case):
    return F.forms_of(case, _slots(case))


def cases(rng: random.Random, tier: str):
    return [F.assign(c, _slots(c)) for c in _cases(rng, tier)]


def _cases(rng: random.Random, tier: str):
    out = [dict(c) for c in CORPUS] + C_load_corpus()
    n_one = 7400 if tier == "quick" else 52000
    for _ in range(n_one):
        g = rand_admg(rng)
        a, b, Cs = rand_query(rng, g)
        out.append(with_names(rng, {"kind": "one", "g": g, "a": a, "b": b, "C": Cs, "shuffle_seed": rng.randrange(1 << 30)}))
    # structured shapes: ONE deep feature decides the verdict (deep collider descendants, long forks, long bidirected chains,
    # fully conditioned districts marrying parents of different members, sparse 7-10 node graphs, disconnected graphs)
    for _ in range(1900 if tier == "quick" else 14000):
        g, a, b, Cs, shape = structured_query(rng)
        out.append(with_names(rng, {"kind": "one", "g": g, "a": a, "b": b, "C": Cs, "shuffle_seed": rng.randrange(1 << 30),
                                    "shape": shape}, 0.06, 0.06))
    # malformed / out-of-scope stream
    for _ in range(400 if tier == "quick" else 3000):
        g = G.rand_graph(rng, 1, 6, acyclic=rng.random() < 0.4)
        V = G.all_nodes(g)
        if not V:
            continue
        r = rng.random()
        a = rng.choice(V)
        b = rng.choice(V)
        Cs = G.rand_subset(rng, V, p=rng.choice([0.0, 0.3, 0.6]))
        if r < 0.25:
            a = 90
        elif r < 0.4:
            b = 91
        elif r < 0.6:
            Cs = Cs + [92]
        out.append({"kind": "one", "g": g, "a": a, "b": b, "C": Cs, "shuffle_seed": rng.randrange(1 << 30)})
    # DSeparationJudgement.create / is_canonical on arbitrary (also non-canonical) records
    for _ in range(300 if tier == "quick" else 2000):
        n = rng.randint(0, 5)
        conds = [rng.randrange(8) for _ in range(n)]
        if rng.random() < 0.5:
            conds = sorted(conds) if rng.random() < 0.7 else sorted(set(conds))
        out.append({"kind": "canon", "left": rng.randrange(8), "right": rng.randrange(8), "conds": conds,
                    "sep": rng.random() < 0.5})
        r = rng.random()
        if r < 0.3:
            out[-1]["names"] = "mixed" if r < 0.15 else "cf"
    # verdict tables
    for _ in range(170 if tier == "quick" else 1500):
        out.append(with_names(rng, {"kind": "table", "g": rand_admg(rng, 2, 4 if tier == "quick" else 5)}, 0.05, 0.05))
    # whole tables of structured graphs on 5-6 nodes (quick) / 5-7 nodes (thorough): every pair x every set sees the deep shape
    k = 0
    while k < (24 if tier == "quick" else 150):
        g, _, _, _, shape = structured_query(rng, only=("deep_path", "long_fork", "bidirected_chain", "married_parents"))
        if 5 <= len(G.all_nodes(g)) <= 6:
            out.append({"kind": "table", "g": g, "shape": shape.split(":")[0]})
            k += 1
    if tier == "thorough":
        for k in (2, 3):
            for g in G.enumerate_graphs(k, cyclic=False):
                out.append({"kind": "table", "g": g})
        # every ADMG on 4 nodes in the natural orientation is 4096 graphs x 48 queries: sample a quarter of them
        for g in G.enumerate_graphs(4, cyclic=False):
            if rng.random() < 0.25:
                out.append({"kind": "table", "g": g})
    return out


def C_load_corpus():
    import os
    d = C.VERIF / "corpus" / PROP
    out = []
    if d.is_dir():
        for f in sorted(os.listdir(d)):
            if f.endswith(".json"):
                c = json.loads((d / f).read_text())
                out.append(c.get("case", c))
    return out


# ------------------------------------------------------------------------------------------ real code

def _judgement(j):
    return ["j", "true" if j.separated else "false", str(_vint(j.left)), str(_vint(j.right)),
            [str(_vint(c)) for c in j.conditions]]


def _is_canonical(j):
    """j.is_canonical, False when the property itself raises (it compares Variables of different classes with `<`)"""
    try:
        return bool(j.is_canonical)
    except Exception:  # noqa: BLE001
        return False


def _cell_form(a, b, Cs):
    """verdict tables: one query per cell, the form of the conditioning set a deterministic function of the cell"""
    opts = COND_FORMS if Cs else EMPTY_FORMS
    return opts[(3 * a + 5 * b + 7 * len(Cs) + sum(Cs)) % len(opts)]


def _ads(graph, a, b, Cs, form, kw=False):
    """are_d_separated with the conditioning set in the given form"""
    from y0.algorithm.conditional_independencies import are_d_separated

    if form == "omitted":
        return are_d_separated(graph=graph, a=_V(a), b=_V(b)) if kw else are_d_separated(graph, _V(a), _V(b))
    conds = None if form == "none" else F.container([_V(c) for c in Cs], form)
    if kw:
        return are_d_separated(graph=graph, a=_V(a), b=_V(b), conditions=conds)
    return are_d_separated(graph, _V(a), _V(b), conditions=conds)


def _call(g, a, b, Cs, form="list", ctor="from_edges", kw=False, seed=0):
    import networkx as nx

    try:
        graph, fault = build_graph(g, ctor, seed, _CUR["names"])
    except Exception as e:  # noqa: BLE001 - every graph dict is a legal input of every constructor
        return ["err"], f"constructor {ctor} raised {type(e).__name__}"
    if fault:
        return ["err"], fault
    try:
        j = _ads(graph, a, b, Cs, form, kw)
        return ["ok", _judgement(j)], j
    except Exception as e:  # noqa: BLE001 - whatever the class: an error outcome of the real code, never a harness error
        return ["err"], type(e).__name__


def table_order(V):
    V = sorted(V)
    for a in V:
        for b in V:
            if a == b:
                continue
            rest = [v for v in V if v not in (a, b)]
            for r in range(len(rest) + 1):
                for Cs in itt.combinations(rest, r):
                    yield a, b, list(Cs)


def _run_table(case):
    g = case["g"]
    ctor = _forms(case)["ctor"]
    graph, fault = build_graph(g, ctor, len(g["di"]) + 7 * len(g["bi"]), _CUR["names"])
    V = G.all_nodes(g)
    cells = []
    fails = []
    scope = O.is_acyclic(g)
    if fault:
        return "#constructor-fault", [(V[0], V[-1], [], fault, None)] if scope and V else []
    for a, b, Cs in table_order(V):
        try:
            s = bool(_ads(graph, a, b, Cs, _cell_form(a, b, Cs), kw=(a + b) % 2 == 1))
            cells.append("t" if s else "f")
        except Exception:
            cells.append("e")
            s = None
        if scope:
            want = O.d_separated(g, a, b, Cs)
            if s is not want:
                fails.append((a, b, Cs, s, want))
    return "#" + "".join(cells), fails


def _create(cls, fm, left, right, conds, sep):
    if fm["conditions"] == "omitted":
        return cls.create(left=left, right=right, separated=sep) if fm["call"] == "keyword" else cls.create(left, right, separated=sep)
    cc = None if fm["conditions"] == "none" else F.container(conds, fm["conditions"])
    if fm["call"] == "keyword":
        return cls.create(left=left, right=right, conditions=cc, separated=sep)
    return cls.create(left, right, cc, separated=sep)


def _run_canon(case):
    """DSeparationJudgement built directly (possibly non-canonical) and through create()"""
    from y0.struct import DSeparationJudgement

    left, right, conds = _V(case["left"]), _V(case["right"]), tuple(_V(c) for c in case["conds"])
    raw = DSeparationJudgement(case["sep"], left, right, conds)
    fm = _forms(case)
    try:
        made = _create(DSeparationJudgement, fm, left, right, conds, case["sep"])
    except Exception as e:  # noqa: BLE001 - create() is total on Variables
        return {"out": ["err"], "fail": f"DSeparationJudgement.create raised {type(e).__name__}: {str(e)[:100]}",
                "nontrivial": False, "tags": dict({"kind": "canon"}, **F.tags(fm))}
    raw_canonical = _is_canonical(raw)
    out = ["ok", ["true" if raw_canonical else "false", _judgement(made)]]
    fail = None
    want_raw = case["left"] < case["right"] and list(case["conds"]) == sorted(case["conds"])
    if raw_canonical != want_raw:
        fail = f"is_canonical={raw_canonical} on ({left}, {right} | {', '.join(map(str, conds))})"
    elif case["left"] != case["right"] and not _is_canonical(made):
        fail = f"create() returned a non-canonical judgement ({made.left}, {made.right} | {', '.join(map(str, made.conditions))})"
    elif [_vint(made.left), _vint(made.right)] != sorted([case["left"], case["right"]]) or \
            [_vint(c) for c in made.conditions] != sorted(set(case["conds"])) or made.separated != case["sep"]:
        fail = f"create() does not carry the query: {made}"
    return {"out": out, "fail": fail, "nontrivial": len(case["conds"]) >= 2,
            "tags": dict({"kind": "canon", "raw_canonical": raw_canonical, "names": case.get("names", "plain")}, **F.tags(fm))}


def run_python(case):
    kind = case["kind"]
    _CUR["names"] = case.get("names")
    if kind == "type":
        return _run_type(case)
    if kind == "canon":
        return _run_canon(case)
    g = case["g"]
    V = G.all_nodes(g)
    if kind == "table":
        cells, fails = _run_table(case)
        fail = None
        if fails:
            a, b, Cs, s, want = fails[0]
            fail = (f"are_d_separated({a},{b}|{Cs}) = {s} but d-separation in the canonical latent DAG is {want} "
                    f"({len(fails)} of {len(cells) - 1} queries of this graph differ)")
        return {"out": ["ok", cells], "fail": fail, "nontrivial": bool(g["bi"]) and len(V) >= 3,
                "tags": dict({"kind": "table", "n_nodes": len(V), "n_bi": min(len(g["bi"]), 6), "names": case.get("names", "plain"),
                              "shape": case.get("shape", "random")}, **F.tags(_forms(case)))}
    a, b, Cs = case["a"], case["b"], case["C"]
    fm = _forms(case)
    kw = fm["call"] == "keyword"
    sseed = case.get("shuffle_seed", 0)
    out, j = _call(g, a, b, Cs, fm["conditions"], fm["ctor"], kw, sseed)
    scope = O.in_scope(g, a, b, Cs)
    fail = None
    tags = {"kind": "one", "n_nodes": len(V), "n_bi": min(len(g["bi"]), 6), "csize": len(set(Cs)), "in_scope": scope,
            "outcome": out[0] if out[0] == "err" else out[1][1], "names": case.get("names", "plain"),
            "shape": case.get("shape", "random")}
    tags.update(F.tags(fm))
    nontrivial = False
    if scope:
        want = O.d_separated(g, a, b, Cs)
        nobi = O.d_separated({"nodes": V, "di": g["di"], "bi": []}, a, b, Cs)
        tags["bidirected_matter"] = want != nobi
        tags["truth"] = want
        tags.update(depth_tags(g, a, b, Cs, want))
        nontrivial = bool(Cs) or want != nobi
        if out[0] != "ok":
            fail = f"are_d_separated raised {j} on a valid query" if "constructor" not in str(j) else str(j)
        else:
            got = out[1][1] == "true"
            if got != want:
                path = None if want else O.d_connecting_path(g, a, b, Cs)
                fail = (f"verdict separated={got} but d-separation in the canonical latent DAG is {want}"
                        + (f"; d-connecting path {path}" if path else ""))
            elif not _is_canonical(j):
                fail = f"returned judgement ({j.left}, {j.right} | {', '.join(map(str, j.conditions))}) is not canonical"
            elif [out[1][2], out[1][3]] != [str(x) for x in sorted([a, b])] or \
                    out[1][4] != [str(x) for x in sorted(set(Cs))]:
                fail = f"judgement record {out[1]} does not carry the query ({a},{b}|{sorted(set(Cs))}) in canonical order"
        if fail is None:
            out2, _ = _call(g, b, a, Cs, fm["conditions_swapped"], fm["ctor"], not kw, sseed)
            if out2 != out:
                fail = f"not symmetric: (a,b) gives {out}, (b,a) gives {out2}"
        if fail is None:
            g2 = G.shuffled(random.Random(case.get("shuffle_seed", 0)), g)
            Cs2 = list(reversed(Cs))
            out3, _ = _call(g2, a, b, Cs2, fm["conditions_shuffled"], fm["ctor_shuffled"], kw, sseed + 1)
            if out3 != out:
                fail = f"depends on insertion order: {out} vs {out3} on {g2}"
        if fail is None and out[1][1] == "true" and len(V) <= 5 and len(g["bi"]) <= 4:
            rng = random.Random(case.get("shuffle_seed", 0) + 7)
            if not O.ci_holds(g, a, b, sorted(set(Cs)), rng):
                fail = "reported separation is not a conditional independence of a compatible SCM (exact evaluation)"
            tags["ci_checked"] = True
    return {"out": out, "fail": fail, "nontrivial": nontrivial, "tags": tags}


def _run_type(case):
    from y0.algorithm.conditional_independencies import are_d_separated

    graph = G.to_nx_mixed({"nodes": [0, 1, 2], "di": [[0, 1]], "bi": [[1, 2]]})
    args = {"left": ("A00", G.V(1), []), "right": (G.V(0), "A01", []), "conditions": (G.V(0), G.V(1), ["A02"])}[case["which"]]
    try:
        are_d_separated(graph, args[0], args[1], conditions=args[2])
        out = ["ok"]
    except TypeError:
        out = ["err"]
    # documented behaviour: TypeError.  Not part of the property's quantifier; reported as a tag only.
    return {"out": out, "fail": None, "nontrivial": False, "tags": {"kind": "type", "type_error_raised": out == ["err"]}}


# ------------------------------------------------------------------------------------------ model side

def request(case):
    if case["kind"] == "type":
        return None
    if case["kind"] == "canon":
        return C.enc(["sep", "canon", case["sep"], case["left"], case["right"], case["conds"]])
    g = case["g"]
    gs = C.graph_sexp(g["nodes"], g["di"], g["bi"])
    if case["kind"] == "table":
        return C.enc(["sep", "dsep_table", gs])
    return C.enc(["sep", "are_d_separated", gs, case["a"], case["b"], case["C"]])


def canon_model(case, rep):
    if rep[0] == "err":
        return ["err"]
    if case["kind"] == "canon":
        return ["ok", [rep[1], rep[2]]]
    return ["ok", rep[1]]


def shrink(case):
    if case["kind"] == "table":
        _, fails = _run_table(case)
        for a, b, Cs, _, _ in fails[:3]:
            yield {"kind": "one", "g": case["g"], "a": a, "b": b, "C": Cs, "shuffle_seed": 1}
        return
    if case["kind"] != "one":
        return
    for g in G.shrink_graph(case["g"]):
        live = set(G.all_nodes(g))
        if case["a"] in live and case["b"] in live:
            c = dict(case)
            c["g"] = g
            c["C"] = [v for v in case["C"] if v in live]
            yield c
    for k in range(len(case["C"])):
        c = dict(case)
        c["C"] = case["C"][:k] + case["C"][k + 1:]
        yield c


def finding_key(case, res):
    c = {k: case[k] for k in ("kind", "g", "a", "b", "C", "which", "left", "right", "conds", "sep") if k in case}
    if "g" in c:
        c["g"] = {"nodes": sorted(G.all_nodes(c["g"])), "di": sorted(c["g"]["di"]), "bi": sorted(sorted(e) for e in c["g"]["bi"])}
    if "C" in c:
        c["C"] = sorted(set(c["C"]))
    return json.dumps(c, sort_keys=True)


MANIFEST = {
    "text": ("Proof: 33 Lean theorems about the executable model of are_d_separated / DSeparationJudgement (the code after the "
             "fix of defect F2), every clause of the property. For every graph from_edges can build, all distinct a, b and all C "
             "not containing them: the test never raises (dsep_total) and says 'separated' exactly when a, b are not connected in "
             "the augmented ancestral graph minus C (dsep_iff_augmented), which holds exactly when there is no m-connecting path "
             "(augmented_iff_mconn: the Lauritzen/Richardson theorem, proved from first principles in both directions, "
             "including walk-to-path shortening), which holds exactly when a, b are d-separated given C in the canonical DAG "
             "with one fresh latent parent per bidirected edge (mconn_iff_dconn_canonical; dsep_iff_dsep_canonical is the "
             "property's main clause, dagOf_acyclic shows that graph is a DAG). Symmetry in (a, b) (dsep_symm, verdicts and "
             "errors alike), insertion-order independence (dsep_equiv_congr: congruence under NxMixedGraph.__eq__; "
             "dsep_cond_congr: C matters only as a set), the canonical judgement record (judgement_canonical, judgement_fields, "
             "areDSeparated_symm) and the exact error taxonomy (dsep_invalid, dsep_endpoint_conditioned). The final clause is "
             "dsep_sound: on every ADMG a reported separation is a conditional independence P(a,b,C)P(C) = P(a,C)P(b,C) of the "
             "observational distribution of EVERY compatible semi-Markovian model (global Markov property, Lemmas/SepMarkov.lean, "
             "on top of the c-factor lemmas of Lemmas/QFactor.lean). The model is tied to conditional_independencies.py on every "
             "run by differential correspondence (single queries, whole verdict tables, judgement records); an independent "
             "brute-force path oracle on the canonical latent DAG (networkx.is_d_separator as second opinion) and exact-rational "
             "evaluation of random compatible SCMs search for a concrete failing input."),
    "note": ("Trusted: Lean kernel; axioms propext/Classical.choice/Quot.sound; the hand-written model and networkx "
             "(ancestors, has_path) tied to the code by sampling; the definitions of m-connecting path and canonical DAG in "
             "Spec/SepSpec.lean, of the model class in Spec/Scm.lean and of conditional independence in Spec/SepCI.lean. "
             "Models with latents that have parents, or with zero-probability events, are outside the class the last clause "
             "quantifies over."),
    "technique": "Lean 4 theorems (closure = ReflTransGen; walk induction with re-routing; loop cutting; latent-fork surgery; c-factor factorisation and finite-sum algebra for the global Markov property) + differential correspondence with are_d_separated + brute-force d-connecting-path oracle on the canonical latent DAG + exact-rational SCM evaluation",
}
