"""C05 — TRSO (surrogate outcomes / transportability) estimands equal the target effect; the TRSO part of C06.

Correspondence: `identify_target_outcomes` and its helpers, real code vs the Lean model (Y0.Model.Trso / TrDsl).
  * verdict (estimand / no estimand / invalid input / other exception) must agree;
  * estimands are compared first structurally, then by EXACT evaluation on a shared multi-domain SCM family at every value
    assignment (Python iterates hash-ordered sets where the model iterates sorted lists, so equally valid topological
    orders give syntactically different, semantically equal estimands; the number of such cases is printed as
    `semantic_only`);
  * the set/graph/boolean valued helpers (`get_nodes_to_transport`, `create_transport_diagram`,
    `all_transports_d_separated`, `activate_domain_and_interventions`, `canonicalize`, `*`, `/`) are compared exactly.

Oracle (written from the property statement, independent of y0 and of the model; harness/oracles/family_eval.py):
  (a) random positive target SCM compatible with G; each source domain equals it except for fresh mechanisms at the
      nodes where the domain may differ (re-implemented from the rule of the paper); `PP[pi](... @ z)` leaves read domain
      pi under do(z); the estimand must equal P*(y | do(x)) at EVERY assignment (two families per case);
  (b) no usable surrogate experiment (no source domain, or no domain has an experimental variable): an estimand is
      returned exactly when `identify_outcomes` (ID) returns one;
  (c) any exception on an input inside the quantifier is a failure; invalid inputs must raise ValueError;
  (d) vocabulary (C06): every leaf is target-observational or a declared source domain under a subset of its
      experiments; no selection node anywhere;
  (e) on EVERY identify case: get_nodes_to_transport of every declared domain vs the independent rule
      (De(Z)-W) u (C(W)-An(W) in G[bar Z]) computed with the oracle's own graph code;
      helpers: selection-node placement vs the independent rule, the diagram vs its set-theoretic definition, the
      line-6 separation test vs true m-separation (path enumeration), activation vs its meaning (the same terms read in
      the source domain under the intervention);
  (e2) on every valid case: the selection DIAGRAM that surrogate_to_transport derives for every declared domain is the graph plus exactly
      one parentless selection node T_v -> v for the v the independent rule marks;
  (b') experiments declared, TRSO answers 'no estimand', ID returns an estimand: violated under either reading of the second sentence
      (no experiment usable -> the verdict must be ID's; one usable -> using it is an estimand);
  (R) the caller's graph / sets / dictionaries (contents and key order) are unchanged by the call.
Every identify case is driven in an argument FORM that is a deterministic function of the case (harness/forms.py): insertion order of the
domain keys, independently in the two dictionaries, and the public constructor / insertion order of the target graph.  The call runs
inside `recursion_guard` (limit = depth + 250) so that an endless recursion is an outcome, not a check that does not finish.
"""
from __future__ import annotations

import hashlib
import itertools as itt
import json
import logging
import random
import re
import sys
import traceback

import numpy as np

from .. import common as C
from .. import enc_expr as E
from .. import forms as F
from .. import gen_graph as G
from ..oracles import family_eval as FE

PROP = "C05"
TARGET = FE.TARGET
RULE = ("random ADMGs with 2-6 nodes (isolated nodes, bidirected-only nodes, bows) x disjoint non-empty X, Y x 0-2 source "
        "domains with random experiment sets Z_i and surrogate-outcome sets W_i (empty, overlapping, equal to X / Y, "
        "unusable); plus a structured SPREAD stream (a source domain whose 2-3 surrogate outcomes lie in different districts, a node "
        "in the district of one of them that is no ancestor of W, no descendant of Z and an ancestor of the target outcome, so "
        "that C(W) - An(W) matters: A -> M -> B, A -> S, M <-> U -> B, X = Z = {A}, W = {M, S}, Y = {B} and variations; random "
        "ADMGs with W picked from different districts); plus relabelled/perturbed variants of the paper examples and of every past witness (nested "
        "c-component graphs that reach line 10 twice, line 10 inside a source domain, terms that contain only intervened "
        "variables); plus a malformed stream (overlapping X and Y, names outside the graph, mismatching domain keys); "
        "plus direct calls of the helpers; plus (mutation campaign D / generator review of round 5, appended after the streams above) TWO "
        "domains that pass line 6 together (nested / equal / disjoint experiments inside X, either insertion order), THREE or FOUR domains "
        "(one domain per outcome with |Y| = 3 in three districts; a bow with one usable domain of three; random), line 10 twice INSIDE a "
        "source domain (every no-domain line-10 witness plus an experimental root X0 in X and a domain with Z = {X0}), 6-7 node graphs with "
        "|X|, |Y| up to 4, activation of fractions nested in fractions / sums / products, the other key mismatches of the two dictionaries; "
        "every identify case in an argument form derived from the case (key insertion orders, graph constructor). A case is non-trivial when the graph has >=3 nodes and the run reaches one of "
        "lines 4, 6, 9, 10 (recorded from the algorithm's own debug log)."
        " A SMALL-SCOPE stream: every labelled ADMG on 2-3 nodes x every query x one source domain with every (Z, W) by a fixed stride (1 in 96 quick, 1 in 8 thorough); stream uses6: siblings of the identify cases that declare an experiment, run with a spy on trso_line6 (hypothesis of trso_line6_unused_iff_id).")
ASSUMPTIONS = [
    "trso_sound (first sentence of the property) is PROVED at full strength for the Lean model (Props/C05 trso_sound: every "
    "validated input over a well-formed acyclic graph with node names below 100 and non-empty outcomes, every run whatever "
    "the number and depth of line-6 steps, every family of positive semi-Markovian models compatible with the derived "
    "selection diagrams - Spec/FamilySpec Family.SelectionCompatible: same cardinalities, latent variables, latent priors, "
    "and same mechanisms except at the variables where get_nodes_to_transport places a selection node -, every value "
    "assignment); it is about the model Y0.Model.Trso / TrDsl with the separation test Trso.dSeparated, tied to the Python "
    "by the correspondence of every run; the exact multi-domain oracle re-decides the clause on the real code",
    "trso_no_surrogate_iff_id: verdicts (trso_no_surrogate_iff_id_partial, trso_no_surrogate_none_iff_id_partial) and "
    "denotations (trso_sound_no_surrogate for ANY separation test, trso_no_surrogate_den_eq_id: both estimands are "
    "P(Y|do(X)) in every compatible model) are proved for inputs whose source domains DECLARE no experiment; 'no experiment "
    "is usable although some are declared' is proved in Props/C05Usable (trso_no_usable_surrogate_iff_id and companions) with "
    "'usable' made precise as the executable predicate identifyUsesLine6 = 'at some state of the run line 6 (trso_line6) returns "
    "a non-empty dict or fails' (identifyUsesLine6x follows the Python loop of line 4 exactly; identifyUsesLine6 inspects every "
    "c-component, an over-approximation); that reading of 'usable' is an "
    "assumption about the property text; the predicate is compared with a spy on the real trso_line6 on every run (stream uses6)",
    "trso_no_internal_error (last sentence) is PROVED for the Lean model for ALL validated inputs (Props/C05 "
    "trso_no_internal_error: identify_target_outcomes returns an estimand or 'no estimand', no exception of any kind, in "
    "particular not the NotImplementedError of activate_domain_and_interventions on One(): the estimand of a run inside "
    "a source domain contains no One() - shown by following the run in the coin family). Hypotheses: graph well-formed and "
    "acyclic, node names below 100 (the harness's name table; selection nodes are 200 + v), Y non-empty, separation test = "
    "the model of are_d_separated",
    "the theorems about `are_d_separated` used for the phase after line 6 are about the model Trso.dSeparated "
    "(moralisation test), tied to the Python by the `separated` helper correspondence",
    "the rule placing selection nodes, (De(Z_i) - W_i) u (C(W_i) - An(W_i) in G[bar Z_i]), is taken from the paper as "
    "restated in the docstring and re-implemented independently in the oracle; families differ from the target only in "
    "the mechanisms (kernels given parents and latents) at marked nodes",
    "model class of the oracle and of Spec/FamilySpec: discrete variables, positive rational parameters, independent "
    "root latents (one per bidirected edge, sometimes one per bidirected triangle)",
    "'the caller's objects are unchanged' is a Python-runtime clause (R) checked on every call, not a theorem",
    "Python iterates sets in hash order (in particular networkx' topological_sort of graphs rebuilt from sets); the model "
    "iterates in name order; theorems about the model hold for the model's order, equality of VALUES with the Python's "
    "order is checked by exact evaluation (about 7% of the estimands agree by value only; the Product.safe sort key of the "
    "model is the fixed total _get_key since round 2)",
]
LEANCHECK_MODULES = ["Y0.Model.TrDsl", "Y0.Model.Trso", "Y0.Props.C05", "Y0.Props.C06Transport"]
EXHAUSTIVE = {"quick": False, "thorough": False}
ESCALATED_TIER = "escalated"   # generator budget when an anchored source file changed since the last integration

# ------------------------------------------------------------------------------------------------ corpus

# tikka_trso_figure_8: X1=0 X2=1 W=2 Y1=3 Y2=4 Z=5   (names only need to be distinct; order kept alphabetical-ish)
_FIG8 = {"nodes": [], "di": [[0, 3], [0, 4], [2, 3], [2, 4], [5, 3], [5, 1], [1, 4], [5, 4]],
         "bi": [[0, 3], [5, 2], [5, 1]]}
# witness of the line-10 defect: B=0 D=1 E=2 M=3 Y=4 ; B->M->Y, D->E->Y, Y<->D, Y<->B, B<->E
_NEST = {"nodes": [], "di": [[0, 3], [3, 4], [1, 2], [2, 4]], "bi": [[4, 1], [4, 0], [0, 2]]}
_NAPKIN = {"nodes": [], "di": [[0, 1], [1, 2], [2, 3]], "bi": [[0, 2], [0, 3]]}


def _idc(g, X, Y, domains, seed=11, **kw):
    c = {"kind": "identify", "g": g, "X": X, "Y": Y, "domains": domains, "eval_seed": seed}
    c.update(kw)
    return c


CORPUS = [
    # paper / test-suite examples
    _idc(_FIG8, [0, 1], [3, 4], [[[0], [3]], [[1], [4]]]),                       # test_transport_1 (figure 8)
    _idc(_FIG8, [2, 5], [3], [[[0], [3]], [[1], [4]]]),
    _idc({"nodes": [], "di": [[2, 3], [2, 4], [5, 3], [5, 1], [1, 4], [5, 4]], "bi": [[5, 2], [5, 1], [2, 3]]},
         [2, 5], [3], [[[1], [3]], [[1], [4]]]),                                  # test_transport_2 (line 11)
    _idc({"nodes": [], "di": [[0, 3], [0, 4], [2, 3], [2, 4], [5, 3], [5, 1], [1, 4], [5, 4]], "bi": [[0, 3], [3, 2], [5, 1]]},
         [2, 5], [3], [[[0], [3]], [[1], [4]]]),                                  # test_transport_4 (line 10)
    _idc({"nodes": [], "di": [[0, 3], [0, 4], [2, 3], [2, 4], [5, 3], [5, 1], [1, 4], [5, 4]],
          "bi": [[0, 3], [5, 2], [5, 1], [4, 0]]}, [0, 1], [3, 4], [[[0], [3]], [[1], [4]]]),   # test_transport_6
    _idc({"nodes": [], "di": [[0, 3], [3, 1], [1, 2]], "bi": [[3, 0], [2, 0]]}, [0], [2], [[[0], [3]], [[1], [2]]]),  # grades
    _idc(_NAPKIN, [2], [3], []),
    # witnesses of the defects found by this check (each fixed on branch fix-transport)
    _idc(_NEST, [2, 3], [4], []),                                                 # line 10 ignored the carried distribution
    _idc(_NEST, [0, 1], [4], []),
    _idc({"nodes": [4], "di": [[2, 3], [0, 3], [2, 1], [4, 2], [4, 1], [0, 2], [1, 3]], "bi": [[1, 4]]},
         [0], [1], [[[0, 1, 3], [0, 1, 2, 3]], [[], [1, 4]]]),                     # activation: term with intervened variables only
    _idc({"nodes": [], "di": [[1, 5], [4, 3], [0, 5], [4, 0], [3, 5], [0, 3], [1, 2], [3, 2]], "bi": [[2, 4], [4, 1], [5, 3]]},
         [0, 4], [2, 5], [[[0], [2, 3, 4]]]),                                      # activation dropped the conditioning set
    _idc({"nodes": [], "di": [[4, 1], [4, 5], [0, 4], [2, 5], [3, 5], [0, 5], [0, 3], [1, 2]],
          "bi": [[4, 2], [4, 3], [5, 2], [3, 0], [1, 4], [5, 0]]}, [0, 1, 3], [2, 4], [[[1], [2, 3, 5]]]),  # Sum over a selection node
    # campaign D (mutant c10): a domain passes the line-6 separation test but yields no estimand, then line 10 in the TARGET domain; the
    # recursion below line 10 must not enter line 6 again (the carried c-factor is not the domain's experimental distribution)
    _idc({"nodes": [], "di": [[1, 2], [0, 3], [4, 3], [4, 2], [2, 3], [1, 0], [4, 0], [1, 3], [0, 2]], "bi": [[1, 3], [0, 1], [3, 4]]},
         [0, 1, 2], [3, 4], [[[0, 2], [0, 2, 3, 4]], [[3, 4], [1, 3]]]),
    # gap review round 5 (C05-G1): line 10 TWICE inside a source domain (the carried c-factor branch of line 10 and the pillow test on
    # the second line 10 while query.domain is a source domain): _NEST plus an experimental root X0=5 -> M, X = {X0, E, M}, Z = {X0}
    _idc({"nodes": [], "di": _NEST["di"] + [[5, 3]], "bi": _NEST["bi"]}, [2, 3, 5], [4], [[[5], [4]]]),
    _idc({"nodes": [], "di": _NEST["di"] + [[5, 4]], "bi": _NEST["bi"]}, [2, 3, 5], [4], [[[5], [0, 1, 2, 3, 4]]]),
    # malformed
    _idc(_NAPKIN, [2], [2, 3], [], malformed="overlap"),
    _idc(_NAPKIN, [2], [3, 90], [], malformed="outside"),
    _idc(_NAPKIN, [2], [3], [[[2], [3]]], malformed="keys"),
]


# ------------------------------------------------------------------------------------------------ generators

def _relabel(g, perm):
    f = lambda v: perm[v]  # noqa: E731
    return {"nodes": [f(v) for v in g["nodes"]], "di": [[f(u), f(v)] for u, v in g["di"]],
            "bi": [[f(u), f(v)] for u, v in g["bi"]]}


def _perturb(rng, case, nmax=6):
    """relabel a corpus case and add a little random structure (keeps acyclicity by orienting along a topological order)"""
    g = case["g"]
    nodes = sorted(G.all_nodes(g))
    n = len(nodes)
    extra = rng.choice([0, 0, 1]) if n < nmax else 0
    names = rng.sample(range(n + extra + rng.choice([0, 1])), n + extra) if True else None
    perm = {v: names[i] for i, v in enumerate(nodes)}
    g2 = _relabel({"nodes": nodes, "di": g["di"], "bi": g["bi"]}, perm)
    # topological order of the relabelled graph
    import networkx as nx
    d = nx.DiGraph()
    d.add_nodes_from(G.all_nodes(g2))
    d.add_edges_from(tuple(e) for e in g2["di"])
    order = list(nx.topological_sort(d))
    for k in range(extra):
        new = names[n + k]
        order.insert(rng.randrange(len(order) + 1), new)
        g2["nodes"].append(new)
    pos = {v: i for i, v in enumerate(order)}
    for _ in range(rng.choice([0, 0, 1, 2])):
        a, b = rng.sample(order, 2)
        if pos[a] > pos[b]:
            a, b = b, a
        if rng.random() < 0.5:
            if [a, b] not in g2["di"]:
                g2["di"].append([a, b])
        elif [a, b] not in g2["bi"] and [b, a] not in g2["bi"]:
            g2["bi"].append([a, b])
    c = dict(case)
    c["g"] = g2
    c["X"] = [perm[v] for v in case["X"]]
    c["Y"] = [perm[v] for v in case["Y"]]
    c["domains"] = [[[perm[v] for v in Z], [perm[v] for v in W]] for Z, W in case["domains"]]
    if rng.random() < 0.3 and c["domains"]:
        k = rng.randrange(len(c["domains"]))
        pool = G.all_nodes(g2)
        c["domains"][k] = [sorted(set(c["domains"][k][0]) ^ {rng.choice(pool)}), c["domains"][k][1]]
    c["eval_seed"] = rng.randrange(1 << 30)
    c.pop("malformed", None)
    return c


def _rand_identify(rng, nmax=6):
    mode = rng.random()
    while True:
        g = G.rand_graph(rng, 2, nmax, acyclic=True, pd=rng.choice([0.3, 0.5, 0.7]), pb=rng.choice([0.0, 0.15, 0.3, 0.5]))
        nodes = G.all_nodes(g)
        if len(nodes) >= 2 and len(g["bi"]) <= 9:
            break
    perm = nodes[:]
    rng.shuffle(perm)
    nx_ = rng.randint(1, max(1, min(3, len(nodes) - 1)))
    ny = rng.randint(1, max(1, min(2, len(nodes) - nx_)))
    X, Y = perm[:nx_], perm[nx_:nx_ + ny]
    doms = []
    ndom = rng.choice([0, 1, 1, 2, 2]) if mode > 0.15 else 0
    for _ in range(ndom):
        r = rng.random()
        if r < 0.5:       # experiments on (part of) X, surrogate outcomes around Y
            Z = [v for v in X if rng.random() < 0.7] + [v for v in nodes if v not in X and rng.random() < 0.12]
            W = [v for v in Y if rng.random() < 0.8] + [v for v in nodes if v not in Y and rng.random() < 0.35]
        elif r < 0.9:
            Z = [v for v in nodes if rng.random() < 0.4]
            W = [v for v in nodes if rng.random() < 0.4]
        else:             # a domain without experiments
            Z = []
            W = [v for v in nodes if rng.random() < 0.5]
        doms.append([sorted(set(Z)), sorted(set(W))])
    return _idc(g, X, Y, doms, seed=rng.randrange(1 << 30))


def _spread_case(rng):
    """structured stream (round 2): a source domain whose surrogate outcomes are spread over several districts, with a node U in
    the district of one surrogate outcome that is no ancestor of W, no descendant of Z, and an ancestor of the target
    outcome (C(W) - An(W) is non-empty and matters): A -> M -> B, A -> S, M <-> U -> B with X = {A}, Y = {B}, Z = {A},
    W = {M, S} and variations (third surrogate outcome, extra parents/edges, a second domain, larger X / Y)"""
    k3 = rng.random() < 0.3
    roles = ["A", "U", "M", "S"] + (["S2"] if k3 else []) + ["B"]
    names = rng.sample(range(len(roles) + rng.choice([0, 0, 1])), len(roles))
    n = dict(zip(roles, names))
    di = [[n["A"], n["M"]], [n["M"], n["B"]], [n["U"], n["B"]], [n["A"], n["S"]]]
    bi = [[n["U"], n["M"]]]
    if k3:
        di.append([rng.choice([n["A"], n["M"], n["S"]]), n["S2"]])
        if rng.random() < 0.5:
            di.append([n["S2"], n["B"]])
    order = [n[r] for r in roles]
    pos = {v: i for i, v in enumerate(order)}
    for i in range(len(order)):
        for j in range(i + 1, len(order)):
            a, b = order[i], order[j]
            if rng.random() < 0.08 and [a, b] not in di:
                di.append([a, b])
            if rng.random() < 0.05 and [a, b] not in bi and [b, a] not in bi:
                bi.append([a, b])
    X = [n["A"]]
    Y = [n["B"]]
    if rng.random() < 0.15:
        Y.append(n["S"])
    W = [n["M"], n["S"]] + ([n["S2"]] if k3 else [])
    if rng.random() < 0.15:
        W.append(n["B"])
    Z = [n["A"]]
    doms = [[sorted(Z), sorted(W)]]
    r = rng.random()
    if r < 0.25:       # a second domain with one of the surrogate outcomes only / with another experiment
        doms.append([sorted(rng.sample(order, rng.randint(0, 2))), sorted(rng.sample(order, rng.randint(1, 2)))])
    elif r < 0.35:
        doms.insert(0, [[], sorted(rng.sample(order, 2))])
    del pos
    return _idc({"nodes": [], "di": di, "bi": bi}, X, Y, doms, seed=rng.randrange(1 << 30), stream="spread")


def _spread_random(rng):
    """random ADMG; one domain whose surrogate outcomes are chosen from DIFFERENT districts, experiments on (part of) X"""
    for _ in range(50):
        g = G.rand_graph(rng, 4, 6, acyclic=True, pd=rng.choice([0.3, 0.5]), pb=rng.choice([0.15, 0.3]))
        nodes = G.all_nodes(g)
        ds = [d for d in FE.districts(nodes, [tuple(e) for e in g["bi"]])]
        if len(nodes) >= 4 and len(ds) >= 2 and any(len(d) >= 2 for d in ds) and len(g["bi"]) <= 8:
            break
    else:
        return _rand_identify(rng)
    big = rng.choice([d for d in ds if len(d) >= 2])
    others = [d for d in ds if d != big]
    W = {rng.choice(sorted(big))} | {rng.choice(sorted(d)) for d in rng.sample(others, rng.randint(1, min(2, len(others))))}
    rest = [v for v in nodes if v not in W]
    rng.shuffle(rest)
    if not rest:
        return _rand_identify(rng)
    X = rest[:rng.randint(1, min(2, len(rest)))]
    pool = [v for v in nodes if v not in X]
    Y = rng.sample(pool, rng.randint(1, min(2, len(pool))))
    Z = [v for v in X if rng.random() < 0.85] or [X[0]]
    doms = [[sorted(Z), sorted(W)]]
    if rng.random() < 0.3:
        doms.append([sorted(v for v in nodes if rng.random() < 0.3), sorted(v for v in nodes if rng.random() < 0.4)])
    return _idc(g, X, Y, doms, seed=rng.randrange(1 << 30), stream="spread_random")


_TWO_DOMAIN_SEEDS = [
    # chain A -> B -> C with A <-> C ; P*(C | do(B)) ; pi1 experiments on A, pi2 on A and B   (A=0 B=1 C=2 D=3)
    {"g": {"nodes": [], "di": [[0, 1], [1, 2]], "bi": [[0, 2]]}, "X": [1], "Y": [2], "domains": [[[0], [1, 2]], [[0, 1], [2]]]},
    {"g": {"nodes": [], "di": [[0, 2], [1, 0], [1, 2]], "bi": []}, "X": [1], "Y": [2], "domains": [[[0], [1, 2]], [[0, 1], [2]]]},
    {"g": {"nodes": [], "di": [[0, 1], [3, 1]], "bi": [[0, 1]]}, "X": [0, 3], "Y": [1], "domains": [[[0], [1]], [[0, 3], [1]]]},
    {"g": {"nodes": [], "di": [[0, 1], [1, 2], [3, 2]], "bi": [[0, 2]]}, "X": [1, 3], "Y": [2], "domains": [[[1], [2]], [[1, 3], [2]]]},
]


def _two_domain_case(rng):
    """structured stream (campaign D): TWO source domains whose experiments both meet the target interventions, surrogate outcomes
    generous (few selection nodes), so that SEVERAL domains pass line 6 of one call and each yields an estimand (`more than one
    expression were non-none`).  Three shapes: (a) nested experiments Z1 < Z2 sharing a variable of X, (b) the same experiment
    declared twice with different surrogate outcomes, (c) disjoint experiments on different variables of X (the shape on which a
    second, nested use of line 6 would be possible); either insertion order"""
    if rng.random() < 0.12:
        s = rng.choice(_TWO_DOMAIN_SEEDS)
        doms = [list(d) for d in s["domains"]]
        if rng.random() < 0.5:
            doms.reverse()
        return _idc(s["g"], list(s["X"]), list(s["Y"]), doms, seed=rng.randrange(1 << 30), stream="two_domain")
    while True:
        g = G.rand_graph(rng, 3, 5, acyclic=True, pd=rng.choice([0.4, 0.6, 0.8]), pb=rng.choice([0.0, 0.15, 0.3]))
        nodes = G.all_nodes(g)
        if len(nodes) < 3:
            continue
        perm = nodes[:]
        rng.shuffle(perm)
        nx_ = rng.randint(1, min(3, len(nodes) - 1))
        ny = rng.randint(1, min(2, len(nodes) - nx_))
        X, Y = perm[:nx_], perm[nx_:nx_ + ny]
        a = rng.choice(X)
        shape = rng.random()
        if shape < 0.5:           # (a) nested
            pool = [v for v in nodes if v != a and v not in Y]
            if not pool:
                continue
            pref = [v for v in pool if v in X] or pool
            extra = {rng.choice(pref if rng.random() < 0.6 else pool)}
            z1, z2 = sorted({a}), sorted({a} | extra)
        elif shape < 0.7:         # (b) the same experiment twice
            z1 = z2 = sorted({a} | ({rng.choice(X)} if rng.random() < 0.3 else set()))
        else:                     # (c) disjoint experiments inside X
            if len(X) < 2:
                continue
            b = rng.choice([v for v in X if v != a])
            z1, z2 = [a], [b]

        def outcomes(Z):
            r = rng.random()
            if r < 0.5:
                return sorted(set(nodes) - set(Z))
            if r < 0.8:
                return sorted(set(Y) | {v for v in nodes if v not in Z and rng.random() < 0.5})
            return sorted(Y)
        doms = [[z1, outcomes(z1)], [z2, outcomes(z2)]]
        if rng.random() < 0.5:
            doms.reverse()
        return _idc(g, sorted(X), sorted(Y), doms, seed=rng.randrange(1 << 30), stream="two_domain")


def _nested_source_case(rng):
    """structured stream (gap review C05-G1): a no-domain witness that reaches line 10 (twice for _NEST) gets a fresh experimental
    root X0 with an edge into a random non-X node, X0 joins X, and ONE source domain declares Z = {X0} with generous surrogate
    outcomes: line 6 is taken first and lines 10 / 10 / 9 then run inside the source domain on a carried c-factor"""
    base = rng.choice([c for c in CORPUS if not c["domains"] and "malformed" not in c and c["g"] is not _NAPKIN] + [CORPUS[3]])
    g = base["g"]
    nodes = sorted(G.all_nodes(g))
    x0 = max(nodes) + 1
    X, Y = list(base["X"]), list(base["Y"])
    tgt = rng.choice([v for v in nodes if v not in X] or nodes)
    di = [list(e) for e in g["di"]] + [[x0, tgt]]
    if rng.random() < 0.25:
        di.append([x0, rng.choice([v for v in nodes if v != tgt])])
    V = nodes + [x0]
    r = rng.random()
    W = sorted(Y) if r < 0.4 else sorted(set(V) - {x0}) if r < 0.75 else sorted(set(Y) | {v for v in nodes if rng.random() < 0.5})
    Z = [x0] + ([rng.choice(X)] if rng.random() < 0.2 else [])
    c = _idc({"nodes": [], "di": di, "bi": [list(e) for e in g["bi"]]}, sorted(set(X) | {x0}), Y, [[sorted(set(Z)), W]],
             seed=rng.randrange(1 << 30))
    c = _perturb(rng, c, nmax=len(V)) if rng.random() < 0.7 else c     # relabel (no extra node: n stays <= 7)
    c["stream"] = "nested_source"
    return c


def _multi_domain_case(rng):
    """structured stream (gap review C05-G2 / G3): THREE or FOUR source domains; (a) one domain per outcome: k bows X_i -> Y_i,
    X_i <-> Y_i (k = 3, sometimes a common cause / an edge between the blocks), X = all X_i, Y = all Y_i (|Y| = 3, three
    districts), domain i with Z = {X_i}, W = {Y_i}, sometimes one domain unusable / duplicated / with W = everything;
    (b) a bow X -> Y with three domains of which only one is usable; (c) random ADMG with 3-4 random domains"""
    r = rng.random()
    if r < 0.35:
        k = 3
        names = rng.sample(range(2 * k + rng.choice([0, 1])), 2 * k)
        xs, ys = names[:k], names[k:]
        di = [[x, y] for x, y in zip(xs, ys)]
        bi = [[x, y] for x, y in zip(xs, ys) if rng.random() < 0.8]
        if rng.random() < 0.3:
            di.append([ys[0], ys[1]])
        if rng.random() < 0.2:
            di.append([xs[0], xs[1]])
        doms = [[[x], [y]] for x, y in zip(xs, ys)]
        q = rng.random()
        if q < 0.2:
            doms[rng.randrange(k)] = [[], [rng.choice(ys)]]
        elif q < 0.35:
            doms.append(list(doms[0]))
        elif q < 0.5:
            j = rng.randrange(k)
            doms[j] = [doms[j][0], sorted(set(xs + ys) - set(doms[j][0]))]
        rng.shuffle(doms)
        X, Y = list(xs), list(ys)
        if rng.random() < 0.2:
            Y = Y[:2]
        return _idc({"nodes": [], "di": di, "bi": bi}, sorted(X), sorted(Y), doms, seed=rng.randrange(1 << 30), stream="multi_domain")
    if r < 0.5:
        x, y = rng.sample(range(3), 2)
        doms = [[[], [y]], [[y], [x]], [[x], [y]]]
        rng.shuffle(doms)
        return _idc({"nodes": [], "di": [[x, y]], "bi": [[x, y]]}, [x], [y], doms, seed=rng.randrange(1 << 30), stream="multi_domain")
    c = _rand_identify(rng, 5)
    nodes = G.all_nodes(c["g"])
    while len(c["domains"]) < rng.choice([3, 3, 4]):
        Z = [v for v in c["X"] if rng.random() < 0.6] + [v for v in nodes if v not in c["X"] and rng.random() < 0.1]
        W = [v for v in c["Y"] if rng.random() < 0.8] + [v for v in nodes if v not in c["Y"] and rng.random() < 0.4]
        c["domains"].append([sorted(set(Z)), sorted(set(W))])
    c["stream"] = "multi_domain"
    return c


def _big_query_case(rng):
    """structured stream (gap review C05-G3): 6-7 nodes, |X| up to 4, |Y| up to 4 (binary variables only), 0-2 domains"""
    while True:
        g = G.rand_graph(rng, 6, 7, acyclic=True, pd=rng.choice([0.25, 0.35]), pb=rng.choice([0.1, 0.2]))
        nodes = G.all_nodes(g)
        if 6 <= len(nodes) <= 7 and len(g["bi"]) <= 6:
            break
    perm = nodes[:]
    rng.shuffle(perm)
    nx_ = rng.choice([1, 2, 3, 4, 4])
    ny = rng.choice([1, 2, 3, 3, 4])
    ny = min(ny, len(nodes) - nx_)
    X, Y = perm[:nx_], perm[nx_:nx_ + ny]
    doms = []
    for _ in range(rng.choice([0, 1, 1, 2])):
        Z = [v for v in X if rng.random() < 0.6]
        W = [v for v in Y if rng.random() < 0.8] + [v for v in nodes if v not in Y and rng.random() < 0.4]
        doms.append([sorted(set(Z)), sorted(set(W))])
    return _idc(g, sorted(X), sorted(Y), doms, seed=rng.randrange(1 << 30), stream="big_query")


def _nested_frac_expr(rng, nodes):
    """activation of a Fraction nested in a Fraction / Sum / Product (gap review C05-G1 d)"""
    leaf = lambda: _rand_expr(rng, nodes, depth=2)  # noqa: E731
    fr = lambda a, b: ["frac", a, b]                  # noqa: E731
    k = rng.randrange(5)
    if k == 0:
        return fr(fr(leaf(), leaf()), leaf())
    if k == 1:
        return fr(leaf(), fr(leaf(), leaf()))
    if k == 2:
        return fr(fr(leaf(), leaf()), fr(leaf(), leaf()))
    inner = fr(leaf(), leaf())
    if k == 3:
        pool = sorted(FE.free_names(inner)) or sorted(nodes)
        return fr(["sum", [E.plain(rng.choice(pool))], inner], leaf())
    return ["prod", fr(leaf(), leaf()), fr(fr(leaf(), leaf()), leaf())]


def _rand_malformed(rng):
    c = _rand_identify(rng, 5)
    kind = rng.choice(["overlap", "outside", "keys", "outside_dom"])
    return _malform(rng, c, kind)


def _malform(rng, c, kind):
    nodes = G.all_nodes(c["g"])
    if kind == "overlap":
        c["Y"] = c["Y"] + [c["X"][0]]
    elif kind == "outside":
        (c["X"] if rng.random() < 0.5 else c["Y"]).append(rng.choice([90, 91]))
    elif kind == "outside_dom":
        if not c["domains"]:
            c["domains"] = [[[nodes[0]], []]]
        c["domains"][0][rng.randrange(2)].append(92)
    elif kind == "outside_dom_any":
        c["domains"] = c["domains"] or [[[nodes[0]], []]]
        c["domains"][rng.randrange(len(c["domains"]))][rng.randrange(2)].append(92)
    elif kind in ("keys_extra", "keys_renamed"):     # gap review C05-G5: the other ways in which the two dictionaries can mismatch
        c["domains"] = c["domains"] or [[[nodes[0]], [nodes[-1]]]]
    else:
        c["domains"] = c["domains"] or [[[nodes[0]], [nodes[-1]]]]
    c["malformed"] = kind
    return c


def _rand_expr(rng, nodes, depth=0):
    """random expression over population-tagged leaves (for the structural helper correspondences)"""
    r = rng.random()
    if depth >= 2 or r < 0.35:
        k = rng.randint(1, min(3, len(nodes)))
        vs = rng.sample(nodes, k)
        nc = rng.randint(1, k)
        pop = rng.choice([TARGET, TARGET + 1, TARGET + 2])
        return ["PP", E.plain(pop), [E.plain(v) for v in sorted(vs[:nc])], [E.plain(v) for v in sorted(vs[nc:])]]
    if r < 0.55:
        # ranges mostly among the variables of the summand; sometimes any node (a joint summed over a variable it does
        # not mention: the superset / partial-overlap branches of Sum.simplify, repaired by fix ed0f7b2)
        inner = _rand_expr(rng, nodes, depth + 1)
        pool = sorted(FE.free_names(inner)) if rng.random() < 0.75 else sorted(nodes)
        if not pool:
            return inner
        return ["sum", [E.plain(v) for v in sorted(rng.sample(pool, rng.randint(1, min(2, len(pool)))))], inner]
    if r < 0.8:
        return ["prod"] + [_rand_expr(rng, nodes, depth + 1) for _ in range(rng.randint(2, 3))]
    if r < 0.95:
        return ["frac", _rand_expr(rng, nodes, depth + 1), _rand_expr(rng, nodes, depth + 1)]
    return "one"


def _well_formed(e):
    """y0's own constructors never build a Product with <2 factors / nested raw shapes we generate are fine"""
    return True


def _corpus_dir():
    """extra witnesses dropped into corpus/C05/*.json (a case or a list of cases per file)"""
    import glob
    import os
    out = []
    for f in sorted(glob.glob(os.path.join(str(C.VERIF), "corpus", PROP, "*.json"))):
        d = json.load(open(f))
        out += d if isinstance(d, list) else [d]
    return out


def cases(rng: random.Random, tier: str):
    out = [json.loads(json.dumps(c)) for c in CORPUS]
    seen = {json.dumps(c, sort_keys=True) for c in out}
    out += [c for c in _corpus_dir() if json.dumps(c, sort_keys=True) not in seen]
    n_rand, n_pert, n_mal, n_help = {"quick": (6000, 2500, 200, 2500), "escalated": (16000, 7000, 400, 6000)}.get(
        tier, (60000, 25000, 1000, 15000))
    n_spread = {"quick": 1200, "escalated": 3000}.get(tier, 10000)
    for _ in range(n_spread):
        out.append(_spread_case(rng) if rng.random() < 0.6 else _spread_random(rng))
    for _ in range(n_rand):
        out.append(_rand_identify(rng, 6 if rng.random() < 0.35 else 5))
    seeds = [c for c in CORPUS if "malformed" not in c]
    for _ in range(n_pert):
        out.append(_perturb(rng, rng.choice(seeds)))
    for _ in range(n_mal):
        out.append(_rand_malformed(rng))
    for _ in range(n_help):
        op = rng.choice(["nodes_to_transport", "transport_diagram", "separated", "separated", "activate", "canonicalize",
                         "mul", "truediv"])
        g = G.rand_graph(rng, 1, 6, acyclic=True)
        nodes = G.all_nodes(g)
        if not nodes:
            continue
        c = {"kind": op, "g": g}
        if op == "nodes_to_transport":
            c["Z"] = G.rand_subset(rng, nodes, allow_outside=0.04)
            c["W"] = G.rand_subset(rng, nodes, allow_outside=0.04)
        elif op == "transport_diagram":
            c["S"] = G.rand_subset(rng, nodes)
        elif op == "separated":
            # a selection diagram: the graph plus selection nodes on a random subset
            c["S"] = G.rand_subset(rng, nodes, p=rng.choice([0.2, 0.5]))
            c["X"] = G.rand_subset(rng, nodes, p=rng.choice([0.2, 0.5]))
            c["Y"] = [v for v in G.rand_subset(rng, nodes, p=0.4) if v not in c["X"]]
        else:
            c["e"] = _rand_expr(rng, nodes)
            if op in ("mul", "truediv"):
                c["e2"] = _rand_expr(rng, nodes)
            if op == "activate":
                c["Z"] = sorted(rng.sample(nodes, rng.randint(1, min(2, len(nodes)))))
                c["pop"] = rng.choice([TARGET + 1, TARGET + 2])
                c["eval_seed"] = rng.randrange(1 << 30)
        out.append(c)
    # streams added by mutation campaign D are appended, so that the streams above stay the cases they were
    n_two = {"quick": 500, "escalated": 1200}.get(tier, 4000)
    for _ in range(n_two):
        out.append(_two_domain_case(rng))
    # streams added after the generator review of round 5 (three or more domains, line 10 twice inside a source domain, large queries,
    # nested fractions in the activation, the other key mismatches)
    n_multi, n_nest, n_big, n_frac, n_keys = {"quick": (350, 250, 60, 120, 40), "escalated": (900, 600, 150, 300, 80)}.get(
        tier, (3000, 2500, 600, 1500, 300))
    for _ in range(n_multi):
        out.append(_multi_domain_case(rng))
    for _ in range(n_nest):
        out.append(_nested_source_case(rng))
    for _ in range(n_big):
        out.append(_big_query_case(rng))
    for _ in range(n_frac):
        g = G.rand_graph(rng, 2, 5, acyclic=True)
        nodes = G.all_nodes(g)
        if len(nodes) < 2:
            continue
        out.append({"kind": "activate", "g": g, "e": _nested_frac_expr(rng, nodes), "Z": sorted(rng.sample(nodes, rng.randint(1, 2))),
                    "pop": rng.choice([TARGET + 1, TARGET + 2]), "eval_seed": rng.randrange(1 << 30)})
    for _ in range(n_keys):
        out.append(_malform(rng, _rand_identify(rng, 5), rng.choice(["keys_extra", "keys_renamed", "outside_dom_any"])))
    # SMALL-SCOPE stream (session 4; appended): every labelled ADMG on 2-3 nodes x every valid query x ONE source domain with
    # every experiment set Z and every non-empty surrogate-outcome set W (153 792 problems) by a fixed stride: 1 in 96 in the
    # quick tier, 1 in 8 in the thorough tier; half of them also as `uses6` siblings below
    import itertools as itt
    stride, k = {"quick": 96, "escalated": 48}.get(tier, 8), 0
    for n3 in (2, 3):
        subsets = [list(c) for r in range(n3 + 1) for c in itt.combinations(range(n3), r)]
        for g in G.all_labelled_admgs(n3):
            for r in G.all_role_assignments(n3, ("X", "Y"), ("X", "Y")):
                for Z in subsets:
                    for W in subsets[1:]:
                        k += 1
                        if k % stride == 0:
                            c = _idc(json.loads(json.dumps(g)), r["X"], r["Y"], [[Z, W]], seed=1000003 * k % (1 << 30))
                            c["stream"] = "smallscope"
                            out.append(c)
    # `uses6` (session 4; appended): the HYPOTHESIS of trso_no_usable_surrogate_iff_id (Props/C05Usable.lean) on the real code.
    # Siblings of the identify cases that declare an experiment and are not malformed: did the real run's trso_line6 ever
    # return a usable domain, and are TRSO's and ID's verdicts the same?  (model side: driver op uses_line6)
    sib = [c for c in out if c.get("kind") == "identify" and "malformed" not in c and any(Z for Z, _ in c.get("domains", []))]
    n_use = {"quick": 1500, "escalated": 4000}.get(tier, 12000)
    step = max(1, len(sib) // n_use)
    for c in sib[::step][:n_use]:
        d = json.loads(json.dumps(c))
        d["kind"] = "uses6"
        out.append(d)
    return out


# ------------------------------------------------------------------------------------------------ real code

class _LineLog(logging.Handler):
    def __init__(self):
        super().__init__()
        self.lines = []

    def emit(self, rec):
        m = rec.msg if isinstance(rec.msg, str) else ""
        if "line 10" in m:
            self.lines.append(10)
        elif "Calling trso algorithm line" in m:
            mm = re.search(r"line (\d+)", m)
            if mm:
                self.lines.append(int(mm.group(1)))
        elif "Calling trso algorithm with" in m:
            self.lines.append(0)


_LOG = None


def _line_log():
    global _LOG
    if _LOG is None:
        _LOG = _LineLog()
        lg = logging.getLogger("y0.algorithm.transport")
        lg.addHandler(_LOG)
        lg.setLevel(logging.DEBUG)
        lg.propagate = False
    _LOG.lines = []
    return _LOG


class recursion_guard:
    """TRSO on a graph with <= 7 nodes nests a few dozen frames (trso -> line helper -> deepcopy / canonicalize); a change that makes the
    recursion endless would otherwise spend seconds per case climbing to the interpreter's default limit (and the whole check
    would not finish).  Inside the guard the limit is the current depth + `extra`; a RecursionError is reported like any other
    exception on valid input.  The evidence tag `exception: RecursionError` shows whether the guard ever fired."""

    def __init__(self, extra=250):
        self.extra = extra

    def __enter__(self):
        f, n = sys._getframe(), 0
        while f is not None:
            n += 1
            f = f.f_back
        self.old = sys.getrecursionlimit()
        sys.setrecursionlimit(max(n + self.extra, 200))

    def __exit__(self, *a):
        sys.setrecursionlimit(self.old)
        return False


def _pop(i):
    from y0.dsl import Variable
    return Variable(G.vname(i))


def _graph_of(g):
    return G.to_nx_mixed({"nodes": G.all_nodes(g), "di": g["di"], "bi": g["bi"]})


def _snapshot(graph):
    return (sorted(map(str, graph.nodes())), sorted((str(u), str(v)) for u, v in graph.directed.edges()),
            sorted(tuple(sorted((str(u), str(v)))) for u, v in graph.undirected.edges()))


def _digest(fam, arr):
    full = tuple(fam.card[v] for v in fam.nodes)
    flat = np.broadcast_to(arr, full).reshape(-1) if fam.n else arr.reshape(-1)
    return hashlib.sha1(" ".join(str(x) for x in flat).encode()).hexdigest()[:16]


def _families(case):
    g, doms = case["g"], case["domains"]
    n = len(G.all_nodes(g))
    fams = [FE.make_family(g, doms, case["eval_seed"])]
    rng = random.Random(case["eval_seed"] + 1)
    cards = {v: (3 if (n <= 4 and rng.random() < 0.4) else 2) for v in G.all_nodes(g)}
    fams.append(FE.make_family(g, doms, case["eval_seed"] + 1, cards=cards))
    return fams


def _case_family(case):
    """the family on which the two sides of an expression-valued correspondence are evaluated"""
    if case["kind"] == "identify":
        return FE.make_family(case["g"], case["domains"], case["eval_seed"])
    nodes = G.all_nodes(case["g"])
    return FE.Family(case["g"], {TARGET + 1: set(nodes), TARGET + 2: set(nodes)}, random.Random(case.get("eval_seed", 7)))


def _sem_out(case, enc):
    """["ok", digest of the exact values on the case's family, structural encoding]"""
    try:
        fam = _case_family(case)
        dig = _digest(fam, fam.ev(enc))
    except FE.EvalError as e:
        dig = "evalerr:" + str(e)[:60]
    return ["ok", dig, E.to_str_tree(enc)]


def _valid_identify(case):
    V = set(G.all_nodes(case["g"]))
    X, Y = set(case["X"]), set(case["Y"])
    return bool(X) and bool(Y) and not (X & Y) and X <= V and Y <= V and \
        all(set(Z) <= V and set(W) <= V for Z, W in case["domains"]) and "malformed" not in case


def _classify_exception(e):
    tb = traceback.extract_tb(e.__traceback__)
    inner = [f for f in tb if f.filename.endswith("algorithm/transport.py")]
    if isinstance(e, ValueError) and inner and inner[-1].name in (
            "identify_target_outcomes", "check_and_raise_missing", "surrogate_to_transport"):
        return "invalid"
    return "internal"


FORM_SLOTS = {
    "sets": ("set",),                                         # X, Y and the dictionary values: the signature says set[Variable]; a frozenset
                                                              # is outside it (trso_line2 / line3 update the sets of a deepcopy in place:
                                                              # AttributeError), so it is not driven as a legal form
    "so_order": ("asc", "asc", "desc", "rot"),                # insertion order of the domain keys in surrogate_outcomes ...
    "si_order": ("asc", "asc", "desc", "rot"),                # ... and, independently, in surrogate_interventions
    "graph": ("default", "default") + tuple(F.CTORS),         # public constructor / insertion order of the target graph
}


def _forms(case):
    return F.forms_of(case, FORM_SLOTS)


def _ordered(keys, how):
    keys = list(keys)
    if how == "desc":
        return keys[::-1]
    if how == "rot" and len(keys) > 1:
        return keys[1:] + keys[:1]
    return keys


def build_call(case):
    """the arguments of identify_target_outcomes in the argument FORM of the case (harness/forms.py: a deterministic function of the
    case): (graph, X, Y, surrogate_outcomes, surrogate_interventions, forms)"""
    g = case["g"]
    fm = _forms(case)
    graph = _graph_of(g)
    if fm["graph"] != "default":
        try:
            alt = F.build_graph({"nodes": G.all_nodes(g), "di": g["di"], "bi": g["bi"]}, fm["graph"], seed=F.crc(F.case_key(case)))
            if _snapshot(alt) == _snapshot(graph):       # a constructor that does not reproduce the graph is C14's business
                graph = alt
            else:
                fm = dict(fm, graph="default")
        except Exception:  # noqa: BLE001
            fm = dict(fm, graph="default")
    V = G.V
    mk = frozenset if fm["sets"] == "frozenset" else set
    doms = case["domains"]
    ks = list(range(len(doms)))
    so = {_pop(TARGET + 1 + k): mk(V(w) for w in doms[k][1]) for k in _ordered(ks, fm["so_order"])}
    si = {_pop(TARGET + 1 + k): mk(V(z) for z in doms[k][0]) for k in _ordered(ks, fm["si_order"])}
    mal = case.get("malformed")
    if mal == "keys":
        si.pop(_pop(TARGET + len(doms)), None)            # the last domain has no experiment entry
    elif mal == "keys_extra":
        si[_pop(TARGET + 1 + len(doms))] = mk()           # an experiment entry for a domain without outcomes
    elif mal == "keys_renamed":
        si[_pop(TARGET + 1 + len(doms))] = si.pop(_pop(TARGET + len(doms)))   # same size, one key differs
    X, Y = mk(V(x) for x in case["X"]), mk(V(y) for y in case["Y"])
    return graph, X, Y, so, si, fm


def _run_identify(case):
    from y0.algorithm.identify import identify_outcomes
    from y0.algorithm.transport import identify_target_outcomes

    g = case["g"]
    V = G.V
    doms = case["domains"]
    graph, X, Y, so, si, fm = build_call(case)
    before = (_snapshot(graph), set(X), set(Y), [(k, set(v)) for k, v in so.items()], [(k, set(v)) for k, v in si.items()])
    log = _line_log()
    valid = _valid_identify(case)
    fail = None
    tags = {"kind": "identify", "n_nodes": len(G.all_nodes(g)), "n_domains": len(doms), "valid_input": valid,
            "stream": case.get("stream", "random"), "n_X": len(case["X"]), "n_Y": len(case["Y"])}
    tags.update(F.tags(fm))
    try:
        with recursion_guard():
            r = identify_target_outcomes(graph, target_outcomes=Y, target_interventions=X, surrogate_outcomes=so,
                                         surrogate_interventions=si)
    except RecursionError:
        r = None
        out = ["err", "internal"]
        fail = ("raised RecursionError (endless recursion: more than 250 nested frames on a graph with "
                f"{len(G.all_nodes(g))} nodes) on an input inside the quantifier (only 'no estimand' is allowed)") if valid else None
        tags["exception"] = "RecursionError"
    except Exception as e:  # noqa: BLE001
        cat = _classify_exception(e)
        out = ["err", cat]
        tags["exception"] = type(e).__name__
        if valid:
            fail = f"raised {type(e).__name__}: {str(e)[:120]} on an input inside the quantifier (only 'no estimand' is allowed)"
        elif cat != "invalid":
            fail = f"invalid input answered by {type(e).__name__} (not the documented ValueError)"
        r = None
    else:
        if not valid:
            fail = "invalid input (overlapping X/Y, name outside the graph or mismatching domain keys) was accepted"
        out = ["none"] if r is None else None
    lines = sorted(set(log.lines))
    tags["lines"] = ",".join(map(str, lines))
    for ln in lines:
        tags[f"line{ln}"] = True
    after = (_snapshot(graph), set(X), set(Y), [(k, set(v)) for k, v in so.items()], [(k, set(v)) for k, v in si.items()])
    if fail is None and before != after:
        fail = "the caller's graph / sets / dictionaries were modified by identify_target_outcomes"
    nontrivial = len(G.all_nodes(g)) >= 3 and bool(set(lines) & {4, 6, 9, 10})
    if out is None:
        enc = E.enc_expr(r)
        out = _sem_out(case, enc)
        tags["outcome"] = "estimand"
        tags["uses_source_domain"] = any(int(lf[1][1]) != TARGET for lf in FE.leaves(enc) if lf[0] == "PP")
        if valid and fail is None:
            fail = FE.vocabulary_violation(enc, G.all_nodes(g), doms)
            if fail:
                fail = "vocabulary: " + fail
        if valid and fail is None:
            for fam in _families(case):
                try:
                    val = fam.ev(enc)
                except FE.EvalError as e:
                    fail = f"estimand cannot be read on the declared distributions: {e}"
                    break
                truth = fam.effect(case["X"], case["Y"])
                if not fam.equal_everywhere(val, truth):
                    tags["estimand_wrong"] = True
                    fail = ("estimand differs from P*(y|do(x)): " + json.dumps(fam.first_difference(val, truth))
                            + " family " + json.dumps(fam.describe()) + " estimand " + str(r)[:400])
                    break
    else:
        tags["outcome"] = out[0] if out[0] != "err" else "err-" + out[1]
    # (e) on every identify case: the real get_nodes_to_transport of every declared domain vs the independent rule
    if valid and fail is None:
        from y0.algorithm.transport import get_nodes_to_transport
        for k, (Z, W) in enumerate(doms):
            try:
                got = {G.vint(v) for v in get_nodes_to_transport(surrogate_interventions={V(z) for z in Z},
                                                                 surrogate_outcomes={V(w) for w in W}, graph=graph)}
            except Exception as e:  # noqa: BLE001
                fail = f"get_nodes_to_transport raised {type(e).__name__} for domain {k + 1} (Z={Z}, W={W})"
                break
            exp = set(FE.nodes_may_differ(g, Z, W))
            if got != exp:
                fail = (f"domain {k + 1} (Z={sorted(Z)}, W={sorted(W)}): selection nodes placed at {sorted(got)}, the rule "
                        f"(De(Z)-W) u (C(W)-An(W) in G[bar Z]) gives {sorted(exp)}")
                tags["nodes_rule_violated"] = True
                break
    # (e2) the selection diagram the call derives for every declared domain = the graph plus one parentless selection node T_v -> v
    #      for exactly the variables the rule marks (get_nodes_to_transport alone is compared above; here: what is done with it)
    if valid and fail is None and doms:
        fail = _diagrams_fail(case, graph, X, Y, so, si)
        if fail:
            tags["diagram_rule_violated"] = True
    # (b) no usable surrogate experiment: verdict must be ID's
    if valid and fail is None and all(not Z for Z, _ in doms):
        tags["no_surrogate"] = True
        try:
            idr = identify_outcomes(graph, treatments=X, outcomes=Y)
        except Exception:  # ID's own crash is not C05's business
            idr = "?"
        if idr != "?" and (idr is None) != (out[0] == "none"):
            fail = (f"no surrogate experiment is usable, but TRSO returned {'no estimand' if out[0] == 'none' else 'an estimand'} "
                    f"while ID returned {'no estimand' if idr is None else str(idr)[:200]}")
    # (b') 'no estimand' although ID returns one.  From the second sentence of the property: either no declared experiment is usable -
    #      then the verdict must be ID's - or one is usable, and using it IS returning an estimand; in both readings 'no estimand'
    #      where ID has an estimand contradicts the statement (TRSO contains ID's lines 1-7 as its lines 1-4, 8-11)
    if valid and fail is None and out[0] == "none" and any(Z for Z, _ in doms):
        try:
            idr = identify_outcomes(graph, treatments=X, outcomes=Y)
        except Exception:  # ID's own crash is not C05's business
            idr = None
        if idr is not None:
            tags["none_but_id_identifies"] = True
            fail = ("TRSO returned no estimand although ID returns " + str(idr)[:200] + ": if no declared experiment is usable the "
                    "verdict must be ID's, and a usable one yields an estimand")
    return {"out": out, "fail": fail, "nontrivial": nontrivial, "tags": tags}


def _diagrams_fail(case, graph, X, Y, so, si):
    from y0.algorithm import transport as T
    stt = getattr(T, "surrogate_to_transport", None)
    if stt is None:
        return None
    g = case["g"]
    nodes = G.all_nodes(g)
    try:
        tq = stt(graph=graph, target_outcomes=set(Y), target_interventions=set(X), surrogate_outcomes=so, surrogate_interventions=si)
        graphs = tq.graphs
    except Exception as e:  # noqa: BLE001
        return f"surrogate_to_transport raised {type(e).__name__} on an input inside the quantifier"
    for k, (Z, W) in enumerate(case["domains"]):
        dg = graphs.get(_pop(TARGET + 1 + k))
        if dg is None:
            return f"no selection diagram was derived for domain {k + 1}"
        try:
            got = C.canon_graph(["graph", [str(G.vint(n)) for n in dg.nodes()],
                                 [[str(G.vint(u)), str(G.vint(v))] for u, v in dg.directed.edges()],
                                 [[str(G.vint(u)), str(G.vint(v))] for u, v in dg.undirected.edges()]])
        except Exception as e:  # noqa: BLE001
            return f"selection diagram of domain {k + 1} has a node that is neither a variable nor a selection node ({type(e).__name__})"
        S = sorted(FE.nodes_may_differ(g, Z, W))
        exp = C.canon_graph(["graph", [str(v) for v in nodes] + [str(200 + s) for s in S],
                             [[str(u), str(v)] for u, v in g["di"]] + [[str(200 + s), str(s)] for s in S],
                             [[str(u), str(v)] for u, v in g["bi"]]])
        if got != exp:
            return (f"selection diagram derived for domain {k + 1} (Z={sorted(Z)}, W={sorted(W)}) is not the graph plus one parentless "
                    f"selection node T_v -> v for v in {S} (the rule (De(Z)-W) u (C(W)-An(W) in G[bar Z])): got {json.dumps(got)[:300]}")
    return None


# ---- helpers -------------------------------------------------------------------------------------------------------

def _m_separated(nodes, di, bi, a, b, cond):
    """true m-separation by enumeration of simple paths (independent of y0)"""
    cond = set(cond)
    anc_cond = FE.ancestors(di, cond)
    marks = {}   # (u, v) -> set of (head_at_u, head_at_v)
    for u, v in di:
        marks.setdefault((u, v), set()).add((False, True))
        marks.setdefault((v, u), set()).add((True, False))
    for u, v in bi:
        marks.setdefault((u, v), set()).add((True, True))
        marks.setdefault((v, u), set()).add((True, True))
    nbrs = {}
    for (u, v) in marks:
        nbrs.setdefault(u, set()).add(v)

    def walk(path, head_in):
        cur = path[-1]
        if cur == b:
            return True
        for nxt in nbrs.get(cur, ()):
            if nxt in path:
                continue
            for (h_cur, h_nxt) in marks[(cur, nxt)]:
                if len(path) > 1:
                    collider = head_in and h_cur
                    if collider and cur not in anc_cond:
                        continue
                    if not collider and cur in cond:
                        continue
                if walk(path + [nxt], h_nxt):
                    return True
        return False
    if a in cond or b in cond:
        return True
    return not walk([a], False)


def _run_helper(case):
    from y0.algorithm import transport as T
    from y0.dsl import Variable

    op = case["kind"]
    g = case["g"]
    V = G.V
    fail = None
    nodes = G.all_nodes(g)
    tags = {"kind": op, "n_nodes": len(nodes)}
    try:
        if op == "nodes_to_transport":
            graph = _graph_of(g)
            r = T.get_nodes_to_transport(surrogate_interventions={V(z) for z in case["Z"]},
                                         surrogate_outcomes={V(w) for w in case["W"]}, graph=graph)
            out = ["ok", C.as_set([str(G.vint(v)) for v in r])]
            if set(case["Z"]) <= set(nodes) and set(case["W"]) <= set(nodes):
                exp = C.as_set([str(v) for v in FE.nodes_may_differ(g, case["Z"], case["W"])])
                if exp != out[1]:
                    fail = f"selection nodes placed at {out[1]}, the rule gives {exp}"
        elif op == "transport_diagram":
            graph = _graph_of(g)
            before = _snapshot(graph)
            r = T.create_transport_diagram(nodes_to_transport=[V(s) for s in case["S"]], graph=graph)
            enc = ["graph", [str(G.vint(n)) for n in r.nodes()], [[str(G.vint(u)), str(G.vint(v))] for u, v in r.directed.edges()],
                   [[str(G.vint(u)), str(G.vint(v))] for u, v in r.undirected.edges()]]
            out = ["ok", C.canon_graph(enc)]
            exp = C.canon_graph(["graph", [str(v) for v in nodes] + [str(200 + s) for s in case["S"]],
                                 [[str(u), str(v)] for u, v in g["di"]] + [[str(200 + s), str(s)] for s in case["S"]],
                                 [[str(u), str(v)] for u, v in g["bi"]]])
            if out[1] != exp:
                fail = "transport diagram differs from: graph + one selection node T_v -> v per marked v"
            if before != _snapshot(graph):
                fail = "create_transport_diagram modified its argument"
        elif op == "separated":
            gd = {"nodes": nodes + [200 + s for s in case["S"]], "di": g["di"] + [[200 + s, s] for s in case["S"]], "bi": g["bi"]}
            graph = _graph_of(gd)
            r = T.all_transports_d_separated(graph, target_interventions={V(x) for x in case["X"]},
                                             target_outcomes={V(y) for y in case["Y"]})
            out = ["ok", "true" if r else "false"]
            # independent: every selection node m-separated from every outcome given X in the diagram without edges into X
            Xs = set(case["X"])
            di2 = [tuple(e) for e in gd["di"] if e[1] not in Xs]
            bi2 = [tuple(e) for e in gd["bi"] if e[0] not in Xs and e[1] not in Xs]
            exp = all(_m_separated(G.all_nodes(gd), di2, bi2, 200 + s, y, Xs) for s in set(case["S"]) for y in case["Y"])
            if exp != bool(r):
                fail = f"line-6 separation test says {bool(r)}, true m-separation of the selection nodes from Y given X is {exp}"
        elif op in ("activate", "canonicalize", "mul", "truediv"):
            e = E.dec_expr(case["e"])
            if op == "canonicalize":
                from y0.mutate.canonicalize_expr import canonicalize
                r = canonicalize(e)
            elif op == "mul":
                r = e * E.dec_expr(case["e2"])
            elif op == "truediv":
                r = e / E.dec_expr(case["e2"])
            else:
                r = T.activate_domain_and_interventions(e, {V(z) for z in case["Z"]}, _pop(case["pop"]))
            enc = E.enc_expr(r)
            out = _sem_out(case, enc)
            if op == "activate":   # canonicalize / * / / are properties C10 / C13; here they only validate the model
                fail = _helper_semantics(case, op, enc)
        else:
            raise ValueError(op)
    except RecursionError:
        out = ["err", "internal"]
    except Exception as e:  # noqa: BLE001
        out = ["err", "internal"]
        tags["exception"] = type(e).__name__
    tags["outcome"] = out[0]
    return {"out": out, "fail": fail, "nontrivial": len(nodes) >= 3, "tags": tags}


def _shift(e, Z, pop):
    """what `activate` MEANS: the same term read in population `pop` under do(Z) (variables of Z leave the event:
    under do(z) they equal z with probability one)"""
    if e in ("one", "zero"):
        return e
    t = e[0]
    if t == "PP":
        iv = [[z, "m"] for z in sorted(Z)]
        f = lambda vs: [["v", v[1], v[2], "0", iv] for v in vs if int(v[1]) not in Z]  # noqa: E731
        ch = f(e[2])
        if not ch:
            return "one"
        return ["PP", E.plain(pop), ch, f(e[3])]
    if t == "prod":
        return ["prod"] + [_shift(x, Z, pop) for x in e[1:]]
    if t == "sum":
        return ["sum", e[1], _shift(e[2], Z, pop)]
    if t == "frac":
        return ["frac", _shift(e[1], Z, pop), _shift(e[2], Z, pop)]
    return e


def _helper_semantics(case, op, enc):
    """value of the result on a random family = value demanded by the meaning of the operation"""
    g = case["g"]
    nodes = G.all_nodes(g)
    if len(nodes) > 5 or len(g["bi"]) > 8:
        return None
    seed = case.get("eval_seed", 7)
    fam = FE.Family(g, {TARGET + 1: set(nodes), TARGET + 2: set(nodes)}, random.Random(seed))
    try:
        if op == "canonicalize":
            want = fam.ev(case["e"])
        elif op == "mul":
            want = fam.ev(case["e"]) * fam.ev(case["e2"])
        elif op == "truediv":
            want = fam._div(fam.ev(case["e"]), fam.ev(case["e2"]))
        else:
            want = fam.ev(_shift(case["e"], set(case["Z"]), case["pop"]))
        got = fam.ev(enc)
    except FE.EvalError:
        return None
    if not fam.equal_everywhere(got, want):
        return f"{op}: value of the result differs from the meaning of the operation: {json.dumps(fam.first_difference(got, want))}"
    return None


def _run_uses6(case):
    """Did the real run find a usable source domain at line 6 (trso_line6 returned a non-empty dict, or raised), and do TRSO and
    ID agree on the verdict?  The Lean predicate `identifyUsesLine6` over-approximates in one direction (it inspects every
    c-component of line 4, the Python loop stops at the first 'no estimand'), so the comparison (`Uses6Out.__eq__`) is:
    real-run-used => model-says-used, and model-says-unused => same verdict as ID (the conclusion of the theorem, on the real
    code).  Oracle clause (independent of the model): a run that never used line 6 must give ID's verdict (second sentence of C05)."""
    import y0.algorithm.transport as T
    from y0.algorithm.identify import identify_outcomes

    graph, X, Y, so, si, fm = build_call(case)
    valid = _valid_identify(case)
    used = []
    real = T.trso_line6

    def spy(query):
        try:
            r = real(query)
        except Exception:
            used.append("raised")
            raise
        if r:
            used.append(len(r))
        return r

    T.trso_line6 = spy
    try:
        try:
            with recursion_guard():
                r = T.identify_target_outcomes(graph, target_outcomes=Y, target_interventions=X, surrogate_outcomes=so,
                                               surrogate_interventions=si)
            tv = "none" if r is None else "estimand"
        except Exception as e:  # noqa: BLE001
            tv = "err-" + _classify_exception(e)
    finally:
        T.trso_line6 = real
    try:
        with recursion_guard():
            idr = identify_outcomes(graph, treatments=X, outcomes=Y)
        iv = "none" if idr is None else "estimand"
    except Exception:  # ID's own crash is not C05's business  # noqa: BLE001
        iv = "?"
    p = bool(used)
    fail = None
    if valid and not p and iv != "?" and tv in ("none", "estimand") and tv != iv:
        fail = (f"line 6 never found a usable source domain during the run (no surrogate experiment is usable), but TRSO returned "
                f"{'no estimand' if tv == 'none' else 'an estimand'} while ID returned {'no estimand' if iv == 'none' else 'an estimand'}")
    tags = {"kind": "uses6", "valid_input": valid, "line6_used": p, "trso": tv, "id": iv, "n_domains": len(case["domains"]),
            "n_nodes": len(G.all_nodes(case["g"]))}
    return {"out": ["uses6", valid, p, tv, iv], "fail": fail, "nontrivial": valid and len(G.all_nodes(case["g"])) >= 3, "tags": tags}


class Uses6Out(list):
    """model side of a `uses6` case: [x, m] with x = identifyUsesLine6x (EXACT: line 4 inspects a later component only if every
    earlier one returned an estimand, as the Python loop does) and m = identifyUsesLine6 (the over-approximation).  Equal to the
    Python's ["uses6", valid, p, tv, iv] when x => m, p => m (whatever the real run or the exact predicate saw, the
    over-approximation sees it) and (not x and the input is valid and both verdicts are known => tv == iv: the conclusion of
    trso_line6_unused_iff_id, on the real code)."""
    stats = {"both_used": 0, "both_unused": 0, "model_only": 0}

    def __ne__(self, other):
        return not self.__eq__(other)

    def __eq__(self, other):
        if not isinstance(other, list) or len(other) != 5 or other[0] != "uses6":
            return False
        _, valid, p, tv, iv = other
        x, m = bool(self[0]), bool(self[1])
        if (x or p) and not m:
            return False
        # (p == x is NOT demanded: which c-components line 4 visits before the first refusal depends on the iteration order of a
        # Python set of frozensets, which the model fixes as sorted order; the verdict does not depend on it.  Measured: 11 of 1500.)
        if valid and p != x:
            Uses6Out.stats["order_dependent"] = Uses6Out.stats.get("order_dependent", 0) + 1
        if valid and not x and iv != "?" and tv in ("none", "estimand") and tv != iv:
            return False
        Uses6Out.stats["both_used" if x else "both_unused" if not m else "model_only"] += 1
        return True

    __hash__ = None


def run_python(case):
    logging.getLogger("y0").setLevel(logging.CRITICAL)
    if case["kind"] == "identify":
        return _run_identify(case)
    if case["kind"] == "uses6":
        return _run_uses6(case)
    return _run_helper(case)


# ------------------------------------------------------------------------------------------------ model side

def request(case):
    k = case["kind"]
    g = case["g"]
    gs = C.graph_sexp(G.all_nodes(g), g["di"], g["bi"])
    if k in ("identify", "uses6"):
        so = [[TARGET + 1 + i, W] for i, (Z, W) in enumerate(case["domains"])]
        si = [[TARGET + 1 + i, Z] for i, (Z, W) in enumerate(case["domains"])]
        if case.get("malformed") == "keys":
            si = si[:-1]
        elif case.get("malformed") == "keys_extra":
            si = si + [[TARGET + 1 + len(si), []]]
        elif case.get("malformed") == "keys_renamed":
            si = si[:-1] + [[TARGET + 1 + len(si), si[-1][1]]]
        return C.enc(["transport", "identify" if k == "identify" else "uses_line6", gs, case["Y"], case["X"], so, si])
    if k == "nodes_to_transport":
        return C.enc(["transport", k, gs, case["Z"], case["W"]])
    if k == "transport_diagram":
        return C.enc(["transport", k, gs, case["S"]])
    if k == "separated":
        S = case["S"]
        gd = C.graph_sexp(G.all_nodes(g) + [200 + s for s in S], g["di"] + [[200 + s, s] for s in S], g["bi"])
        return C.enc(["transport", k, gd, case["X"], case["Y"]])
    if k == "activate":
        return C.enc(["transport", k, case["e"], case["Z"], case["pop"]])
    if k == "canonicalize":
        return C.enc(["transport", k, case["e"]])
    if k in ("mul", "truediv"):
        return C.enc(["transport", k, case["e"], case["e2"]])
    raise ValueError(k)


class SemOut(list):
    """model output of an estimand: equal to the Python's when the exact value tables agree (structure is recorded)"""
    stats = {"structural": 0, "semantic_only": 0, "value_mismatch": 0}

    def __ne__(self, other):
        return not self.__eq__(other)

    def __eq__(self, other):
        if not isinstance(other, list) or len(other) != 3 or other[0] != "ok":
            return False
        if list(self[2]) == list(other[2]):
            SemOut.stats["structural"] += 1
            return True
        if self[1] == other[1] and not str(self[1]).startswith("evalerr"):
            SemOut.stats["semantic_only"] += 1
            return True
        SemOut.stats["value_mismatch"] += 1
        return False

    __hash__ = None


def canon_model(case, rep):
    k = case["kind"]
    if k == "uses6":
        tr = lambda v: str(v) in ("true", "True")   # noqa: E731
        return Uses6Out([rep[0] == "ok" and tr(rep[1]), rep[0] == "ok" and tr(rep[2])])
    if rep[0] == "err":
        return ["err", "invalid" if rep[1] == "invalid" else "internal"]
    if rep[0] == "none":
        return ["none"]
    body = rep[1]
    if k == "identify":
        return SemOut(_sem_out(case, body))
    if k == "nodes_to_transport":
        return ["ok", C.as_set(list(body))]
    if k == "transport_diagram":
        return ["ok", C.canon_graph(body)]
    if k == "separated":
        return ["ok", body]
    return SemOut(_sem_out(case, body))


def shrink(case):
    if case["kind"] != "identify":
        for g in G.shrink_graph(case["g"]):
            live = set(G.all_nodes(g))
            c = dict(case)
            c["g"] = g
            if case["kind"] in ("activate", "canonicalize", "mul", "truediv"):
                continue
            for key in ("Z", "W", "S", "X", "Y"):
                if key in c:
                    c[key] = [v for v in c[key] if v in live]
            yield c
        return
    for g in G.shrink_graph(case["g"]):
        live = set(G.all_nodes(g))
        c = dict(case)
        c["g"] = g
        c["X"] = [v for v in case["X"] if v in live]
        c["Y"] = [v for v in case["Y"] if v in live]
        c["domains"] = [[[v for v in Z if v in live], [v for v in W if v in live]] for Z, W in case["domains"]]
        if c["X"] and c["Y"]:
            yield c
    for k in range(len(case["domains"])):
        c = dict(case)
        c["domains"] = case["domains"][:k] + case["domains"][k + 1:]
        yield c
    for k, (Z, W) in enumerate(case["domains"]):
        for j in range(len(Z)):
            c = dict(case)
            c["domains"] = [list(d) for d in case["domains"]]
            c["domains"][k] = [Z[:j] + Z[j + 1:], W]
            yield c
        for j in range(len(W)):
            c = dict(case)
            c["domains"] = [list(d) for d in case["domains"]]
            c["domains"][k] = [Z, W[:j] + W[j + 1:]]
            yield c
    for key in ("X", "Y"):
        if len(case[key]) > 1:
            for j in range(len(case[key])):
                c = dict(case)
                c[key] = case[key][:j] + case[key][j + 1:]
                yield c


def finding_key(case, res):
    c = {k: case[k] for k in ("kind", "X", "Y", "domains", "Z", "W", "S", "e", "e2", "pop", "malformed") if k in case}
    g = case["g"]
    c["g"] = {"nodes": sorted(G.all_nodes(g)), "di": sorted(map(list, g["di"])), "bi": sorted(sorted(e) for e in g["bi"])}
    for k in ("X", "Y", "Z", "W", "S"):
        if k in c:
            c[k] = sorted(c[k])
    return json.dumps(c, sort_keys=True)


def _report():
    u = Uses6Out.stats
    if sum(u.values()):
        print(f"[C05] uses6 (hypothesis of trso_no_usable_surrogate_iff_id on the real run): used by both={u['both_used']} "
              f"unused by both={u['both_unused']} over-approximation only (identifyUsesLine6 true, exact predicate false)={u['model_only']} real run and exact predicate differ (set iteration order at line 4)={u.get('order_dependent', 0)}", file=sys.stderr)
    s = SemOut.stats
    if sum(s.values()):
        print(f"[C05] estimand correspondence: structural={s['structural']} semantic_only={s['semantic_only']} "
              f"value_mismatch={s['value_mismatch']}", file=sys.stderr)


import atexit  # noqa: E402

atexit.register(_report)

MANIFEST = {
    "text": ("Proof (for the executable model). Lean theorems about the executable model of transport.py (Y0.Model.Trso / TrDsl, tied to the code "
             "by the correspondence check on every run; 27 theorems in Props/C05 + 25 in Props/C05Usable + 19 in Props/C06Transport): "
             "(0) SOUNDNESS (trso_sound, full strength): whenever identify_target_outcomes returns an estimand, its value in "
             "every family of positive semi-Markovian models compatible with the derived selection diagrams, with pi* leaves "
             "read in the target model and PP[d](.. @ z) leaves read in the model of domain d under do(z), is the target P*(y|do(x)) "
             "at every assignment - for every run, any number of source experiments at any depth. Proof: recursion "
             "invariant: the carried expression denotes the c-factor Q[V_cur] of the current domain model (lines 1-4, 9, 10 "
             "by the c-factor lemmas of Tian and Pearl), denotation lemmas for every dsl.py operator the run uses including canonicalize and "
             "Fraction.simplify (cancellation is sound by positivity), inside a source domain every leaf is read as what "
             "activate_domain_and_interventions turns it into, and line 6 is the transport step: a positive separation test "
             "means no variable of V_cur - X carries a selection node, so Q[V_cur - X] consists of shared mechanisms; that the "
             "canonical product of line 10 is never again a bare joint is shown in a coin model of the family class; "
             "(1) totality and error taxonomy - every outcome of the recursion is an estimand, 'no estimand' or an INTERNAL "
             "error (trsoF_error_internal); identify_target_outcomes raises the documented ValueError exactly on invalid "
             "input (identify_invalid_iff, identify_trichotomy); "
             "(1b) 'never fails other than by no estimand': PROVED for ALL validated inputs (trso_no_internal_error): no exception "
             "of any kind. Intermediate results: trso_no_internal_error_partial (no declared experiment, any separation test) and "
             "trso_only_activate_error_partial (the only exception that could remain is the NotImplementedError of "
             "activate_domain_and_interventions on One()); that one is excluded by a shape invariant of source-domain runs "
             "(no One(), no Sum over all children of a joint, no fraction with parts of equal value) proved with the values the "
             "coin family gives every sub-expression; every look-up, ancestor computation, separation test, "
             "topological sort, index and expression operator succeeds, and the recursion budget exceeds a lexicographic "
             "measure that decreases at every call (invariants: node sets preserved, selection nodes parentless, after "
             "line 6 every child of a selection node is a target intervention - from the positive separation test); "
             "(1c) with no declared surrogate experiment TRSO returns an estimand exactly when ID does, and 'no estimand' "
             "exactly when ID refuses (trso_no_surrogate_iff_id_partial, trso_no_surrogate_none_iff_id_partial: lock-step "
             "simulation with the ID model of C01/C02), and both estimands denote P(Y|do(X)) in every compatible model "
             "(trso_sound_no_surrogate, trso_no_surrogate_den_eq_id); "
             "(2) selection diagrams - create_transport_diagram adds exactly one parentless selection node T_v -> v per marked "
             "variable and nothing else; get_nodes_to_transport returns exactly (De(Z)-W) u (C(W)-An(W) in G[bar Z]) and is "
             "defined whenever Z, W are inside the graph; "
             "(3) vocabulary, the transport clause of C06 (trso_vocab) - every leaf of a returned estimand is a target "
             "observational term over plain variables or a term of a DECLARED source domain whose variables all carry the "
             "same non-empty subscript set, a subset of that domain's declared experiments; no leaf and no Sum range mentions "
             "a selection node; without declared experiments only target terms occur (trso_no_domains_target_only); "
             "(4) semantics - Sum.safe denotes the iterated sum and line 1 is marginalisation of the carried distribution "
             "(den_sumSafe, line1_den). (5) NO USABLE EXPERIMENT (Props/C05Usable, session 4): identifyUsesLine6 (Model/TrsoUse) is an executable "
             "predicate that follows the run and says whether line 6 finds a usable source domain at some state; when it is false "
             "TRSO's run equals the run with every declared experiment forgotten (trsoF_clearSurr), hence TRSO returns an estimand "
             "iff ID does, 'no estimand' iff ID raises Unidentifiable, never fails otherwise, and its estimand denotes P(Y|do(X)) and "
             "equals ID's in every compatible model (trso_no_usable_surrogate_iff_id, _none_iff_id, _no_error, "
             "trso_sound_no_usable_surrogate, trso_no_usable_surrogate_den_eq_id); the `_partial` theorems (no experiment DECLARED) "
             "are the special case identifyUsesLine6_of_no_declared; a bow graph with an experiment on the treatment shows the "
             "hypothesis cannot be dropped; the EXACT predicate identifyUsesLine6x (line 4 inspects a later c-component only if every earlier "
             "one returned an estimand, as the Python loop does) gives the same five theorems under the weaker hypothesis "
             "(trso_line6_unused_iff_id, ..., usesLine6x_le), and the vocabulary half of the clause: when line 6 is never used the estimand reads "
             "the target observational distribution only (trso_line6_unused_target_only, generalising trso_no_domains_target_only). Both predicates are tied to the real run on every check (stream `uses6`: a "
             "spy on trso_line6; whatever the real run or the exact predicate sees the over-approximation sees, and whenever the exact "
             "predicate is false TRSO's and ID's real verdicts agree; the real run and the exact predicate themselves can differ "
             "because line 4 walks a Python set of frozensets). All clauses are also decided on every run by the correspondence plus the "
             "exact-rational multi-domain oracle, which evaluates every returned estimand at every value assignment on two "
             "random compatible families, by an independent re-computation of get_nodes_to_transport for every declared "
             "domain of every case, by comparison with identify_outcomes on every no-surrogate case, and by treating "
             "any exception on valid input as a violation. Four defects found by this check were repaired on branch "
             "fix-transport (known_findings.jsonl); their witnesses stay in the corpus."),
    "note": ("Trusted: Lean kernel; axioms propext/Classical.choice/Quot.sound; the hand-written models of transport.py, of the "
             "dsl.py constructors it calls and of canonicalize, tied to the code by sampling (estimands compared "
             "structurally, then by exact evaluation because Python iterates hash-ordered sets and because the DSL's "
             "tie-breaking is the `expr` family's subject); Spec/Scm + Spec/FamilySpec (what a compatible family is); the rule "
             "placing selection nodes is the paper's as restated in the docstring; are_d_separated is modelled as the "
             "moralisation test (for TRSO's calls - conditioning on X in the graph without edges into X - it coincides with "
             "m-separation, checked against path enumeration on every run)."),
    "technique": ("Lean 4 theorems (induction on the recursion budget, syntactic invariants of the DSL constructors, "
                  "set-theoretic characterisation via the C14 graph lemmas) + differential correspondence with the real "
                  "identify_target_outcomes + exact-rational multi-domain SCM oracle + m-separation by path enumeration + "
                  "comparison with identify_outcomes"),
}
