"""C20 — sigma-separation agrees with d-separation on acyclic graphs; symmetric; adjacent nodes never separated.

Correspondence: `are_sigma_separated` (verdict or error category) real code vs Lean model `Y0.Model.Sigma`
(`MG.sigmaSeparated`), single queries and whole verdict tables; `get_equivalence_classes`; `is_z_sigma_open` on given
paths.
Oracle (from the property statement): on ADMGs the verdict must equal d-separation in the canonical latent DAG
(brute-force d-connecting path enumeration + networkx.is_d_separator, the C04 oracle); on every mixed graph (cycles,
self-loops, parallel edges included) the verdict for (a, b) must equal the verdict for (b, a), and two distinct nodes
joined by an edge, neither of them conditioned on, must never be reported separated.
"""
from __future__ import annotations

import itertools as itt
import json
import random

from .. import common as C
from .. import forms as F
from .. import gen_graph as G
from ..oracles import sep_paths as O
from . import c04 as C4
from .c04 import rand_admg, rand_query, table_order, structured_query, with_names

PROP = "C20"
RULE = ("ADMGs (2-6 nodes; parallel directed+bidirected pairs, bidirected chains, colliders with conditioned descendants at "
        "distance 1, 2, 3; single long connecting paths of 5-8 edges, open or closed at one place, with cutoff omitted or None) and cyclic directed mixed graphs (2-5 nodes, self-loops) x ordered pairs x conditioning sets; whole "
        "verdict tables on <=4 nodes (thorough: every mixed graph on <=3 nodes, cyclic ones included); a malformed stream "
        "(endpoint not in graph, endpoint conditioned on, a == b, condition not in graph). Non-trivial: in scope of the "
        "agreement clause with a non-empty conditioning set or a bidirected edge that matters, or a cyclic graph with adjacent "
        "or connected endpoints.  Added by sepG (gap review round 5; tags shape / collider_depth / anc_depth / scc_decisive / "
        "cyc_n_nodes / cutoff_int / names count them): the structured acyclic shapes of C04 (colliders opened only by a conditioned "
        "descendant 0-5 steps below, also two in a row; long forks; bidirected chains of 3-5 colliders; fully conditioned districts; "
        "sparse 7-8 node ADMGs; disconnected graphs); cyclic graphs built around one or two directed cycles with the endpoints on "
        "tails (never adjacent; 5-12 nodes; conditioned cycle nodes, bidirected chords, up to two self-loops) and sparse random "
        "cyclic graphs on 5-7 nodes with non-adjacent endpoints, where the strongly-connected-component rule decides verdicts "
        "(scc_decisive: the verdict differs from the one with singleton classes); cutoff as an INTEGER n-1, n or n+3 (no simple path "
        "is longer), different for the query and the swapped query; whole tables of 5-6 node structured graphs; the mixed-name and "
        "counterfactual-node name tables of C04.")
ASSUMPTIONS = [
    "cutoff: the model has no cut-off; the real code is called with cutoff omitted, None, or an integer >= n-1 (n = number of nodes), for which the documented meaning ('maximum path length to check') makes the verdict equal to the unbounded one. Smaller cut-offs are outside the property (a runtime clause: correspondence + symmetry / adjacency / agreement oracle under these values)",
    "node names: as in C04 (order-preserving tables A00.., mixed lengths / case, counterfactual-variable nodes); runtime clause",
    "argument FORMS (harness/forms.py; chosen deterministically per case, stored in the case, tagged form_*): the conditioning set in every iterable form (list / tuple / set / frozenset / dict keys / generator / iterator / map; empty also as None or omitted), a different form for the swapped query; cutoff omitted or None; graph / left / right positional or by keyword; the graph through every public constructor of NxMixedGraph. The model takes lists: independence of the form is a runtime clause decided by correspondence + oracle",
    "adjacency clause is read with both endpoints outside the conditioning set (a path with a conditioned endpoint is closed by "
    "the definition of Z-sigma-open; the code answers 'separated' there and the theorem sigma_endpoint_conditioned says so)",
    "agreement is proved against m-connecting paths / d-connection in the canonical latent DAG (Spec/SepSpec.lean); that these "
    "imply conditional independence in compatible models is the clause left OPEN in C04",
    "nx.all_simple_paths is modelled as a depth-first enumeration of simple paths; the order of enumeration is irrelevant to the "
    "verdict (any); Python set iteration order over backtrack neighbours likewise",
]
EXHAUSTIVE = {"quick": False, "thorough": True}
LEANCHECK_MODULES = ["Y0.Model.Sigma", "Y0.Props.C20"]

CORPUS = [
    # F9a witness: B->A, A->C, A<->C, B<->A ; B vs C given {}   (A=0, B=1, C=2): B->A->C is open
    {"kind": "one", "g": {"nodes": [], "di": [[1, 0], [0, 2]], "bi": [[0, 2], [1, 0]]}, "a": 1, "b": 2, "C": []},
    # minimal parallel pair: A->C with A<->C, B->A
    {"kind": "one", "g": {"nodes": [], "di": [[1, 0], [0, 2]], "bi": [[0, 2]]}, "a": 1, "b": 2, "C": []},
    # F9b witness: collider B->A<-C with descendant chain A->D->E, given E (distance 2)
    {"kind": "one", "g": {"nodes": [], "di": [[1, 0], [2, 0], [0, 3], [3, 4]], "bi": []}, "a": 1, "b": 2, "C": [4]},
    # distance 1 (the backtrack augmentation handles this one) and distance 3
    {"kind": "one", "g": {"nodes": [], "di": [[1, 0], [2, 0], [0, 3]], "bi": []}, "a": 1, "b": 2, "C": [3]},
    {"kind": "one", "g": {"nodes": [], "di": [[1, 0], [2, 0], [0, 3], [3, 4], [4, 5]], "bi": []}, "a": 1, "b": 2, "C": [5]},
    # Forre & Mooij style cycle: 0->1->2->0 (one strongly connected component), 3->0, 2->4
    {"kind": "one", "g": {"nodes": [], "di": [[0, 1], [1, 2], [2, 0], [3, 0], [2, 4]], "bi": []}, "a": 3, "b": 4, "C": [1]},
    {"kind": "one", "g": {"nodes": [], "di": [[0, 1], [1, 2], [2, 0], [3, 0], [2, 4]], "bi": []}, "a": 4, "b": 3, "C": [1]},
    {"kind": "table", "g": {"nodes": [], "di": [[0, 1], [1, 2], [2, 0], [3, 0]], "bi": [[2, 3]]}},
    # adjacency with a conditioned neighbour, self-loop
    {"kind": "one", "g": {"nodes": [], "di": [[0, 1], [1, 1]], "bi": [[0, 1]]}, "a": 0, "b": 1, "C": []},
    # malformed
    {"kind": "one", "g": {"nodes": [0, 1], "di": [[0, 1]], "bi": []}, "a": 0, "b": 7, "C": []},
    {"kind": "one", "g": {"nodes": [0, 1], "di": [[0, 1]], "bi": []}, "a": 7, "b": 0, "C": []},
    {"kind": "one", "g": {"nodes": [0, 1], "di": [[0, 1]], "bi": []}, "a": 0, "b": 1, "C": [0]},
    {"kind": "one", "g": {"nodes": [0, 1], "di": [[0, 1]], "bi": []}, "a": 0, "b": 0, "C": []},
    {"kind": "one", "g": {"nodes": [0, 1], "di": [[0, 1]], "bi": []}, "a": 0, "b": 1, "C": [9]},
    {"kind": "classes", "g": {"nodes": [5], "di": [[0, 1], [1, 2], [2, 0], [3, 0], [2, 4]], "bi": [[3, 4]]}},
]


def rand_collider_chain(rng):
    """collider with a conditioned descendant at distance d in {0,1,2,3}, optionally through bidirected edges"""
    d = rng.randint(0, 3)
    g = {"nodes": [], "di": [], "bi": []}
    kinds = [rng.choice(["di", "bi"]) for _ in range(2)]
    for k, src in zip(kinds, (1, 2)):
        (g["di"] if k == "di" else g["bi"]).append([src, 0])
    prev = 0
    nxt = 3
    for _ in range(d):
        g["di"].append([prev, nxt])
        prev = nxt
        nxt += 1
    if rng.random() < 0.4:   # noise
        u, v = rng.sample(range(nxt), 2)
        if u < v and [u, v] not in g["di"]:
            g["di"].append([min(u, v), max(u, v)]) if min(u, v) != 0 or max(u, v) > 2 else None
    rng.shuffle(g["di"])
    return g, 1, 2, [prev]


def rand_long_path(rng):
    """ONE long connecting path (5-8 edges, each ->, <- or <->, labels shuffled) and little else: the conditioning set is
    chosen so that the path is open (every collider or one of its descendants conditioned, no other node) or closed at
    exactly one place.  The only connection between the endpoints is longer than any small default path-length cut-off."""
    k = rng.randint(5, 8)
    lab = list(range(k + 1 + 2))
    rng.shuffle(lab)
    p, x1, x2 = lab[:k + 1], lab[k + 1], lab[k + 2]
    kinds = [rng.choice(["fwd", "fwd", "back", "back", "bi"]) for _ in range(k)]
    g = {"nodes": [], "di": [], "bi": []}
    head_at = [set() for _ in range(k + 1)]         # which of its two path edges have an arrowhead at node i
    for i, kind in enumerate(kinds):
        u, w = p[i], p[i + 1]
        if kind == "fwd":
            g["di"].append([u, w])
            head_at[i + 1].add(i)
        elif kind == "back":
            g["di"].append([w, u])
            head_at[i].add(i)
        else:
            g["bi"].append([u, w] if rng.random() < 0.5 else [w, u])
            head_at[i].add(i)
            head_at[i + 1].add(i)
    colliders = [i for i in range(1, k) if len(head_at[i]) == 2]
    Cs = []
    pend = [x1, x2]
    for i in colliders:
        if pend and rng.random() < 0.4:     # condition on a fresh child of the collider instead of the collider
            c = pend.pop()
            g["di"].append([p[i], c])
            Cs.append(c)
        else:
            Cs.append(p[i])
    r = rng.random()
    inner = [i for i in range(1, k)]
    if r < 0.25 and colliders:
        Cs.remove(Cs[rng.randrange(len(Cs))])                 # closed: one collider left unconditioned
    elif r < 0.4:
        noncoll = [i for i in inner if i not in colliders]
        if noncoll:
            Cs.append(p[rng.choice(noncoll)])                 # closed: a non-collider conditioned
    rng.shuffle(g["di"])
    rng.shuffle(g["bi"])
    rng.shuffle(Cs)
    a, b = (p[0], p[-1]) if rng.random() < 0.5 else (p[-1], p[0])
    return g, a, b, Cs


def rand_cycle_tails(rng):
    """(sepG, gap review G20-2/3) cyclic graphs in which the strongly-connected-component rule can DECIDE the verdict: one
    directed cycle of 3-5 nodes (optionally a second cycle hanging off the first through a bridge node), the two endpoints on
    tails of 1-2 edges into / out of / bidirected to a cycle node - so they are never adjacent -, optional bidirected chord,
    up to two self-loops; C = a non-empty random subset of the cycle nodes (sometimes plus a tail / bridge node).  A
    conditioned cycle node blocks a route only where the route LEAVES its component (sigma-blocking), which is where
    sigma-separation and d-separation read the same graph differently.  n = 5..10."""
    B = C4._B()
    L = rng.choice([3, 3, 4, 4, 5])
    cyc = [B.new() for _ in range(L)]
    for i in range(L):
        B.di.append([cyc[i], cyc[(i + 1) % L]])
    second = []
    bridge = []
    if rng.random() < 0.3:
        L2 = rng.choice([2, 3, 3])
        second = [B.new() for _ in range(L2)]
        for i in range(L2):
            B.di.append([second[i], second[(i + 1) % L2]])
        src = rng.choice(cyc)
        if rng.random() < 0.6:
            m = B.new()
            bridge = [m]
            B.di.append([src, m])
            B.di.append([m, second[0]])
        else:
            B.di.append([src, second[0]])

    def tail(onto):
        """an endpoint hanging on `onto` through 1-2 edges; returns (endpoint, inner tail nodes)"""
        kind = rng.choice(["in", "in", "out", "out", "bi"])
        inner = []
        cur = onto
        steps = rng.choice([1, 1, 2])
        for k in range(steps):
            x = B.new()
            if kind == "in":
                B.di.append([x, cur])
            elif kind == "out":
                B.di.append([cur, x])
            else:
                (B.bi if k == 0 else B.di).append([x, cur])
            if k < steps - 1:
                inner.append(x)
            cur = x
        return cur, inner
    a, ia = tail(rng.choice(cyc))
    b, ib = tail(rng.choice(second if second and rng.random() < 0.8 else cyc))
    if rng.random() < 0.3:
        u, v = rng.sample(cyc + second + ia + ib, 2)
        if [u, v] not in B.di and [v, u] not in B.di:
            B.bi.append([u, v])
    for _ in range(rng.choice([0, 0, 0, 1, 2])):
        v = rng.randrange(B.n)
        if [v, v] not in B.di:
            B.di.append([v, v])
    pool = cyc + second
    Cs = [v for v in pool if rng.random() < rng.choice([0.3, 0.5, 0.8])] or [rng.choice(pool)]
    if rng.random() < 0.25 and ia + ib + bridge:
        Cs.append(rng.choice(ia + ib + bridge))
    if rng.random() < 0.07:
        Cs = []
    return B.finish(rng, a, b, Cs, "cycle_tails" + ("2" if second else ""))


COND_FORMS = F.CONTAINERS
EMPTY_FORMS = F.CONTAINERS + ("none", "omitted", "none", "omitted")


def _slots(case):
    if case["kind"] == "one":
        e = EMPTY_FORMS if not case["C"] else COND_FORMS
        return {"conditions": e, "conditions_swapped": e, "ctor": F.CTORS, "call": ("positional", "keyword"),
                "cutoff": ("omitted", "none", "omitted", "none", "n-1", "n", "n+3")}
    return {"ctor": F.CTORS}


def _forms(case):
    return F.forms_of(case, _slots(case))


def _graph(case):
    g = case["g"]
    ctor = _forms(case)["ctor"]
    if case.get("names") == "cf" and any(u == v for u, v in g["bi"]):
        return None, None
    return C4.build_graph(g, ctor, 3 * len(g["di"]) + len(g["bi"]), case.get("names"))


_V, _vint = C4._V, C4._vint


def _cell_form(a, b, Cs):
    opts = COND_FORMS if Cs else EMPTY_FORMS
    return opts[(5 * a + 3 * b + 11 * len(Cs) + sum(Cs)) % len(opts)]


def rand_hamiltonian_path(rng):
    """the ONLY connection between the endpoints is an open path through EVERY node of the graph (4-7 edges of random kinds,
    every collider conditioned itself, nothing else): its length n-1 is the largest a simple path can have, so an integer
    cut-off of exactly n-1 must still find it"""
    k = rng.randint(4, 7)
    lab = list(range(k + 1))
    rng.shuffle(lab)
    g = {"nodes": [], "di": [], "bi": []}
    head = [set() for _ in range(k + 1)]
    for i in range(k):
        kind = rng.choice(["fwd", "fwd", "back", "back", "bi"])
        u, w = lab[i], lab[i + 1]
        if kind == "fwd":
            g["di"].append([u, w]); head[i + 1].add(i)
        elif kind == "back":
            g["di"].append([w, u]); head[i].add(i)
        else:
            g["bi"].append([u, w]); head[i].add(i); head[i + 1].add(i)
    Cs = [lab[i] for i in range(1, k) if len(head[i]) == 2]
    rng.shuffle(g["di"]), rng.shuffle(g["bi"]), rng.shuffle(Cs)
    a, b = (lab[0], lab[-1]) if rng.random() < 0.5 else (lab[-1], lab[0])
    return g, a, b, Cs


def cases(rng: random.Random, tier: str):
    out = []
    for c in _cases(rng, tier):
        force = c.pop("force_cutoff", None)
        F.assign(c, _slots(c))
        if force:
            c["forms"]["cutoff"] = force
        out.append(c)
    return out


def _cases(rng: random.Random, tier: str):
    out = [dict(c) for c in CORPUS] + _load_corpus()
    for _ in range(6600 if tier == "quick" else 44000):
        r = rng.random()
        if r < 0.12:
            g, a, b, Cs = rand_collider_chain(rng)
        elif r < 0.16:
            g, a, b, Cs = rand_long_path(rng)
        elif r < 0.30:
            # the structured acyclic shapes of C04 (colliders opened 0-5 steps below, long forks, long bidirected chains,
            # fully conditioned districts, sparse 7-10 node graphs, disconnected graphs)
            g, a, b, Cs, shape = structured_query(rng)
            if shape == "sparse_big" and len(G.all_nodes(g)) > 8:
                continue
        elif r < 0.62:
            g = rand_admg(rng, 2, 6)
            a, b, Cs = rand_query(rng, g)
        elif r < 0.74:
            g, a, b, Cs, shape = rand_cycle_tails(rng)
        elif r < 0.80:
            # sparse cyclic graphs on 5-7 nodes, endpoints NOT adjacent
            g = G.rand_graph(rng, 5, 7, acyclic=False, pd=rng.choice([0.15, 0.2, 0.3]), pb=rng.choice([0.0, 0.1, 0.2]))
            V = G.all_nodes(g)
            pairs = [(x, y) for x in V for y in V if x != y and not _adjacent(g, x, y)]
            if not pairs or O.is_acyclic(g):
                continue
            a, b = rng.choice(pairs)
            Cs = [v for v in V if v not in (a, b) and rng.random() < rng.choice([0.2, 0.4, 0.6])]
            shape = "cyclic_sparse"
        else:
            g = G.rand_graph(rng, 2, 5, acyclic=False, pd=rng.choice([0.3, 0.5, 0.7]))
            V = G.all_nodes(g)
            if len(V) < 2:
                continue
            a, b = rng.sample(V, 2)
            Cs = [v for v in V if v not in (a, b) and rng.random() < rng.choice([0.0, 0.3, 0.6])]
        c = {"kind": "one", "g": g, "a": a, "b": b, "C": Cs}
        if r >= 0.16 and r < 0.30 or r >= 0.62 and r < 0.80:
            c["shape"] = shape
        out.append(with_names(rng, c))
    for _ in range(80 if tier == "quick" else 500):      # one open path through every node, cut-off exactly n-1 (or n)
        g, a, b, Cs = rand_hamiltonian_path(rng)
        out.append({"kind": "one", "g": g, "a": a, "b": b, "C": Cs, "shape": "hamiltonian_path",
                    "force_cutoff": rng.choice(["n-1", "n-1", "n"])})
    for _ in range(100 if tier == "quick" else 800):     # malformed
        g = G.rand_graph(rng, 1, 5, acyclic=rng.random() < 0.5)
        V = G.all_nodes(g)
        if not V:
            continue
        a, b = rng.choice(V), rng.choice(V)
        Cs = G.rand_subset(rng, V, p=rng.choice([0.0, 0.3, 0.6]), allow_outside=0.2)
        r = rng.random()
        if r < 0.2:
            a = 90
        elif r < 0.4:
            b = 91
        out.append({"kind": "one", "g": g, "a": a, "b": b, "C": Cs})
    for _ in range(180 if tier == "quick" else 1500):
        g = rand_admg(rng, 2, 4) if rng.random() < 0.5 else G.rand_graph(rng, 2, 4, acyclic=False)
        out.append(with_names(rng, {"kind": "table", "g": g}, 0.05, 0.05))
    # whole tables of the structured graphs on 5-6 nodes (cyclic with tails, deep colliders, forks, chains, districts)
    k = 0
    while k < (16 if tier == "quick" else 200):
        if rng.random() < 0.5:
            g, _, _, _, shape = rand_cycle_tails(rng)
        else:
            g, _, _, _, shape = structured_query(rng, only=("deep_path", "long_fork", "bidirected_chain", "married_parents"))
        if 5 <= len(G.all_nodes(g)) <= 6:
            out.append({"kind": "table", "g": g, "shape": shape.split(":")[0]})
            k += 1
    for _ in range(40 if tier == "quick" else 300):
        out.append(with_names(rng, {"kind": "classes", "g": G.rand_graph(rng, 0, 6, acyclic=rng.random() < 0.3)}, 0.1, 0.1))
    for _ in range(20 if tier == "quick" else 150):
        g, _, _, _, _ = rand_cycle_tails(rng)
        out.append({"kind": "classes", "g": g, "shape": "cycle_tails"})
    if tier == "thorough":
        for k in (2, 3):
            for g in G.enumerate_graphs(k, cyclic=True):
                out.append({"kind": "table", "g": g})
    return out


def _load_corpus():
    import os
    d = C.VERIF / "corpus" / PROP
    out = []
    if d.is_dir():
        for f in sorted(os.listdir(d)):
            if f.endswith(".json"):
                c = json.loads((d / f).read_text())
                out.append(c.get("case", c))
    return out


# ------------------------------------------------------------------------------------------ real code

def _call(graph, a, b, Cs, form="list", kw=False, cutoff="omitted"):
    import networkx as nx
    from y0.algorithm.separation.sigma_separation import are_sigma_separated

    kwargs = {}
    if form != "omitted":
        kwargs["conditions"] = None if form == "none" else F.container([_V(c) for c in Cs], form)
    if cutoff == "none":
        kwargs["cutoff"] = None
    elif cutoff != "omitted":
        # an explicit integer cut-off that no simple path can exceed (a simple path has at most n-1 edges): the verdict must
        # be the unbounded one
        kwargs["cutoff"] = len(graph.nodes()) + {"n-1": -1, "n": 0, "n+3": 3}[cutoff]
    try:
        if kw:
            r = are_sigma_separated(graph=graph, left=_V(a), right=_V(b), **kwargs)
        else:
            r = are_sigma_separated(graph, _V(a), _V(b), **kwargs)
        return ["ok", "true" if r else "false"]
    except Exception:  # noqa: BLE001 - whatever the class: an error outcome of the real code, never a harness error
        return ["err"]


def _adjacent(g, a, b):
    return a != b and any(set(e) == {a, b} for e in g["di"] + g["bi"])


def _trivial_sigma_verdict(graph, a, b, Cs):
    """MEASUREMENT for the tags only: the verdict with every equivalence class replaced by a singleton (d-blocking);
    where it differs from the real verdict the strongly-connected-component rule decided the query"""
    import networkx as nx
    from y0.algorithm.separation.sigma_separation import is_z_sigma_open

    try:
        sig = {v: {v} for v in graph.nodes()}
        cond = {_V(c) for c in Cs}
        r = not any(is_z_sigma_open(graph, p, conditions=cond, sigma=sig)
                    for p in nx.all_simple_paths(graph.disorient(), _V(a), _V(b)))
        return ["ok", "true" if r else "false"]
    except Exception:  # noqa: BLE001
        return ["err"]


def _check(g, graph, a, b, Cs, out, back_form=None, kw=False, back_cutoff="omitted"):
    """oracle for one query; returns failure text or None"""
    V = set(G.all_nodes(g))
    if a in V and b in V:
        back = _call(graph, b, a, Cs, back_form or _cell_form(b, a, Cs), kw, back_cutoff)
        if back != out:
            return f"not symmetric: sigma({a},{b}|{Cs}) = {out}, sigma({b},{a}|{Cs}) = {back}"
        if _adjacent(g, a, b) and a not in Cs and b not in Cs and out != ["ok", "false"]:
            return f"{a} and {b} are joined by an edge but reported {out}"
    if O.in_scope(g, a, b, Cs):
        want = O.d_separated(g, a, b, Cs)
        if out != ["ok", "true" if want else "false"]:
            path = None if want else O.d_connecting_path(g, a, b, Cs)
            return (f"sigma-separation says {out} on an ADMG where d-separation in the canonical latent DAG is {want}"
                    + (f"; d-connecting path {path}" if path else ""))
    return None


def _run_table(case):
    g = case["g"]
    graph, fault = _graph(case)
    V = G.all_nodes(g)
    cells, fails = [], []
    if fault:
        return "#constructor-fault", [(V[0], V[-1], [], fault)]
    for a, b, Cs in table_order(V):
        out = _call(graph, a, b, Cs, _cell_form(a, b, Cs), kw=(a + b) % 2 == 0)
        cells.append("e" if out == ["err"] else out[1][0])
        f = _check(g, graph, a, b, Cs, out)
        if f:
            fails.append((a, b, Cs, f))
    return "#" + "".join(cells), fails


def run_python(case):
    g = case["g"]
    V = G.all_nodes(g)
    acyclic = O.is_acyclic(g)
    C4._CUR["names"] = case.get("names")
    if case.get("names") == "cf" and any(u == v for u, v in g["bi"]):
        C4._CUR["names"] = None
        case = {k: v for k, v in case.items() if k != "names"}
    if case["kind"] == "classes":
        from y0.algorithm.separation.sigma_separation import get_equivalence_classes

        graph, fault = _graph(case)
        if fault:
            return {"out": ["err"], "fail": fault, "nontrivial": False, "tags": dict({"kind": "classes"}, **F.tags(_forms(case)))}
        cl = get_equivalence_classes(graph) if len(g["di"]) % 2 else get_equivalence_classes(graph=graph)
        out = ["ok", C.as_set([[str(_vint(v)), C.as_set([str(_vint(x)) for x in s])] for v, s in cl.items()])]
        # strongly connected components by definition
        di = {tuple(e) for e in g["di"]}

        def reach(v):
            seen, todo = {v}, [v]
            while todo:
                x = todo.pop()
                for (p, q) in di:
                    if p == x and q not in seen:
                        seen.add(q)
                        todo.append(q)
            return seen
        R = {v: reach(v) for v in V}
        want = ["ok", C.as_set([[str(v), C.as_set([str(w) for w in V if w in R[v] and v in R[w]])] for v in V])]
        fail = None if out == want else f"equivalence classes {out} are not the strongly connected components {want}"
        return {"out": out, "fail": fail, "nontrivial": not acyclic,
                "tags": dict({"kind": "classes", "acyclic": acyclic, "names": case.get("names", "plain"),
                              "n_scc_nontrivial": len({frozenset(w for w in V if w in R[v] and v in R[w]) for v in V
                                                       if len([w for w in V if w in R[v] and v in R[w]]) > 1})},
                             **F.tags(_forms(case)))}
    if case["kind"] == "table":
        cells, fails = _run_table(case)
        fail = f"sigma({fails[0][0]},{fails[0][1]}|{fails[0][2]}): {fails[0][3]} ({len(fails)} queries of this graph fail)" if fails else None
        return {"out": ["ok", cells], "fail": fail, "nontrivial": len(V) >= 3,
                "tags": dict({"kind": "table", "n_nodes": len(V), "acyclic": acyclic, "names": case.get("names", "plain"),
                              "shape": case.get("shape", "random")}, **F.tags(_forms(case)))}
    a, b, Cs = case["a"], case["b"], case["C"]
    fm = _forms(case)
    graph, fault = _graph(case)
    if fault:
        return {"out": ["err"], "fail": fault, "nontrivial": False, "tags": dict({"kind": "one"}, **F.tags(fm))}
    kw = fm["call"] == "keyword"
    out = _call(graph, a, b, Cs, fm["conditions"], kw, fm["cutoff"])
    # the swapped query gets ANOTHER legal cut-off (an integer >= n-1 where the query had none, none where it had one)
    back_cutoff = {"omitted": "n", "none": "n-1"}.get(fm["cutoff"], "omitted") if len(Cs) % 2 else fm["cutoff"]
    fail = _check(g, graph, a, b, Cs, out, fm["conditions_swapped"], not kw, back_cutoff)
    scope = O.in_scope(g, a, b, Cs)
    tags = {"kind": "one", "n_nodes": len(V), "acyclic": acyclic, "in_scope": scope, "csize": len(set(Cs)),
            "outcome": out[0] if out[0] == "err" else out[1], "adjacent": _adjacent(g, a, b),
            "names": case.get("names", "plain"), "shape": case.get("shape", "random"),
            "cutoff_int": fm["cutoff"] not in ("omitted", "none") or back_cutoff not in ("omitted", "none")}
    tags.update(F.tags(fm))
    if scope:
        want = O.d_separated(g, a, b, Cs)
        tags.update(C4.depth_tags(g, a, b, Cs, want))
    elif not acyclic and a in V and b in V and a != b and a not in Cs and b not in Cs:
        tags["cyc_n_nodes"] = len(V)
        tags["scc_decisive"] = _trivial_sigma_verdict(graph, a, b, Cs) != out
        tags["cyc_nonadjacent_separated"] = (not _adjacent(g, a, b)) and out == ["ok", "true"]
    nontrivial = (scope and (bool(Cs) or bool(g["bi"]))) or (not acyclic and a in V and b in V and a != b)
    return {"out": out, "fail": fail, "nontrivial": nontrivial, "tags": tags}


# ------------------------------------------------------------------------------------------ model side

def request(case):
    g = case["g"]
    gs = C.graph_sexp(g["nodes"], g["di"], g["bi"])
    if case["kind"] == "classes":
        return C.enc(["sep", "sigma_classes", gs])
    if case["kind"] == "table":
        return C.enc(["sep", "sigma_table", gs])
    return C.enc(["sep", "sigma", gs, case["a"], case["b"], case["C"]])


def canon_model(case, rep):
    if rep[0] == "err":
        return ["err"]
    if case["kind"] == "classes":
        return ["ok", C.as_set([[p[0], C.as_set(list(p[1]))] for p in rep[1]])]
    return ["ok", rep[1]]


def shrink(case):
    if case["kind"] == "table":
        _, fails = _run_table(case)
        for a, b, Cs, _ in fails[:3]:
            yield {"kind": "one", "g": case["g"], "a": a, "b": b, "C": Cs}
        return
    if case["kind"] != "one":
        return
    for g in G.shrink_graph(case["g"]):
        live = set(G.all_nodes(g))
        if case["a"] in live and case["b"] in live:
            c = dict(case)
            c["g"] = g
            c["C"] = [v for v in case["C"] if v in live]
            yield c
    for k in range(len(case["C"])):
        c = dict(case)
        c["C"] = case["C"][:k] + case["C"][k + 1:]
        yield c


def finding_key(case, res):
    c = {k: case[k] for k in ("kind", "g", "a", "b", "C") if k in case}
    c["g"] = {"nodes": sorted(G.all_nodes(c["g"])), "di": sorted(c["g"]["di"]), "bi": sorted(sorted(e) for e in c["g"]["bi"])}
    if "C" in c:
        c["C"] = sorted(set(c["C"]))
    return json.dumps(c, sort_keys=True)


MANIFEST = {
    "text": ("Proof: 12 Lean theorems about the executable model of are_sigma_separated (the code after the two fixes of defect F9). "
             "On EVERY mixed graph from_edges can build — cycles, self-loops, parallel edges — and all arguments: the outcome for "
             "(a, b) equals the outcome for (b, a), verdict or error (sigma_symm: the DFS enumerates exactly the simple paths, "
             "simple paths reverse, every triple predicate and the backtrack augmentation are reversal invariant); two distinct "
             "nodes joined by an edge, neither conditioned on, are never reported separated (sigma_adjacent), and with a "
             "conditioned endpoint the answer is 'separated' (sigma_endpoint_conditioned); the only failure is an endpoint that is "
             "not a node (sigma_missing_node). On every ACYCLIC mixed graph, for all distinct nodes a, b and every C the verdict is "
             "'separated' exactly when there is no m-connecting path (sigma_iff_mseparated), i.e. exactly when a, b are "
             "d-separated given C in the canonical latent DAG (sigma_iff_dsep_canonical), and it coincides with the verdict of "
             "are_d_separated (sigma_agrees_with_dsep). Tied to sigma_separation.py on every run by differential correspondence "
             "(queries, verdict tables, equivalence classes); the C04 path oracle on the canonical latent DAG searches for a "
             "failing input of the agreement clause, direct re-evaluation for symmetry/adjacency."),
    "note": ("Trusted: Lean kernel; axioms propext/Classical.choice/Quot.sound; hand-written model tied to the code by sampling; "
             "nx.all_simple_paths modelled as DFS over simple paths; the definitions of m-connecting path and canonical DAG in "
             "Spec/SepSpec.lean."),
    "technique": "Lean 4 theorems (DFS = simple paths, path reversal, edge-by-edge walk construction with 2-cycle exclusion) + differential correspondence with are_sigma_separated + brute-force d-connecting-path oracle on ADMGs",
}
